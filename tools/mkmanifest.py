#!/usr/bin/env python3
# Regenerates /verif/MANIFEST.json from the table below (kept here so the manifest stays consistent).
import json, os
HERE=os.path.dirname(os.path.dirname(os.path.abspath(__file__)))
ALL=[f"C{i:02d}" for i in range(1,21)]
CHECKS={
 "C07":dict(cat="exploration",technique="runtime monitoring: differential lexeme-stream oracle (own RFC 8259 lexer + encoding/json + math/big) over exhaustive bounded number lexemes and seeded generated texts",
   text="The real JSON minifier is run on every RFC 8259 number lexeme up to a length bound in three contexts (exhaustive), on seeded generated texts and on repository JSON files, with both KeepNumbers values; output must be valid for encoding/json, never longer, and token-for-token equal (strings byte-identical, numbers exactly equal as rationals).",
   note="Trusts encoding/json.Valid, math/big and my lexer; unbounded input space is sampled.",ref="DESIGN.md §5 C07"),
 "C08":dict(cat="exploration",technique="runtime monitoring: canary redzones + math/big value oracle over an exhaustive bounded enumeration and seeded random lexemes",
   text="Every lexeme of the number grammar up to a length bound over a carry-exercising digit alphabet (exhaustive), plus seeded long/extreme lexemes, is run through the real Number and Decimal at 22 precisions under canary, panic, grammar, length and exact-value monitors. Held = no monitor fired on any observed call.",
   note="Trusts math/big and my 40-line grammar recogniser; values beyond the enumerated bound are sampled, not covered.",ref="DESIGN.md §5 C08"),
}
PENDING_REASON="check not built yet in this round (work in progress; see DESIGN.md §9 for the order of work)"
def main():
    checks=[]
    for pid in ALL:
        if pid not in CHECKS: continue
        c=CHECKS[pid]
        checks.append({
          "property_id":pid,
          "quick_cmd":f"./run {pid} quick",
          "thorough_cmd":f"./run {pid} thorough",
          "evidence_file":f"/verif/evidence/{pid}.json",
          "replay_cmd_template":"cat {path}",
          "engine":"vcheck",
          "level_claimed":{"category":c["cat"],"text":c["text"],"design_ref":c["ref"]},
          "level_note":c["note"],
          "technique":c["technique"],
        })
    na=[{"property_id":p,"reason":PENDING_REASON} for p in ALL if p not in CHECKS]
    hooks_commits=[l.strip() for l in open(os.path.join(HERE,"MANIFEST.hooks")) if l.strip() and not l.startswith("#")] if os.path.exists(os.path.join(HERE,"MANIFEST.hooks")) else []
    m={"version":1,
       "setup_cmd":"./setup.sh",
       "hooks":{"guard":"verif","enable":"go build -tags verif (done by ./run for the harness and for cmd/minify)",
                "baseline_off_cmd":"cd /repo && GOFLAGS=-mod=mod GOPROXY=off GOSUMDB=off GOTOOLCHAIN=local go test -json -vet=off -count=1 -timeout 25m ./...",
                "source_commits":hooks_commits,"add_only":True},
       "engines":[{"name":"vcheck","path":"/verif/harness","serves_properties":sorted(CHECKS),"kind_free_text":"Go harness: workload generators, monitors (canaries, event logs, fault doubles, race-detector builds, strace recorder) and offline checkers; node worker for V8/acorn observation"}],
       "checks":checks,
       "notes":"Family: runtime monitoring and sanitizers. ./run <id> <tier> rebuilds the harness against /repo's working tree (tag verif). known_findings.json lists recorded/fixed defects. Scratch lives under /var/tmp/verif-* and is removed on exit.",
       "not_applicable":na}
    json.dump(m,open(os.path.join(HERE,"MANIFEST.json"),"w"),indent=1)
    print("checks:",[c["property_id"] for c in checks],"pending:",len(na))
main()
