#!/usr/bin/env python3
# Regenerates /verif/MANIFEST.json from the table below (kept here so the manifest stays consistent).
import json, os
HERE=os.path.dirname(os.path.dirname(os.path.abspath(__file__)))
ALL=[f"C{i:02d}" for i in range(1,21)]
CHECKS={
 "C01":dict(cat="exploration",technique="runtime monitoring: differential execution in V8 (node vm) of input and minified output under a logging host, observation logs compared offline",
   text="Each accepted program (frozen test-table inputs run as open fragments against logging mocks, plus seeded generated closed programs) is minified by the real JS minifier under a configuration from KeepVarNames x Version and both texts are executed by V8 in fresh deterministic realms; the ordered host-call log, final globals, top-level lexical values and completion must be identical, and the output must compile.",
   note="Sampled input space; V8 + acorn are the oracle base; reflection the property excludes is made constant in the realm; nine genuine defects that are pinned by the suite or live in the dependency are known findings with generator guards.",ref="DESIGN.md §5 C01"),
 "C02":dict(cat="exploration",technique="runtime monitoring: differential execution in V8 of scope-stress programs with unique tagged values at every binding and h() observation of every visible name, plus acorn-based scope analysis of input vs output",
   text="Seeded scope trees (nested function/arrow/method/class/block/for/switch/catch scopes with shadowing, destructuring parameters with defaults, var hoisting, labels/property names equal to locals, with-functions, free globals named like generated names, closures run after scope exit) and wide scopes of up to 4000 bindings are minified with renaming on and with KeepVarNames; both texts run in V8 and every observation site must see the same tagged values; statically, the output may have no new free names, the same top-level and import/export names, no new names inside with-functions, and under KeepVarNames no identifier that the input lacks.",
   note="Sampled; static monitors are inclusion checks (sound, incomplete); three genuine defects are known findings with generator guards.",ref="DESIGN.md §5 C02"),
 "C03":dict(cat="exploration",technique="runtime monitoring: differential DOM oracle - input and output parsed by golang.org/x/net/html, event streams compared under the documented-changes relation",
   text="Seeded conforming HTML documents/fragments (content-model driven generator with optional tags written or omitted, hostile attribute values in every quoting form, references, whitespace around inline/object/block elements, pre/textarea, payload elements, comments) are minified under random Keep* combinations with and without sub-minifiers; both texts are parsed by an independent HTML5 tree builder and must have the same element structure, equivalent attributes by kind, the same words per element context with whitespace only removed next to break boundaries, comments per option and payload slots equal to what the registered minifier returns.",
   note="Sampled; x/net/html and my transcription of the HTML Standard (break boundaries, boolean/URL/token-list attribute kinds, optional-tag rules) are the trusted base; two genuine defects are known findings.",ref="DESIGN.md §5 C03"),
 "C06":dict(cat="exploration",technique="runtime monitoring: differential infoset oracle (own XML tokenizer with attribute-value normalisation + encoding/xml strict) over an exhaustive neighbour matrix and seeded generated documents",
   text="The real XML minifier is run, with both KeepWhitespace values, on every ordered triple of ten node kinds around whitespace runs (exhaustive), on seeded generated well-formed documents and on repository XML files; input and output are tokenized by my own XML tokenizer and compared as infoset event streams (elements, normalised attribute values, PIs, DOCTYPE, character-data runs up to collapsing/trimming, KeepWhitespace boundary rule), and the output must be well-formed for my tokenizer and encoding/xml.",
   note="Trusts my tokenizer and encoding/xml; PI data compared up to whitespace outside quotes; two genuine defects (]]> in character data, PI data re-printed as attributes) are known findings with input guards.",ref="DESIGN.md §5 C06"),
 "C07":dict(cat="exploration",technique="runtime monitoring: differential lexeme-stream oracle (own RFC 8259 lexer + encoding/json + math/big) over exhaustive bounded number lexemes and seeded generated texts",
   text="The real JSON minifier is run on every RFC 8259 number lexeme up to a length bound in three contexts (exhaustive), on seeded generated texts and on repository JSON files, with both KeepNumbers values; output must be valid for encoding/json, never longer, and token-for-token equal (strings byte-identical, numbers exactly equal as rationals).",
   note="Trusts encoding/json.Valid, math/big and my lexer; unbounded input space is sampled.",ref="DESIGN.md §5 C07"),
 "C09":dict(cat="exploration",technique="runtime monitoring: independent parsers (acorn+V8, encoding/json, own XML tokenizer + encoding/xml, own HTML tag scanner, own CSS lexical scanner) applied to input and output of every accepted call, plus a second minifier pass",
   text="For each of the six languages the real minifier is run on frozen test-table inputs, repository corpora and benchmark documents (whole), generated inputs and seeded mutations/splices, under default and non-default options; whenever the independent parser accepts the input it must accept the output, and the minifier must accept its own output again.",
   note="Sampled; validity of HTML is tag-level (WHATWG tokenizer parse errors) plus inline-script validity; CSS validity is lexical and CSS inputs are not mutated; known defects are identified by witness, by failure signature (call site) or kept out of the domain by input guards.",ref="DESIGN.md §5 C09"),
 "C10":dict(cat="exploration",technique="runtime monitoring: hostile-input stress in child processes with pre-call logging, panic recovery, fatal-error attribution, allocation monitor, per-thread CPU-time scaling monitor over amplifier families, original-preserved monitor with canary",
   text="Every minifier and exported helper is driven with truncated, mutated, spliced, random and non-UTF-8 inputs, deep-nesting and long-repetition amplifiers at sizes n/4n/16n and extreme option values, inside child processes that log each case before running it; a panic, a fatal runtime error, an allocation far beyond a linear budget, CPU time growing faster than 10x per 4x size step (confirmed in a fresh process), a watchdog expiry that repeats alone in a fresh process, or Bytes/String returning an error together with changed data (or touching the caller's slice/capacity) is a violation.",
   note="Sampled; time is measured as per-thread CPU time, never wall clock, except the generous watchdog whose expiry must repeat alone; two quadratic behaviours are known findings identified by their amplifier family.",ref="DESIGN.md §5 C10"),
 "C12":dict(cat="exploration",technique="runtime monitoring: byte-equality against the plain call over exhaustive/seeded chunkings, offline checker over a logical-clock event log of the writer wrapper, HTTP header oracle, race-detector child, seeded schedule perturbation",
   text="Reader, Writer, Bytes, String, ResponseWriter, Middleware and MiddlewareWithError are driven with every partition of short inputs (exhaustive up to a length bound) and seeded partitions of long ones, paced consumers, injected Gosched/sleep at the real suspension points and three GOMAXPROCS values; output bytes and errors must equal the plain call, the recorded event order must show all destination writes and the minifier's return before Close returns with the minifier's error, and the HTTP wrappers must choose the minifier by Content-Type then path extension and never send a stale Content-Length.",
   note="Chunkings exhaustive only for short inputs; schedules are sampled (177+ distinct event interleavings per quick run); the parser dependency currently reads the whole stream first, so token-boundary refill bugs cannot exist today.",ref="DESIGN.md §5 C12"),
 "C13":dict(cat="exploration",technique="runtime monitoring: Go race detector over a concurrent operation mix on one shared registry (fresh -race processes), differential check against the sequential reference, option-struct shadow snapshots, goroutine-dump blocking probe, cross-process output digest",
   text="N goroutines issue Minify/Bytes/String/Reader/Writer/Match/MinifyMimetype calls on one cold, fully registered registry with shared non-default option structs over a pool that includes re-entrant documents; every result must equal the sequential reference from a separate registry, the option structs and the callers' inputs must be unchanged, repeating the sequential calls afterwards must give the same bytes, no call may block another (probe with a stub that only a second concurrent call can release), fresh -race children must report no race in minify code, and the output digest must agree across processes.",
   note="Schedules are sampled (three GOMAXPROCS/goroutine settings, repeated fresh processes); the race detector sees only races that occur; registration concurrent with use is excluded by the property.",ref="DESIGN.md §5 C13"),
 "C14":dict(cat="fault_enumeration",technique="runtime monitoring: fault-injecting reader/writer doubles at every position with sentinel-error oracle, call-budget progress monitor, goroutine-dump blocked-forever detector, race-detector child",
   text="For every input of a pool (hand-written incl. truncations of each, generated, repository corpus) of all six media types, the reader is made to fail after every byte count (three fault shapes, three error kinds incl. errors wrapping io.EOF) and the writer from every write index on, through Minify, Reader, Writer and ResponseWriter; the call must return the injected error and must return at all.",
   note="Complete over fault positions of each observed input (sampled above 512); inputs themselves are a finite pool. Blocking is decided from unchanging goroutine dumps, never from elapsed time alone.",ref="DESIGN.md §5 C14"),
 "C15":dict(cat="exploration",technique="runtime monitoring: recording stub minifiers + reference dispatch model over exhaustively enumerated registration/call histories (bounded) and seeded random ones",
   text="Every history of registrations up to a length bound over 8 overlapping literal/pattern registrations (exhaustive), plus random histories up to length 40 over 17, with calls interleaved after every registration: the stub that runs, its parameters, Match's answer, the error and the bytes written are compared with a 15-line model of the documented rules; command minifiers are exercised sequentially and concurrently.",
   note="Model is my reading of the doc comments (literal first, then first registered matching pattern, else ErrNotExist); media-type splitting is only predicted for well-formed strings.",ref="DESIGN.md §5 C15"),
 "C17":dict(cat="exploration",technique="runtime monitoring: exhaustive enumeration of the live table values (through verif-tagged accessors) checked against independent sources, each entry also driven through the public minifier and re-parsed",
   text="Every entry of the entity, colour, trait, unit, MIME and perfect-hash tables is enumerated at run time from the package values and compared with independent sources (Go stdlib HTML5 entity table, x/net/html, my transcription of CSS named colours and of the HTML Standard's attribute/element classes); entities and colours are additionally run through the HTML/CSS/SVG minifiers and re-parsed; hash tables are probed with one-edit near-misses.",
   note="Exhaustive over the finite tables. Trusts the Go stdlib entity table, x/net/html and my transcribed lists; two table entries (marquee, noscript as block) are known findings.",ref="DESIGN.md §5 C17"),
 "C18":dict(cat="exploration",technique="runtime monitoring: differential oracle (own RFC 2397 decoder + media-type normaliser + reference Mediatype) with canary redzones over exhaustive single-byte payloads and seeded generated URIs",
   text="DataURI is run on every single payload byte in three encodings x four media types (exhaustive), malformed forms, and seeded generated URIs against empty/stub/real registries; the result must decode (by my decoder) to the same normalised media type and to the payload the registered minifier produces, be validly and minimally encoded and never longer than a properly encoded input; Mediatype is compared with a reference on generated strings with quoted parameters.",
   note="Trusts my decoder/normaliser (RFC 2397/3986) and the dependency's escaping table for length optimality; three genuine dependency-level defects are listed as known findings with input guards.",ref="DESIGN.md §5 C18"),
 "C08":dict(cat="exploration",technique="runtime monitoring: canary redzones + math/big value oracle over an exhaustive bounded enumeration and seeded random lexemes",
   text="Every lexeme of the number grammar up to a length bound over a carry-exercising digit alphabet (exhaustive), plus seeded long/extreme lexemes, is run through the real Number and Decimal at 22 precisions under canary, panic, grammar, length and exact-value monitors. Held = no monitor fired on any observed call.",
   note="Trusts math/big and my 40-line grammar recogniser; values beyond the enumerated bound are sampled, not covered.",ref="DESIGN.md §5 C08"),
}
PENDING_REASON="check not built yet in this round (work in progress; see DESIGN.md §9 for the order of work)"
def main():
    checks=[]
    for pid in ALL:
        if pid not in CHECKS: continue
        c=CHECKS[pid]
        checks.append({
          "property_id":pid,
          "quick_cmd":f"./run {pid} quick",
          "thorough_cmd":f"./run {pid} thorough",
          "evidence_file":f"/verif/evidence/{pid}.json",
          "replay_cmd_template":"cat {path}",
          "engine":"vcheck",
          "level_claimed":{"category":c["cat"],"text":c["text"],"design_ref":c["ref"]},
          "level_note":c["note"],
          "technique":c["technique"],
        })
    na=[{"property_id":p,"reason":PENDING_REASON} for p in ALL if p not in CHECKS]
    hooks_commits=[l.split()[0] for l in open(os.path.join(HERE,"MANIFEST.hooks")) if l.strip() and not l.startswith("#")] if os.path.exists(os.path.join(HERE,"MANIFEST.hooks")) else []
    m={"version":1,
       "setup_cmd":"./setup.sh",
       "hooks":{"guard":"verif","enable":"go build -tags verif (done by ./run for the harness and for cmd/minify)",
                "baseline_off_cmd":"cd /repo && GOFLAGS=-mod=mod GOPROXY=off GOSUMDB=off GOTOOLCHAIN=local go test -json -vet=off -count=1 -timeout 25m ./...",
                "source_commits":hooks_commits,"add_only":True},
       "engines":[{"name":"vcheck","path":"/verif/harness","serves_properties":sorted(CHECKS),"kind_free_text":"Go harness: workload generators, monitors (canaries, event logs, fault doubles, race-detector builds, strace recorder) and offline checkers; node worker for V8/acorn observation"}],
       "checks":checks,
       "notes":"Family: runtime monitoring and sanitizers. ./run <id> <tier> rebuilds the harness against /repo's working tree (tag verif). known_findings.json lists recorded/fixed defects. Scratch lives under /var/tmp/verif-* and is removed on exit.",
       "not_applicable":na}
    json.dump(m,open(os.path.join(HERE,"MANIFEST.json"),"w"),indent=1)
    print("checks:",[c["property_id"] for c in checks],"pending:",len(na))
main()
