#!/bin/bash
cd /verif
for d in seeded/*/; do n=$(basename $d); timeout 1500 tools/seedrun.sh $n 2>&1 | cut -c1-260; done
