#!/bin/bash
# tools/verify_seed2.sh <worktree> <a|b> <package dir to copy the demo test into> [build tag]
# For seeds whose demonstration is a Go test that has to sit inside a package of the project.
set -u
export GOFLAGS=-mod=mod GOPROXY=off GOSUMDB=off GOTOOLCHAIN=local
wt="$1"; x="$2"; dir="$3"; tag="${4:-seeddemo}"
cd "$wt" || exit 2
git checkout -q -- .
src=SEED/$x/demo_test.go; [ -f "$src" ] || src=SEED/$x/demo_test.go.txt
cp "$src" "$dir/zz_seed_${x}_demo_test.go"
go test -vet=off -count=1 -tags "$tag" -run 'Seed|Demo|DataURI' "./$dir" >/dev/null 2>&1; r0=$?
git apply SEED/$x/patch.diff || { echo "RESULT $wt $x: patch does not apply"; rm -f "$dir/zz_seed_${x}_demo_test.go"; exit 1; }
go build ./... || { echo "RESULT $wt $x: build fails"; }
rm -f "$dir/zz_seed_${x}_demo_test.go"
go test -vet=off -count=1 ./... >/dev/null 2>&1; rs=$?
cp "$src" "$dir/zz_seed_${x}_demo_test.go"
go test -vet=off -count=1 -tags "$tag" -run 'Seed|Demo|DataURI' "./$dir" >/dev/null 2>&1; r1=$?
rm -f "$dir/zz_seed_${x}_demo_test.go"
git diff > SEED/$x/patch.rebased.diff
git checkout -q -- .
echo "RESULT $wt $x: demo_without=$r0 suite_with=$rs demo_with=$r1  => $([ $r0 -eq 0 ] && [ $rs -eq 0 ] && [ $r1 -ne 0 ] && echo CONFIRMED || echo NOT-CONFIRMED)"
