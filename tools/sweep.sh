#!/bin/bash
# tools/sweep.sh <tier> <seed>... : every check at the given tier and seeds against /repo; prints one line per run
# and the VIOLATION / KNOWN-FINDING lines; outputs go to a scratch VERIF_DIR so that evidence/ is untouched.
tier="$1"; shift
out=$(mktemp -d /var/tmp/verif-sweep-XXXXXX); cp /verif/known_findings.json "$out/"
trap 'rm -rf "$out"' EXIT
for s in "$@"; do
  for p in C01 C02 C03 C04 C05 C06 C07 C08 C09 C10 C11 C12 C13 C14 C15 C16 C17 C18 C19 C20; do
    VERIF_SEED=$s VERIF_DIR="$out" /verif/run $p $tier > "$out/log" 2>&1; rc=$?
    echo "rc=$rc $(grep -a "$tier seed=" "$out/log" | cut -c1-160)"
    grep -a "^VIOLATION\|  what:" "$out/log" | cut -c1-300 | head -6
  done
done
