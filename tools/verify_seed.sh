#!/bin/bash
# tools/verify_seed.sh <worktree> <a|b> : confirm a sub-agent's seeded change in its scratch worktree, re-based on /repo's HEAD:
#  patch applies, project builds, existing suite passes with it, demo fails with it and passes without it.
set -u
export GOFLAGS=-mod=mod GOPROXY=off GOSUMDB=off GOTOOLCHAIN=local
wt="$1"; x="$2"; sd="$wt/SEED/$x"
cd "$wt" || exit 2
git checkout -q -- . ; git checkout -q --detach main || exit 2
demo() {
  if [ -f "$sd/run.sh" ]; then sh "$sd/run.sh" >"$sd/.demo.log" 2>&1
  elif [ -f "$sd/run_demo.sh" ]; then sh "$sd/run_demo.sh" >"$sd/.demo.log" 2>&1
  elif [ -d "$sd/demo" ] && [ -f "$sd/demo/go.mod" ]; then (cd "$sd/demo" && go test -count=1 ./...) >"$sd/.demo.log" 2>&1
  elif ls "$sd"/*_test.go >/dev/null 2>&1; then go test -vet=off -count=1 -tags "seeddemo seed_demo seed" "./SEED/$x/" >"$sd/.demo.log" 2>&1
  elif [ -f "$sd/demo.sh" ]; then sh "$sd/demo.sh" >"$sd/.demo.log" 2>&1
  else echo "no known demo runner"; return 99; fi
}
demo; r0=$?
git apply "$sd/patch.diff" 2>/dev/null || git apply --3way "$sd/patch.diff" || { echo "RESULT $wt $x: patch does not apply on current HEAD"; git checkout -q -- .; exit 1; }
go build ./... || { echo "RESULT $wt $x: build fails"; git checkout -q -- .; exit 1; }
go test -vet=off -count=1 $(go list ./... | grep -v /SEED/) > "$sd/.suite.log" 2>&1; rs=$?
demo; r1=$?
git diff > "$sd/patch.rebased.diff"
git reset -q; git checkout -q -- .
echo "RESULT $wt $x: demo_without=$r0 suite_with=$rs demo_with=$r1  => $([ $r0 -eq 0 ] && [ $rs -eq 0 ] && [ $r1 -ne 0 ] && echo CONFIRMED || echo NOT-CONFIRMED)"
