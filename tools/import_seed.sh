#!/bin/bash
# tools/import_seed.sh <worktree> <a|b> <Cxx> "<needs>" : copy a CONFIRMED seed into /verif/seeded/<Cxx>-<x>/
set -eu
wt="$1"; x="$2"; prop="$3"; needs="$4"; sfx="${5:-$x}"; sd="$wt/SEED/$x"; dst="/verif/seeded/$prop-$sfx"
mkdir -p "$dst"
cp "$sd/patch.rebased.diff" "$dst/patch.diff"
for f in "$sd"/*; do case "$(basename $f)" in patch.diff|patch.rebased.diff) ;; *_test.go) cp "$f" "$dst/$(basename $f).txt";; *) cp -r "$f" "$dst/";; esac; done
python3 - "$dst" "$prop" "$needs" <<'PY'
import json,sys
dst,prop,needs=sys.argv[1:4]
json.dump({"property":prop,"origin":"independent sub-agent given only the property text and a scratch worktree","needs":needs,
 "verified":"tools/verify_seed.sh in the scratch worktree re-based on /repo HEAD: patch applies, go build ./... ok, go test -vet=off -count=1 ./... passes with the patch, the demonstration fails with the patch and passes without it",
 "demo":"see README.md (Go test files are stored with a .txt suffix so they are not compiled here)","caught_by":[]},open(dst+"/meta.json","w"),indent=1)
PY
echo imported $dst
