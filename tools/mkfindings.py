#!/usr/bin/env python3
# Renders /verif/known_findings.json as /verif/FINDINGS.md (a readable appendix to DESIGN.md).
import json, os, collections
HERE = os.path.dirname(os.path.dirname(os.path.abspath(__file__)))
d = json.load(open(os.path.join(HERE, "known_findings.json")))
by = collections.defaultdict(lambda: {"open": [], "fixed": []})
for f in d["findings"]:
    by[f["property"]][f["status"]].append(f)
out = ["# Findings recorded by the C01..C20 checks", "",
       "Generated from `known_findings.json` by `tools/mkfindings.py`; that file is what the checks read.",
       "*open* = genuine defect of tdewolff/minify that is recorded, not repaired (reason given in DESIGN.md §6);",
       "*fixed* = repaired by the `fix:` commit named; the witness is replayed on every run and suppresses nothing.", ""]
nopen = nfixed = 0
for prop in sorted(by):
    out.append(f"## {prop}")
    for st in ("open", "fixed"):
        for f in by[prop][st]:
            if st == "open":
                nopen += 1
                how = "identified by call site / failure signature" if not f.get("witnesses") else f"{len(f['witnesses'])} witness(es)"
                g = f" Guard: {f['guard']}." if f.get("guard") else ""
                out.append(f"- **open** `{f['id']}` ({how}). {f['what']}.{g}")
            else:
                nfixed += 1
                out.append(f"- fixed `{f['id']}` in `{f.get('commit','?')}`. {f['what']}.")
    out.append("")
out.insert(6, f"Totals: {nopen} open entries, {nfixed} fixed entries (an entry that concerns two properties is listed under both).")
out.insert(7, "")
open(os.path.join(HERE, "FINDINGS.md"), "w").write("\n".join(out) + "\n")
print("open", nopen, "fixed", nfixed)
