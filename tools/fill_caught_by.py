#!/usr/bin/env python3
# tools/fill_caught_by.py <allseeds log> : records in every seeded/<id>/meta.json which check caught the change in
# the given full regression (lines "CAUGHT <id> by <Cxx> <tier>" / "MISSED <id> by ...").
import json, re, sys, os
HERE = os.path.dirname(os.path.dirname(os.path.abspath(__file__)))
log = open(sys.argv[1], errors="replace").read()
extra = {"C06-b": ["C13 quick"], "C02-o": ["C16 quick"]}   # caught by another property's check (verified with tools/seedrun.sh <id> <Cxx>)
n = 0
for m in re.finditer(r"^(CAUGHT|MISSED) (C\d\d-[a-z]) by (C\d\d) (\w+)", log, re.M):
    st, sid, prop, tier = m.groups()
    p = os.path.join(HERE, "seeded", sid, "meta.json")
    if not os.path.exists(p):
        continue
    d = json.load(open(p))
    cb = [f"{prop} {tier}"] if st == "CAUGHT" else []
    for e in extra.get(sid, []):
        if e not in cb:
            cb.append(e)
    d["caught_by"] = cb
    d["last_regression"] = "caught by its own property's check" if st == "CAUGHT" else ("missed by its own property's check" + ("; caught by " + ", ".join(extra[sid]) if sid in extra else "") + ("; " + d["superseded"] if d.get("superseded") else ""))
    json.dump(d, open(p, "w"), indent=1)
    n += 1
print("updated", n)
