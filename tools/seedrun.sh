#!/bin/bash
# tools/seedrun.sh <seeded-dir-name> [prop] [tier]
# Applies /verif/seeded/<name>/patch.diff to /repo, runs the check (outputs go to a scratch VERIF_DIR so the
# real evidence is untouched), and always reverts /repo afterwards. Prints CAUGHT / MISSED.
set -u
name="$1"; dir="/verif/seeded/$name"
prop="${2:-$(python3 -c "import json;print(json.load(open('$dir/meta.json'))['property'])")}"
tier="${3:-quick}"
R="${VERIF_REPO:-/repo}"   # VERIF_REPO=<clone of /repo> runs the seed against a scratch clone instead
[ -z "$(git -C "$R" status --porcelain)" ] || { echo "$R not clean"; exit 2; }
out=$(mktemp -d /var/tmp/verif-seedrun-XXXXXX)
cp /verif/known_findings.json "$out/"
trap 'git -C "$R" apply -R "$dir/patch.diff" 2>/dev/null; git -C "$R" checkout -- . ; rm -rf "$out"' EXIT
git -C "$R" apply "$dir/patch.diff" || { echo "PATCH-DOES-NOT-APPLY $name"; exit 2; }
VERIF_DIR="$out" /verif/run "$prop" "$tier" > "$out/log" 2>&1
rc=$?
if grep -q "^VIOLATION property=$prop" "$out/log" && [ $rc -eq 1 ]; then
  echo "CAUGHT $name by $prop $tier: $(grep -m1 'what:' "$out/log" | cut -c1-220)"
else
  echo "MISSED $name by $prop $tier (rc=$rc): $(tail -2 "$out/log" | cut -c1-200 | tr '\n' ' ')"
fi
