// V8 executor + acorn services for the C01/C02/C09/C16 monitors.
// Run: node --expose-internals --experimental-vm-modules --no-warnings worker.cjs
// Protocol: one JSON request per line on stdin, one JSON reply per line on stdout.
'use strict';
let acorn, walk;
try {
  acorn = require('internal/deps/acorn/acorn/dist/acorn');
  walk = require('internal/deps/acorn/acorn-walk/dist/walk');
} catch (e) {
  process.stdout.write(JSON.stringify({ fatal: 'tooling missing: acorn internals not available: ' + e.message }) + '\n');
  process.exit(3);
}
const vm = require('vm');
if (typeof vm.SourceTextModule !== 'function') {
  process.stdout.write(JSON.stringify({ fatal: 'tooling missing: vm.SourceTextModule (run with --experimental-vm-modules)' }) + '\n');
  process.exit(3);
}

// ------------------------------------------------------------------ prelude (runs INSIDE the context)
const PRELUDE = String.raw`
(function (emit, mockNames, maxEvents) {
  'use strict';
  var events = 0;
  var budgetToken = { budget: true };
  var mockIds = new WeakMap();
  var RealDate = Date, clock = 1600000000000;
  var rnd = 12345;
  function ser(v, depth, seen) {
    switch (typeof v) {
      case 'undefined': return 'u';
      case 'boolean': return v ? 'T' : 'F';
      case 'number': return v === 0 ? (1 / v < 0 ? '-0' : '0') : (v !== v ? 'NaN' : 'n' + String(v));
      case 'bigint': return 'b' + String(v);
      case 'string': return JSON.stringify(v);
      case 'symbol': return 'sym(' + String(v.description) + ')';
      case 'function': return mockIds.has(v) ? 'mock<' + mockIds.get(v) + '>' : 'fn';
    }
    if (v === null) return 'null';
    if (mockIds.has(v)) return 'mock<' + mockIds.get(v) + '>';
    if (seen.indexOf(v) >= 0) return 'cycle';
    if (depth > 4) return 'deep';
    seen = seen.concat([v]);
    try {
      if (Array.isArray(v)) {
        var parts = [];
        for (var i = 0; i < v.length && i < 50; i++) parts.push(i in v ? ser(v[i], depth + 1, seen) : 'hole');
        return '[' + parts.join(',') + (v.length > 50 ? ',…' + v.length : '') + ']';
      }
      if (v instanceof RegExp) return 're(' + v.flags + ',' + v.lastIndex + ')';
      if (v instanceof RealDate) return 'date(' + (+v) + ')';
      if (v instanceof Error) {
        var cls = 'Error';
        var names = ['TypeError', 'ReferenceError', 'RangeError', 'SyntaxError', 'EvalError', 'URIError'];
        var ctors = [TypeError, ReferenceError, RangeError, SyntaxError, EvalError, URIError];
        for (var k = 0; k < ctors.length; k++) if (v instanceof ctors[k]) cls = names[k];
        return 'err(' + cls + ')';
      }
      if (v instanceof Map) { var m = []; v.forEach(function (val, key) { m.push(ser(key, depth + 1, seen) + '=>' + ser(val, depth + 1, seen)); }); return 'map{' + m.join(',') + '}'; }
      if (v instanceof Set) { var s = []; v.forEach(function (val) { s.push(ser(val, depth + 1, seen)); }); return 'set{' + s.join(',') + '}'; }
      if (typeof Promise !== 'undefined' && v instanceof Promise) return 'promise';
      var keys = Object.keys(v), out = [];
      for (var j = 0; j < keys.length && j < 50; j++) {
        var d = Object.getOwnPropertyDescriptor(v, keys[j]);
        out.push(JSON.stringify(keys[j]) + ':' + (d && ('value' in d) ? ser(d.value, depth + 1, seen) : 'accessor'));
      }
      return '{' + out.join(',') + '}';
    } catch (e) { return 'unserializable'; }
  }
  function record(site, args) {
    if (++events > maxEvents) { if (events === maxEvents + 1) emit('<<BUDGET>>'); throw budgetToken; }
    var parts = [];
    for (var i = 0; i < args.length; i++) parts.push(ser(args[i], 0, []));
    emit(site + '(' + parts.join(',') + ')');
  }
  function hash(s) { var h = 2166136261; for (var i = 0; i < s.length; i++) { h ^= s.charCodeAt(i); h = Math.imul(h, 16777619) >>> 0; } return h >>> 0; }
  var G = globalThis;
  // host functions for closed programs
  Object.defineProperty(G, 'h', { value: function () { record('h', Array.prototype.slice.call(arguments)); return arguments.length ? arguments[arguments.length - 1] : undefined; }, writable: true, configurable: true, enumerable: false });
  // determinism
  function FakeDate() {
    var a = Array.prototype.slice.call(arguments);
    if (!new.target) return new RealDate(clock += 1000).toString();
    return Reflect.construct(RealDate, a.length ? a : [clock += 1000], new.target);
  }
  FakeDate.prototype = RealDate.prototype; FakeDate.now = function () { return clock += 1000; };
  FakeDate.parse = RealDate.parse; FakeDate.UTC = RealDate.UTC;
  G.Date = FakeDate;
  Math.random = function () { rnd = (rnd * 1103515245 + 12345) % 2147483648; return rnd / 2147483648; };
  // reflection a minifier may disturb is made constant
  Function.prototype.toString = function () { return 'function(){}'; };
  Object.defineProperty(RegExp.prototype, 'source', { get: function () { return '(?:)'; }, configurable: true });
  RegExp.prototype.toString = function () { return '/(?:)/' + this.flags; };
  // fake timers
  var timers = [], timerId = 0;
  G.setTimeout = function (f) { var a = Array.prototype.slice.call(arguments, 2); timers.push({ id: ++timerId, f: f, a: a }); return timerId; };
  G.setInterval = G.setTimeout; G.setImmediate = function (f) { return G.setTimeout(f, 0); };
  G.clearTimeout = G.clearInterval = G.clearImmediate = function (id) { timers = timers.filter(function (t) { return t.id !== id; }); };
  G.queueMicrotask = function (f) { Promise.resolve().then(f); };
  Object.defineProperty(G, '__runTimers', { value: function () { var n = 0; while (timers.length && n < 20) { var t = timers.shift(); n++; if (typeof t.f === 'function') t.f.apply(undefined, t.a); } return timers.length; }, enumerable: false, configurable: true });
  G.console = { log: function () { record('console.log', Array.prototype.slice.call(arguments)); }, error: function () { record('console.error', Array.prototype.slice.call(arguments)); }, warn: function () { record('console.warn', Array.prototype.slice.call(arguments)); }, info: function () { record('console.info', Array.prototype.slice.call(arguments)); } };

  // mocks for open fragments
  function prim(path, k) {
    switch (k % 5) {
      case 0: return (hash(path) % 17) - 3;
      case 1: return 's_' + path.slice(-12);
      case 2: return (hash(path) & 1) === 1;
      case 3: return (hash(path) % 1000) / 8;
      default: return hash(path) % 5;
    }
  }
  function mockValue(path, depth) {
    var hsh = hash(path);
    var k = hsh % 10;
    if (depth > 3) return prim(path, hsh >>> 4);
    if (k < 1) return prim(path, hsh >>> 4);
    if (k === 1) return [prim(path + '[0]', 0), prim(path + '[1]', 1), prim(path + '[2]', 4)];
    return mockObject(path, depth);
  }
  function mockObject(path, depth) {
    var children = Object.create(null), calls = 0;
    var target = function () { };
    function child(key) {
      var ck = String(key);
      if (!(ck in children)) children[ck] = mockValue(path + '.' + ck, depth + 1);
      return children[ck];
    }
    var p = new Proxy(target, {
      get: function (t, key) {
        if (key === Symbol.toPrimitive) return function (hint) { return hint === 'string' ? 's_' + path.slice(-10) : (hash(path) % 9) + 1; };
        if (key === Symbol.iterator) return function () { record('iterate:' + path, []); var i = 0; return { next: function () { return i < 2 ? { value: child('it' + (i++)), done: false } : { value: undefined, done: true }; }, 'return': function () { record('iterreturn:' + path, []); return {}; } }; };
        if (typeof key === 'symbol') return undefined;
        if (key === 'then' || key === 'toJSON') return undefined;
        if (key === 'prototype') { return child('prototype'); }
        if (key === 'valueOf' || key === 'toString') return function () { return key === 'toString' ? 's_' + path.slice(-10) : (hash(path) % 9) + 1; };
        if (key === 'length') { record('get:' + path, [key]); return 2; }
        record('get:' + path, [key]);
        return child(key);
      },
      set: function (t, key, val) { record('set:' + path, [typeof key === 'symbol' ? 'symbol' : key, val]); if (typeof key !== 'symbol') children[String(key)] = val; return true; },
      has: function (t, key) { record('has:' + path, [typeof key === 'symbol' ? 'symbol' : key]); return (hash(path + '?' + String(key)) & 1) === 1; },
      deleteProperty: function (t, key) { record('delete:' + path, [typeof key === 'symbol' ? 'symbol' : key]); return true; },
      apply: function (t, thisArg, args) { record('call:' + path, args); return mockValue(path + '()' + (calls++), depth + 1); },
      construct: function (t, args) { record('new:' + path, args); return mockObject(path + '{}' + (calls++), depth + 1); },
      ownKeys: function () { record('keys:' + path, []); return (hash(path) & 2) ? ['p', 'q'] : []; },
      getOwnPropertyDescriptor: function (t, key) { if (key === 'p' || key === 'q') return { value: child(key), enumerable: true, configurable: true, writable: true }; return undefined; },
      getPrototypeOf: function () { return Object.prototype; },
      defineProperty: function (t, key, desc) { record('define:' + path, [typeof key === 'symbol' ? 'symbol' : key]); return true; }
    });
    mockIds.set(p, path);
    return p;
  }
  var initial = Object.create(null);
  for (var i = 0; i < mockNames.length; i++) {
    var n = mockNames[i];
    if (n in G) continue; // never override builtins
    var val = mockValue(n, 0);
    try { Object.defineProperty(G, n, { value: val, writable: true, configurable: true, enumerable: true }); initial[n] = val; } catch (e) { }
  }
  var baseline = Object.getOwnPropertyNames(G);
  Object.defineProperty(G, '__finish', {
    value: function () {
      var names = Object.getOwnPropertyNames(G).sort(), out = [];
      for (var i = 0; i < names.length; i++) {
        var n = names[i];
        if (n.slice(0, 2) === '__') continue;
        var isNew = baseline.indexOf(n) < 0;
        var d = Object.getOwnPropertyDescriptor(G, n);
        if (!isNew && !(n in initial)) continue;
        if (!isNew && d && ('value' in d) && d.value === initial[n]) continue; // untouched mock
        out.push(n + '=' + (d && ('value' in d) ? ser(d.value, 0, []) : 'accessor'));
      }
      return out;
    }, enumerable: false, configurable: true
  });
  Object.defineProperty(G, '__ser', { value: function (v) { return ser(v, 0, []); }, enumerable: false, configurable: true });
  Object.defineProperty(G, '__isBudget', { value: function (v) { return v === budgetToken; }, enumerable: false, configurable: true });
})
`;

const PRELUDE_SCRIPT = new vm.Script(PRELUDE, { filename: 'prelude.js' });
function tick() { return new Promise((r) => setImmediate(r)); }

async function execProgram(req) {
  const log = [];
  const emit = (s) => { log.push(s); };
  const ctx = vm.createContext({}, { microtaskMode: undefined });
  const res = { log, globals: [], lexicals: [], completion: 'normal', inconclusive: null };
  let prelude;
  try {
    prelude = PRELUDE_SCRIPT.runInContext(ctx);
    prelude(emit, req.mocks || [], req.maxEvents || 3000);
  } catch (e) {
    res.inconclusive = 'prelude failed: ' + (e && e.message);
    return res;
  }
  const timeout = req.timeout || 2000;
  const classify = (e) => {
    let isBudget = false;
    try { isBudget = ctx.__isBudget(e); } catch (_) { }
    if (isBudget) { res.inconclusive = 'event budget'; return; }
    if (e && e.code === 'ERR_SCRIPT_EXECUTION_TIMEOUT') { res.inconclusive = 'watchdog'; return; }
    let s;
    try { s = ctx.__ser(e); } catch (_) { s = 'unserializable'; }
    // RangeError from stack exhaustion depends on frame sizes: not comparable
    if (s === 'err(RangeError)' && e && /call stack/i.test(String(e.message))) { res.inconclusive = 'stack overflow in program'; return; }
    res.completion = 'throw ' + s;
  };
  let unit = null;
  try {
    if (req.kind === 'module') unit = new vm.SourceTextModule(req.src, { context: ctx, identifier: 'main.mjs' });
    else unit = new vm.Script(req.src, { filename: 'main.js' });
  } catch (e) {
    res.completion = 'compile-error';
    res.compileMsg = String(e && e.message);
    return res;
  }
  try {
    if (req.kind === 'module') {
      const mod = unit;
      await mod.link(async (spec, ref) => {
        const names = (req.imports && req.imports[spec]) || [];
        const all = names.concat(names.indexOf('default') < 0 ? ['default'] : []);
        const sm = new vm.SyntheticModule(all, function () {
          for (const n of all) this.setExport(n, 'import:' + spec + ':' + n);
        }, { context: ctx, identifier: spec });
        return sm;
      });
      await mod.evaluate({ timeout });
      const ns = mod.namespace;
      for (const k of Object.keys(ns).sort()) {
        let v; try { v = ctx.__ser(ns[k]); } catch (e) { v = 'tdz'; }
        res.lexicals.push('export ' + k + '=' + v);
      }
      // exported functions are the module's interface: call each once so that what happens inside them is observed
      for (const k of Object.keys(ns).sort()) {
        let f; try { f = ns[k]; } catch (e) { continue; }
        if (typeof f !== 'function') continue;
        try {
          emit('export-call ' + k);
          const r = f('#A1', '#A2', '#A3');
          emit('export-return ' + k + ' ' + ctx.__ser(r));
        } catch (e) {
          let isBudget = false;
          try { isBudget = ctx.__isBudget(e); } catch (_) { }
          if (isBudget) { res.inconclusive = 'event budget'; break; }
          let s2; try { s2 = ctx.__ser(e); } catch (_) { s2 = 'unserializable'; }
          emit('export-throw ' + k + ' ' + s2);
        }
      }
    } else {
      unit.runInContext(ctx, { timeout });
    }
  } catch (e) { classify(e); }
  // async tail: microtasks + fake timers, bounded
  for (let round = 0; round < 6 && !res.inconclusive; round++) {
    await tick();
    let left = 0;
    try { left = vm.runInContext('__runTimers()', ctx, { timeout }); } catch (e) { classify(e); break; }
    await tick();
    if (!left && round > 0) break;
  }
  if (!res.inconclusive && log.indexOf('<<BUDGET>>') >= 0) res.inconclusive = 'event budget';
  if (!res.inconclusive) {
    try { res.globals = vm.runInContext('__finish()', ctx, { timeout }); } catch (e) { res.inconclusive = 'finish failed: ' + (e && e.message); }
    if (req.kind !== 'module' && req.lexicals && req.lexicals.length) {
      for (const n of req.lexicals) {
        let v;
        try { v = vm.runInContext('__ser(' + n + ')', ctx, { timeout }); } catch (e) {
          // the wall-clock watchdog expiring here (loaded machine) is not an observation about the program
          if (e && e.code === 'ERR_SCRIPT_EXECUTION_TIMEOUT') { res.inconclusive = 'watchdog'; break; }
          v = 'unreadable(' + (e && e.name) + ')';
        }
        res.lexicals.push(n + '=' + v);
      }
    }
  }
  return res;
}

// ------------------------------------------------------------------ syntax + analysis
function parseWith(src, kind, ecmaVersion) {
  return acorn.parse(src, { ecmaVersion: ecmaVersion || 'latest', sourceType: kind === 'module' ? 'module' : 'script', allowHashBang: true, allowReturnOutsideFunction: false, locations: false });
}

function syntax(req) {
  const out = { acorn: true, v8: true };
  try { parseWith(req.src, req.kind, req.ecmaVersion); } catch (e) { out.acorn = false; out.acornMsg = String(e.message); }
  if (!req.acornOnly) {
    try {
      if (req.kind === 'module') new vm.SourceTextModule(req.src, { context: vm.createContext({}) });
      else new vm.Script(req.src);
    } catch (e) { out.v8 = false; out.v8Msg = String(e.message); }
  }
  return out;
}

// smallest ECMAScript edition whose grammar (per acorn) accepts the text; 0 = none
const EDITIONS = [5, 2015, 2016, 2017, 2018, 2019, 2020, 2021, 2022, 2023, 2024];
function minver(req) {
  for (const v of EDITIONS) {
    try { parseWith(req.src, req.kind, v); return { version: v }; } catch (e) { var last = String(e.message); }
  }
  try { parseWith(req.src, req.kind, 'latest'); return { version: 9999 }; } catch (e) { return { version: 0, msg: String(e.message) }; }
}

// scope analysis: declared names per scope, references resolved, free names
function analyze(req) {
  let ast;
  const kind = req.kind === 'module' ? 'module' : 'script';
  try { ast = parseWith(req.src, kind); } catch (e) { return { error: String(e.message) }; }
  const scopes = [];
  function newScope(type, parent, node) { const s = { id: scopes.length, type, parent, decl: new Map(), refs: [], node, hasWith: false, hasEval: false }; scopes.push(s); return s; }
  const root = newScope(kind === 'module' ? 'module' : 'global', null, ast);
  const props = [], labels = [], imexp = [], idents = new Set();
  function funcScope(s) { while (s && s.type !== 'function' && s.type !== 'global' && s.type !== 'module' && s.type !== 'classstatic') s = s.parent; return s; }
  function declare(scope, name, k) { if (!scope.decl.has(name)) scope.decl.set(name, k); }
  function declPattern(p, scope, k) {
    if (!p) return;
    switch (p.type) {
      case 'Identifier': idents.add(p.name); declare(k === 'var' ? funcScope(scope) : scope, p.name, k); break;
      case 'ObjectPattern': for (const pr of p.properties) { if (pr.type === 'RestElement') declPattern(pr.argument, scope, k); else { if (pr.computed) visit(pr.key, scope); else notePropKey(pr.key); declPattern(pr.value, scope, k); } } break;
      case 'ArrayPattern': for (const e of p.elements) declPattern(e, scope, k); break;
      case 'RestElement': declPattern(p.argument, scope, k); break;
      case 'AssignmentPattern': declPattern(p.left, scope, k); visit(p.right, scope); break;
      default: visit(p, scope);
    }
  }
  function notePropKey(key) { if (key.type === 'Identifier') props.push(key.name); else if (key.type === 'Literal') props.push(String(key.value)); else if (key.type === 'PrivateIdentifier') props.push('#' + key.name); }
  // hoisting pre-pass for a function/global body: var + function declarations
  function hoist(node, scope, top) {
    if (!node || typeof node.type !== 'string') return;
    switch (node.type) {
      case 'VariableDeclaration': if (node.kind === 'var') for (const d of node.declarations) declNames(d.id, (n) => declare(funcScope(scope), n, 'var')); break;
      case 'FunctionDeclaration': return; // handled by block pre-pass
      case 'FunctionExpression': case 'ArrowFunctionExpression': case 'ClassDeclaration': case 'ClassExpression': return;
    }
    for (const k of Object.keys(node)) { if (k === 'type') continue; const v = node[k]; if (Array.isArray(v)) v.forEach((c) => hoist(c, scope, false)); else if (v && typeof v.type === 'string') hoist(v, scope, false); }
  }
  function declNames(p, f) {
    if (!p) return;
    switch (p.type) {
      case 'Identifier': f(p.name); break;
      case 'ObjectPattern': p.properties.forEach((pr) => declNames(pr.type === 'RestElement' ? pr.argument : pr.value, f)); break;
      case 'ArrayPattern': p.elements.forEach((e) => declNames(e, f)); break;
      case 'RestElement': declNames(p.argument, f); break;
      case 'AssignmentPattern': declNames(p.left, f); break;
    }
  }
  function blockDecls(stmts, scope, isFuncTop) {
    for (const st of stmts) {
      if (!st) continue;
      let s = st;
      if (s.type === 'ExportNamedDeclaration' || s.type === 'ExportDefaultDeclaration') s = s.declaration || s;
      if (!s || !s.type) continue;
      if (s.type === 'FunctionDeclaration' && s.id) { declare(scope, s.id.name, isFuncTop ? 'function' : 'blockfunction'); if (!isFuncTop) { const f = funcScope(scope); if (f) declare(f, s.id.name, 'annexb'); } } // Annex B.3.3: block functions are also var-scoped in sloppy code
      else if (s.type === 'ClassDeclaration' && s.id) declare(scope, s.id.name, 'class');
      else if (s.type === 'VariableDeclaration' && s.kind !== 'var') for (const d of s.declarations) declNames(d.id, (n) => declare(scope, n, s.kind));
    }
  }
  function visitFunction(node, scope) {
    const fs = newScope('function', scope, node);
    fs.arrow = node.type === 'ArrowFunctionExpression';
    if (node.type === 'FunctionExpression' && node.id) { idents.add(node.id.name); declare(fs, node.id.name, 'fname'); }
    for (const p of node.params) declPattern(p, fs, 'param');
    if (node.body.type === 'BlockStatement') {
      hoist(node.body, fs, true);
      blockDecls(node.body.body, fs, true);
      for (const st of node.body.body) visit(st, fs);
    } else visit(node.body, fs);
  }
  function visitClass(node, scope) {
    const cs = newScope('class', scope, node);
    if (node.id) { idents.add(node.id.name); if (node.type === 'ClassExpression') declare(cs, node.id.name, 'cname'); }
    if (node.superClass) visit(node.superClass, cs);
    for (const m of node.body.body) {
      if (m.type === 'StaticBlock') { const ss = newScope('classstatic', cs, m); hoist(m, ss, true); blockDecls(m.body, ss, true); m.body.forEach((st) => visit(st, ss)); continue; }
      if (m.computed) visit(m.key, cs); else notePropKey(m.key);
      if (m.value) { if (m.type === 'MethodDefinition') visitFunction(m.value, cs); else { const fs = newScope('function', cs, m); visit(m.value, fs); } }
    }
  }
  function ref(name, scope, write) { idents.add(name); scope.refs.push({ name, write }); }
  function visit(node, scope) {
    if (!node || typeof node.type !== 'string') return;
    switch (node.type) {
      case 'Identifier': ref(node.name, scope, false); return;
      case 'Program': hoist(node, scope, true); blockDecls(node.body, scope, true); node.body.forEach((s) => visit(s, scope)); return;
      case 'FunctionDeclaration': if (node.id) idents.add(node.id.name); visitFunction(node, scope); return;
      case 'FunctionExpression': case 'ArrowFunctionExpression': visitFunction(node, scope); return;
      case 'ClassDeclaration': case 'ClassExpression': visitClass(node, scope); return;
      case 'BlockStatement': { const bs = newScope('block', scope, node); blockDecls(node.body, bs, false); node.body.forEach((s) => visit(s, bs)); return; }
      case 'ForStatement': case 'ForInStatement': case 'ForOfStatement': {
        const fs = newScope('block', scope, node);
        const init = node.type === 'ForStatement' ? node.init : node.left;
        if (init && init.type === 'VariableDeclaration' && init.kind !== 'var') for (const d of init.declarations) declNames(d.id, (n) => declare(fs, n, init.kind));
        for (const k of ['init', 'left', 'test', 'update', 'right', 'body']) if (node[k]) visit(node[k], fs);
        return;
      }
      case 'SwitchStatement': { visit(node.discriminant, scope); const ss = newScope('block', scope, node); const all = []; node.cases.forEach((c) => all.push.apply(all, c.consequent)); blockDecls(all, ss, false); node.cases.forEach((c) => { if (c.test) visit(c.test, ss); c.consequent.forEach((s) => visit(s, ss)); }); return; }
      case 'CatchClause': { const cs = newScope('block', scope, node); if (node.param) declPattern(node.param, cs, 'catch'); blockDecls(node.body.body, cs, false); node.body.body.forEach((s) => visit(s, cs)); return; }
      case 'VariableDeclaration': for (const d of node.declarations) { declPatternRefs(d.id, scope); if (d.init) visit(d.init, scope); } return;
      case 'WithStatement': { let f = funcScope(scope); if (f) f.hasWith = true; visit(node.object, scope); visit(node.body, scope); return; }
      case 'LabeledStatement': labels.push(node.label.name); visit(node.body, scope); return;
      case 'BreakStatement': case 'ContinueStatement': return;
      case 'MemberExpression': visit(node.object, scope); if (node.computed) visit(node.property, scope); else notePropKey(node.property); return;
      case 'Property': if (node.computed) visit(node.key, scope); else notePropKey(node.key); visit(node.value, scope); return;
      case 'PropertyDefinition': case 'MethodDefinition': return;
      case 'MetaProperty': return;
      case 'ImportDeclaration': for (const sp of node.specifiers) { idents.add(sp.local.name); declare(scope, sp.local.name, 'import'); imexp.push('import:' + (sp.imported ? (sp.imported.name || sp.imported.value) : sp.type) + ':' + sp.local.name); } return;
      case 'ExportNamedDeclaration': if (node.declaration) visit(node.declaration, scope); for (const sp of node.specifiers) { imexp.push('export:' + (sp.local.name || sp.local.value) + ':' + (sp.exported.name || sp.exported.value)); if (!node.source && sp.local.type === 'Identifier') ref(sp.local.name, scope, false); } return;
      case 'ExportDefaultDeclaration': imexp.push('export:default'); visit(node.declaration, scope); return;
      case 'ExportAllDeclaration': imexp.push('export:*'); return;
      case 'CallExpression': if (node.callee.type === 'Identifier' && node.callee.name === 'eval') { let f = funcScope(scope); if (f) f.hasEval = true; } break;
    }
    for (const k of Object.keys(node)) { if (k === 'type') continue; const v = node[k]; if (Array.isArray(v)) v.forEach((c) => visit(c, scope)); else if (v && typeof v.type === 'string') visit(v, scope); }
  }
  function declPatternRefs(p, scope) {
    if (!p) return;
    switch (p.type) {
      case 'Identifier': idents.add(p.name); scope.refs.push({ name: p.name, write: true }); break;
      case 'ObjectPattern': for (const pr of p.properties) { if (pr.type === 'RestElement') declPatternRefs(pr.argument, scope); else { if (pr.computed) visit(pr.key, scope); else notePropKey(pr.key); declPatternRefs(pr.value, scope); } } break;
      case 'ArrayPattern': p.elements.forEach((e) => declPatternRefs(e, scope)); break;
      case 'RestElement': declPatternRefs(p.argument, scope); break;
      case 'AssignmentPattern': declPatternRefs(p.left, scope); visit(p.right, scope); break;
      default: visit(p, scope);
    }
  }
  try { visit(ast, root); } catch (e) { return { error: 'analysis failed: ' + e.message }; }
  const free = new Map();
  const withIdents = new Set();
  function resolve(name, s) { for (; s; s = s.parent) if (s.decl.has(name)) return s; return null; }
  // names of the function (or top-level code) that itself contains the with statement; nested functions may rename their own locals
  function inWith(s) { const f = funcScope(s); return !!(f && f.hasWith); }
  for (const s of scopes) {
    for (const r of s.refs) {
      const d = resolve(r.name, s);
      if (!d) free.set(r.name, (free.get(r.name) || 0) + 1);
      if (inWith(s)) withIdents.add(r.name);
    }
    if (inWith(s)) for (const n of s.decl.keys()) withIdents.add(n);
  }
  const topLex = [], topVar = [];
  for (const [n, k] of root.decl) { if (k === 'let' || k === 'const' || k === 'class') topLex.push(n); else topVar.push(n); }
  let bindings = 0, maxScopeBindings = 0, maxDepth = 0;
  for (const s of scopes) { bindings += s.decl.size; maxScopeBindings = Math.max(maxScopeBindings, s.decl.size); let d = 0; for (let p = s; p; p = p.parent) d++; maxDepth = Math.max(maxDepth, d); }
  const imports = {};
  for (const st of ast.body) if (st.type === 'ImportDeclaration') { const l = imports[st.source.value] = imports[st.source.value] || []; for (const sp of st.specifiers) { const n = sp.type === 'ImportDefaultSpecifier' ? 'default' : sp.type === 'ImportNamespaceSpecifier' ? null : (sp.imported.name || sp.imported.value); if (n && l.indexOf(n) < 0) l.push(n); } } else if ((st.type === 'ExportNamedDeclaration' || st.type === 'ExportAllDeclaration') && st.source) { const l = imports[st.source.value] = imports[st.source.value] || []; if (st.specifiers) for (const sp of st.specifiers) { const n = sp.local.name || sp.local.value; if (l.indexOf(n) < 0) l.push(n); } }
  let defaultLocal = '';
  for (const st of ast.body) if (st.type === 'ExportDefaultDeclaration' && st.declaration && st.declaration.id && /Declaration$/.test(st.declaration.type)) defaultLocal = st.declaration.id.name;
  return {
    defaultLocal,
    free: Array.from(free.keys()).sort(), freeCounts: Object.fromEntries(free), topLexical: topLex.sort(), topVar: topVar.sort(),
    props: Array.from(new Set(props)).sort(), labels: Array.from(new Set(labels)).sort(), imexp: imexp.sort(), idents: Array.from(idents).sort(),
    withIdents: Array.from(withIdents).sort(), scopes: scopes.length, bindings, maxScopeBindings, maxDepth, imports,
    usesEval: scopes.some((s) => s.hasEval), usesWith: scopes.some((s) => s.hasWith)
  };
}

// numeric literal values in source order (for Precision alignment) and token kinds
function tokens(req) {
  const out = [];
  try {
    for (const t of acorn.tokenizer(req.src, { ecmaVersion: 'latest', sourceType: req.kind === 'module' ? 'module' : 'script', allowHashBang: true })) {
      if (t.type.label === 'num') out.push(['num', typeof t.value === 'bigint' ? 'b' + String(t.value) : String(t.value), req.src.slice(t.start, t.end)]);
      else if (t.type.label === 'name') out.push(['name', t.value]);
      else if (t.type.label === 'string') out.push(['string', t.value]);
      else if (t.type.label === 'regexp') out.push(['regexp', t.value.flags]);
    }
  } catch (e) { return { error: String(e.message), tokens: out }; }
  return { tokens: out };
}

// ------------------------------------------------------------------ main loop
let buf = '';
let queue = Promise.resolve();
process.stdin.setEncoding('utf8');
process.stdin.on('data', (chunk) => {
  buf += chunk;
  let i;
  while ((i = buf.indexOf('\n')) >= 0) {
    const line = buf.slice(0, i); buf = buf.slice(i + 1);
    if (!line.trim()) continue;
    queue = queue.then(() => handle(line));
  }
});
process.stdin.on('end', () => { queue.then(() => process.exit(0)); });
process.on('unhandledRejection', () => { });
process.on('uncaughtException', (e) => { /* errors escaping from timers of a finished case */ });

async function handle(line) {
  let req, rep;
  try { req = JSON.parse(line); } catch (e) { process.stdout.write(JSON.stringify({ error: 'bad request' }) + '\n'); return; }
  try {
    switch (req.op) {
      case 'ping': rep = { pong: true, node: process.version, acorn: acorn.version }; break;
      case 'exec': rep = await execProgram(req); break;
      case 'syntax': rep = syntax(req); break;
      case 'minver': rep = minver(req); break;
      case 'analyze': rep = analyze(req); break;
      case 'tokens': rep = tokens(req); break;
      default: rep = { error: 'unknown op' };
    }
  } catch (e) { rep = { error: 'worker exception: ' + (e && e.stack || e) }; }
  rep.id = req.id;
  process.stdout.write(JSON.stringify(rep) + '\n');
}
