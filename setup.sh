#!/bin/bash
# Offline setup: warm the Go build cache by building the harness once (every check rebuilds anyway).
set -e
cd "$(dirname "$0")"
export GOFLAGS=-mod=mod GOPROXY=off GOSUMDB=off GOTOOLCHAIN=local
mkdir -p .bin evidence
(cd harness && go build -tags verif -o ../.bin/vcheck ./cmd/vcheck)
(cd harness && go build -race -tags verif -o ../.bin/vcheck-race ./cmd/vcheck) || true
(cd /repo && go build -tags verif -o /verif/.bin/minify ./cmd/minify)
command -v node >/dev/null || { echo "node missing"; exit 1; }
echo setup ok
