// vcheck: one sub-command per property. Usage: vcheck Cxx   (env VERIF_TIER, VERIF_SEED)
package main

import (
	"fmt"
	"os"

	"verif/harness/checks"
	"verif/harness/core"
)

func main() {
	if len(os.Args) < 2 {
		fmt.Fprintln(os.Stderr, "usage: vcheck <Cxx|child ...>")
		os.Exit(2)
	}
	if fn, ok := checks.Children[os.Args[1]]; ok {
		fn(os.Args[2:])
		return
	}
	c, ok := checks.Registry[os.Args[1]]
	if !ok {
		fmt.Fprintln(os.Stderr, "unknown check", os.Args[1])
		os.Exit(2)
	}
	run := core.Start(os.Args[1], c.Level)
	c.Fn(run)
	fmt.Fprintln(os.Stderr, "check returned without Finish")
	os.Exit(2)
}
