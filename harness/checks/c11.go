package checks

// C11 — embedded resources are minified exactly as their own minifier would.
//
// Monitor: recording stub minifiers.  Host documents are generated with payload slots at known places; the
// registry holds, per media type, nothing / a recording stub with a unique, hostile output / a failing stub /
// the real minifier behind a recorder.  After the outer call the recorded call log (media type, params, input)
// is compared with the slots of the document, and the output is re-parsed (x/net/html, my XML tokenizer, my
// RFC 2397 decoder) to check that each slot holds exactly what its stub returned, re-escaped for the host.

import (
	"bytes"
	"errors"
	"fmt"
	"io"
	"regexp"
	"sort"
	"strings"
	"sync"

	"github.com/tdewolff/minify/v2"
	mcss "github.com/tdewolff/minify/v2/css"
	mhtml "github.com/tdewolff/minify/v2/html"
	msvg "github.com/tdewolff/minify/v2/svg"
	"github.com/tdewolff/parse/v2"
	"verif/harness/core"
)

type c11Call struct {
	Mediatype string
	Params    string
	Input     string
	Output    string
}

type c11Recorder struct {
	mu      sync.Mutex
	calls   []c11Call
	hostile int // 0 plain answers, 1 quotes/angle brackets, 2 also ampersands and text that looks like a reference
}

func paramString(p map[string]string) string {
	var ks []string
	for k, v := range p {
		ks = append(ks, k+"="+v)
	}
	sort.Strings(ks)
	return strings.Join(ks, ";")
}

var errC11Stub = errors.New("c11 stub failure")

// stub returns a minifier that records and answers with a unique hostile text.
func (rec *c11Recorder) stub(mt string, fail int) minify.MinifierFunc {
	return func(m *minify.M, w io.Writer, r io.Reader, params map[string]string) error {
		b, err := io.ReadAll(r)
		if err != nil {
			return err
		}
		rec.mu.Lock()
		n := len(rec.calls)
		var out string
		switch {
		case mt == "image/svg+xml":
			out = fmt.Sprintf("<svg data-stub=\"S%dz\"></svg>", n)
		case mt == "application/mathml+xml":
			out = fmt.Sprintf("<math data-stub=\"S%dz\"></math>", n)
		case rec.hostile == 0:
			out = fmt.Sprintf("S%dz plain answer %d", n, len(b))
		case params["inline"] != "" && rec.hostile == 1:
			out = fmt.Sprintf("S%dz \"q\" 'a' <i> a=b `t` %d", n, len(b))
		case params["inline"] != "":
			out = fmt.Sprintf("S%dz \"q\" 'a' &amp; & <i> a=b `t` %d", n, len(b))
		case rec.hostile == 1:
			out = fmt.Sprintf("S%dz{\"q\":'a'}<i>%d", n, len(b))
		default:
			out = fmt.Sprintf("S%dz{\"q\":'a&b'}&lt;<i>%d", n, len(b))
		}
		rec.calls = append(rec.calls, c11Call{Mediatype: mt, Params: paramString(params), Input: string(b), Output: out})
		rec.mu.Unlock()
		switch fail {
		case 1:
			return errC11Stub
		case 2:
			return &parse.Error{Message: "c11 stub parse failure", Line: 1, Column: 1}
		}
		_, err = w.Write([]byte(out))
		return err
	}
}

type c11Slot struct {
	Kind      string // script, style, iframe, svg, math, styleattr, onattr, datauri, svgstyle, svgstyleattr, cssdatauri
	Mediatype string
	Params    string
	Payload   string // what the registered minifier must receive
	Offset    int    // byte offset of the payload in the host
}

type c11Host struct {
	Lang  string // html | svg | css
	Doc   string
	Slots []c11Slot
}

var c11JS = []string{"var a = 1 ;", "f ( 'x' ) ;  g( \"y\" )", "if ( a < b && c > d ) { x ( ) }", "a = '</' + 'b>'", "x = 1\ny = 2"}
var c11CSS = []string{"a { color : red }", "p > b { margin : 0 0 0 0 }", ".c::after { content : \"x>y\" }", "a{}\nb{color:blue}"}
var c11Decl = []string{"color : red", "margin : 0px ; padding : 0px", "content : 'a b'", "font-family : \"My Font\"", "content : 'a   b'", "font-family : 'My \t Font'", "background : url('my  image.png')", "content : \"x \n y\""}
var c11Handler = []string{"f ( 'a   b' )", "g ( \"x \t y\" )", "go ( 1 )", "return f ( 'a' , \"b\" )", "a < b && g ( )", "x = 1 ; y = 2"}

func genC11HTML(r *core.Rand) c11Host {
	var sb strings.Builder
	var slots []c11Slot
	h := c11Host{Lang: "html"}
	sb.WriteString("<!doctype html>\n<html><head><title>t</title>")
	filler := func() {
		sb.WriteString(r.Pick([]string{"<p>text</p>", "\n", " <b>b</b> ", "<div class=\"c\">d</div>\n", "", "<ul><li>1<li>2</ul>", "<!-- c -->",
			// typed raw-text elements without content: their type must not leak into later elements
			"<script type=\"module\" src=\"m.js\"></script>", "<script type=\"application/ld+json\" src=\"d.json\"></script>", "<style type=\"text/x-custom\"></style>", "<script type=\"text/template\"></script>"}))
	}
	attrEnc := func(s string, q byte) string {
		s = strings.ReplaceAll(s, "&", "&amp;")
		if q == '"' {
			s = strings.ReplaceAll(s, "\"", "&quot;")
		} else {
			s = strings.ReplaceAll(s, "'", "&#39;")
		}
		return s
	}
	addRaw := func(kind, open, close, mt, params, payload string) {
		sb.WriteString(open)
		slots = append(slots, c11Slot{Kind: kind, Mediatype: mt, Params: params, Payload: payload, Offset: sb.Len()})
		sb.WriteString(payload)
		sb.WriteString(close)
	}
	n := r.Range(1, 5)
	inHead := true
	for i := 0; i < n; i++ {
		if inHead && r.Chance(1, 2) {
			sb.WriteString("</head><body>")
			inHead = false
		}
		filler()
		kinds := []string{"script", "script-typed", "style", "style-typed", "styleattr", "onattr", "iframe", "svg", "math", "datauri"}
		if inHead {
			kinds = []string{"script", "script-typed", "style", "style-typed"}
		}
		switch r.Pick(kinds) {
		case "script":
			addRaw("script", "<script>", "</script>", "application/javascript", "", r.Pick(c11JS))
		case "script-typed":
			typ := r.Pick([]string{"text/javascript", "application/javascript", "module", "application/ld+json", "application/json", "text/template", "text/x-custom", "text/javascript;charset=utf-8", "text/x-custom; a=b"})
			mt, params := typ, ""
			if i := strings.IndexByte(typ, ';'); i >= 0 {
				mt = typ[:i]
				params = strings.TrimSpace(typ[i+1:])
			}
			payload := r.Pick(c11JS)
			if strings.Contains(mt, "json") {
				payload = r.Pick([]string{"{ \"a\" : 1 }", "[ 1 , 2 ]", "{\"@context\": \"https://schema.org\"}"})
			}
			q := r.Pick([]string{"\"", "'"})
			addRaw("script", "<script type="+q+typ+q+">", "</script>", mt, params, payload)
		case "style":
			addRaw("style", "<style>", "</style>", "text/css", "", r.Pick(c11CSS))
		case "style-typed":
			typ := r.Pick([]string{"text/css", "text/x-custom", "text/less"})
			addRaw("style", "<style type=\""+typ+"\">", "</style>", typ, "", r.Pick(c11CSS))
		case "iframe":
			addRaw("iframe", "<iframe>", "</iframe>", "text/html", "", r.Pick([]string{"<p>inner  text</p>", "a  b", "<b>x</b> <i>y</i>"}))
		case "svg":
			payload := r.Pick([]string{"<svg><rect  width=\"10\"  height=\"10\"/></svg>", "<svg viewBox=\"0 0 1 1\"><path d=\"M 0 0 L 1 1\"/></svg>"})
			sb.WriteString("<p>")
			slots = append(slots, c11Slot{Kind: "svg", Mediatype: "image/svg+xml", Params: "inline=1", Payload: payload, Offset: sb.Len()})
			sb.WriteString(payload)
			sb.WriteString("</p>")
		case "math":
			payload := "<math><mi>x</mi>  <mo>+</mo>  <mn>1</mn></math>"
			sb.WriteString("<p>")
			slots = append(slots, c11Slot{Kind: "math", Mediatype: "application/mathml+xml", Params: "", Payload: payload, Offset: sb.Len()})
			sb.WriteString(payload)
			sb.WriteString("</p>")
		case "styleattr":
			payload := r.Pick(c11Decl)
			q := r.Char("\"'")
			pad := r.Pick([]string{"", " ", "\n"})
			sb.WriteString("<p style=" + string(q) + pad)
			slots = append(slots, c11Slot{Kind: "styleattr", Mediatype: "text/css", Params: "inline=1", Payload: payload, Offset: sb.Len()})
			sb.WriteString(attrEnc(payload, q) + pad + string(q) + ">s</p>")
		case "onattr":
			payload := r.Pick(c11Handler)
			q := r.Char("\"'")
			prefix := r.Pick([]string{"", "", "javascript:", "JavaScript:"})
			ev := r.Pick([]string{"onclick", "onload", "onmouseover"})
			sb.WriteString("<a " + ev + "=" + string(q) + prefix)
			slots = append(slots, c11Slot{Kind: "onattr", Mediatype: "application/javascript", Params: "inline=1", Payload: payload, Offset: sb.Len()})
			sb.WriteString(attrEnc(payload, q) + string(q) + ">l</a>")
		case "datauri":
			payload := r.Pick(c11CSS)
			mt := r.Pick([]string{"text/css", "text/x-custom"})
			enc := strings.NewReplacer("%", "%25", " ", "%20", "\"", "%22", "#", "%23", "<", "%3C", ">", "%3E", "{", "%7B", "}", "%7D", "\n", "%0A").Replace(payload)
			// media type parameters go to the minifier as its params
			par := r.Pick([]string{"", "", "charset=utf-8", "foo=bar"})
			uriType := mt
			if par != "" {
				uriType += ";" + par
			}
			sb.WriteString("<link rel=stylesheet href=\"data:" + uriType + ",")
			slots = append(slots, c11Slot{Kind: "datauri", Mediatype: mt, Params: par, Payload: payload, Offset: sb.Len()})
			sb.WriteString(enc + "\">")
		}
	}
	if inHead {
		sb.WriteString("</head><body>")
	}
	sb.WriteString("<p>end</p></body></html>")
	h.Doc, h.Slots = sb.String(), slots
	return h
}

func genC11SVG(r *core.Rand) c11Host {
	var sb strings.Builder
	var slots []c11Slot
	// the document default for style content: text/css unless the root declares contentStyleType
	docType := "text/css"
	sb.WriteString("<svg xmlns=\"http://www.w3.org/2000/svg\"")
	if r.Chance(1, 3) {
		docType = r.Pick([]string{"text/less", "text/x-custom", "text/css"})
		sb.WriteString(" contentStyleType=\"" + docType + "\"")
	}
	sb.WriteString(">")
	n := r.Range(1, 3)
	for i := 0; i < n; i++ {
		if r.Chance(1, 4) {
			// an empty style element with a type of its own (no payload, so no slot): its type must not leak into
			// the style elements that follow
			sb.WriteString("<style type=\"" + r.Pick([]string{"text/less", "text/x-custom", "text/css"}) + "\"" + r.Pick([]string{"/>", "></style>"}))
			if r.Chance(1, 2) {
				// character data right behind it is not style content
				sb.WriteString("t { u : v }")
			}
		}
		if r.Bool() {
			payload := r.Pick([]string{"a{fill:red}", "rect { stroke : blue }", ".c{opacity:.5}"})
			mt := docType
			open, close := "<style>", "</style>"
			if r.Chance(1, 3) {
				// the element's own type attribute wins over the document default
				mt = r.Pick([]string{"text/less", "text/css", "text/x-custom"})
				open = "<style type=\"" + mt + "\">"
			}
			if r.Chance(1, 3) {
				open, close = open+"<![CDATA[", "]]></style>"
			}
			sb.WriteString(open)
			slots = append(slots, c11Slot{Kind: "svgstyle", Mediatype: mt, Params: "", Payload: payload, Offset: sb.Len()})
			sb.WriteString(payload + close)
		} else {
			payload := r.Pick([]string{"fill : red", "stroke:blue;opacity:1", "fill:url(#a)"})
			sb.WriteString("<rect width=\"1\" style=\"")
			slots = append(slots, c11Slot{Kind: "svgstyleattr", Mediatype: docType, Params: "inline=1", Payload: payload, Offset: sb.Len()})
			sb.WriteString(payload + "\"/>")
		}
	}
	sb.WriteString("</svg>")
	return c11Host{Lang: "svg", Doc: sb.String(), Slots: slots}
}

func genC11CSS(r *core.Rand) c11Host {
	var sb strings.Builder
	var slots []c11Slot
	n := r.Range(1, 3)
	enc := strings.NewReplacer("%", "%25", " ", "%20", "\"", "%22", "#", "%23", "<", "%3C", ">", "%3E", "'", "%27", "(", "%28", ")", "%29")
	for i := 0; i < n; i++ {
		mt := r.Pick([]string{"image/svg+xml", "text/x-custom", "text/less"})
		payload := r.Pick([]string{"<svg xmlns=\"http://www.w3.org/2000/svg\"><rect  width=\"1\"  height=\"1\"/></svg>", "a { color : red }", "plain   text",
			// long payloads: the stub's answer is shorter, so the rewritten URI is used
			"f(x) and 'more'" + strings.Repeat(" ", 40), "<svg xmlns=\"http://www.w3.org/2000/svg\"><g transform=\"rotate(45)\">" + strings.Repeat("<rect  width=\"1\"/>", 6) + "</g></svg>"})
		q := r.Pick([]string{"", "\"", "'"})
		par := r.Pick([]string{"", "", "charset=utf-8", "foo=bar"})
		uriType := mt
		if par != "" {
			uriType += ";" + par
		}
		// a quoted URI may be broken over lines with backslash-newline, also right behind the opening and right in
		// front of the closing quote; the continuation is not part of the URI
		cont := func(k int) string {
			if q == "" {
				return ""
			}
			return []string{"", "", "\\\n", "\\\r\n", "\\\r"}[(k+r.Intn(5))%5]
		}
		fmt.Fprintf(&sb, ".c%d{background:url(%s%sdata:%s,", i, q, cont(0), uriType)
		slots = append(slots, c11Slot{Kind: "cssdatauri", Mediatype: mt, Params: par, Payload: payload, Offset: sb.Len()})
		ep := enc.Replace(payload)
		sb.WriteString(ep[:len(ep)/2] + cont(1) + ep[len(ep)/2:] + cont(2) + q + ")}\n")
	}
	return c11Host{Lang: "css", Doc: sb.String(), Slots: slots}
}

type c11Reg struct {
	mode     map[string]int // media type -> 0 absent, 1 stub, 2 failing (plain error), 3 failing (parse error)
	patterns bool           // register the stubs as exact-match patterns instead of literals (a registry may have no literal at all)
}

var c11Types = []string{"application/javascript", "text/javascript", "module", "application/ld+json", "application/json", "text/template", "text/x-custom", "text/css", "text/less", "image/svg+xml", "application/mathml+xml"}

func c11Judge(run *core.Run, h c11Host, reg c11Reg, hostile int) string {
	rec := &c11Recorder{hostile: hostile}
	m := minify.New()
	add := func(mt string, f minify.MinifierFunc) {
		if reg.patterns {
			m.AddFuncRegexp(regexp.MustCompile("^"+regexp.QuoteMeta(mt)+"$"), f)
		} else {
			m.AddFunc(mt, f)
		}
	}
	for _, mt := range c11Types {
		switch reg.mode[mt] {
		case 1:
			add(mt, rec.stub(mt, 0))
		case 2:
			add(mt, rec.stub(mt, 1))
		case 3:
			add(mt, rec.stub(mt, 2))
		}
	}
	hostType := map[string]string{"html": "text/html", "svg": "image/svg+xml", "css": "text/css"}[h.Lang]
	switch h.Lang {
	case "html":
		switch reg.mode["text/html"] {
		case -1:
			m.Add("text/html", &mhtml.Minifier{})
		case 1:
			add("text/html", rec.stub("text/html", 0))
		case 2:
			add("text/html", rec.stub("text/html", 1))
		case 3:
			add("text/html", rec.stub("text/html", 2))
		}
	case "svg":
		m.Add("image/svg+xml", &msvg.Minifier{})
	case "css":
		m.Add("text/css", &mcss.Minifier{})
		reg.mode["text/css"] = 0 // the host itself; slots of that type are not generated as stubs
	}
	var out bytes.Buffer
	var err error
	pan := ""
	func() {
		defer func() {
			if r := recover(); r != nil {
				pan = fmt.Sprint(r)
			}
		}()
		if h.Lang == "html" && reg.mode["text/html"] != -1 {
			// the registry's text/html entry is not the host: call the host minifier directly
			err = (&mhtml.Minifier{}).Minify(m, &out, strings.NewReader(h.Doc), nil)
			return
		}
		err = m.Minify(hostType, &out, strings.NewReader(h.Doc))
	}()
	if pan != "" {
		return "panic: " + pan
	}
	// expected calls: slots whose type has a registered minifier, up to and including the first failing one
	var expect []c11Slot
	failAt := -1
	for _, s := range h.Slots {
		mode := reg.mode[s.Mediatype]
		if s.Kind == "svg" && h.Lang == "svg" {
			continue
		}
		if mode <= 0 {
			continue
		}
		expect = append(expect, s)
		if mode >= 2 && s.Kind != "datauri" && s.Kind != "cssdatauri" {
			failAt = len(expect) - 1
			break
		}
	}
	calls := rec.calls
	for i := 0; i < len(expect) && i < len(calls); i++ {
		e, c := expect[i], calls[i]
		if c.Mediatype != e.Mediatype {
			return fmt.Sprintf("call %d went to the minifier for %q, expected %q (%s slot)", i, c.Mediatype, e.Mediatype, e.Kind)
		}
		if c.Params != e.Params {
			return fmt.Sprintf("call %d (%s slot) had params %q, expected %q", i, e.Kind, c.Params, e.Params)
		}
		if c.Input != e.Payload {
			return fmt.Sprintf("call %d (%s slot) received %q, the embedded content is %q", i, e.Kind, core.Trunc(c.Input, 80), core.Trunc(e.Payload, 80))
		}
	}
	if len(calls) != len(expect) {
		return fmt.Sprintf("%d calls to registered minifiers, expected %d (slots %v)", len(calls), len(expect), slotKinds(expect))
	}
	run.CountN("c11_calls_matched", int64(len(calls)))
	if failAt >= 0 {
		s := expect[failAt]
		if err == nil {
			return fmt.Sprintf("the minifier for the %s slot failed but the outer call returned no error", s.Kind)
		}
		run.Count("c11_failure_propagated")
		if reg.mode[s.Mediatype] == 2 {
			if !errors.Is(err, errC11Stub) {
				return fmt.Sprintf("outer error %q is not the embedded minifier's error", err)
			}
			return ""
		}
		pe, ok := err.(*parse.Error)
		if !ok {
			return fmt.Sprintf("outer error %T is not the embedded minifier's positioned error", err)
		}
		line, col := lineCol(h.Doc, s.Offset)
		if pe.Line == 1 && pe.Column == 1 && (line != 1 || col != 1) {
			// not the recorded mistranslation (open finding embedded-error-position) but no translation at all
			return fmt.Sprintf("embedded failure in the %s slot (line %d column %d of the host) is reported at the embedded minifier's own coordinates (line 1 column 1): not located inside the outer document", s.Kind, line, col)
		}
		if pe.Line != line || pe.Column != col {
			return fmt.Sprintf("POSITION: embedded failure at the start of the %s slot (line %d column %d of the host) is reported at line %d column %d", s.Kind, line, col, pe.Line, pe.Column)
		}
		run.Count("c11_failure_position_exact")
		return ""
	}
	if err != nil {
		return "REJECTED:" + err.Error()
	}
	// output slots
	got, perr := c11OutputSlots(h.Lang, out.String())
	if perr != "" {
		return "output cannot be re-parsed: " + perr
	}
	var want []string
	ci := 0
	for _, s := range h.Slots {
		if reg.mode[s.Mediatype] == 1 {
			want = append(want, s.Kind+":"+calls[ci].Output)
			ci++
		} else if reg.mode[s.Mediatype] >= 2 && (s.Kind == "datauri" || s.Kind == "cssdatauri") {
			ci++ // the failing minifier was called, DataURI falls back to the original
			want = append(want, s.Kind+":"+s.Payload)
		} else if s.Kind == "iframe" && reg.mode["text/html"] == -1 {
			// text/html is the host's own minifier: the slot must hold what it returns for the content alone
			mm := minify.New()
			mm.Add("text/html", &mhtml.Minifier{})
			o, _, _ := minifyBytes(mm, "text/html", []byte(s.Payload))
			want = append(want, s.Kind+":"+string(o))
		} else if s.Kind == "svg" || s.Kind == "math" {
			want = append(want, s.Kind+":PASSTHROUGH")
			if !strings.Contains(out.String(), s.Payload) {
				return fmt.Sprintf("no minifier is registered for %s but the embedded %s element was changed", s.Mediatype, s.Kind)
			}
		} else {
			want = append(want, s.Kind+":"+s.Payload)
		}
	}
	if len(got) != len(want) {
		return fmt.Sprintf("output has %d payload slots, input has %d: %q", len(got), len(want), got)
	}
	for i := range want {
		if k := h.Slots[i].Kind; (k == "datauri" || k == "cssdatauri") && got[i] == k+":"+h.Slots[i].Payload {
			continue // DataURI keeps the original when the re-encoded answer is not shorter (C18)
		}
		if got[i] != want[i] {
			k := "the registered minifier returned"
			if reg.mode[h.Slots[i].Mediatype] != 1 {
				k = "no minifier is registered for " + h.Slots[i].Mediatype + ", the embedded bytes are"
			}
			return fmt.Sprintf("slot %d holds %q; %s %q", i, core.Trunc(got[i], 100), k, core.Trunc(want[i], 100))
		}
	}
	run.CountN("c11_output_slots_matched", int64(len(want)))
	return ""
}

func slotKinds(s []c11Slot) []string {
	var k []string
	for _, x := range s {
		k = append(k, x.Kind+"/"+x.Mediatype)
	}
	return k
}

func lineCol(doc string, off int) (int, int) {
	line, col := 1, 1
	for _, r := range doc[:off] {
		if r == '\n' {
			line++
			col = 1
		} else {
			col++
		}
	}
	return line, col
}

// c11OutputSlots re-parses the output and lists the payload slots in document order as "kind:content".
func c11OutputSlots(lang, out string) ([]string, string) {
	var slots []string
	switch lang {
	case "html":
		evs, err := htmlEvents(out)
		if err != nil {
			return nil, err.Error()
		}
		depthSVG := 0
		for i := 0; i < len(evs); i++ {
			e := evs[i]
			switch e.Kind {
			case 'O':
				if depthSVG > 0 {
					if e.Name == "svg:svg" || e.Name == "math:math" {
						depthSVG++
					}
					continue
				}
				for _, a := range e.Attrs {
					switch {
					case a.Key == "style":
						slots = append(slots, "styleattr:"+a.Val)
					case strings.HasPrefix(a.Key, "on"):
						slots = append(slots, "onattr:"+a.Val)
					case a.Key == "href" && strings.HasPrefix(a.Val, "data:"):
						p, ok := rfc2397Decode([]byte(a.Val))
						if !ok || !p.validEnc {
							return nil, "data URI in the output does not decode: " + a.Val
						}
						slots = append(slots, "datauri:"+string(p.payload))
					}
				}
				switch e.Name {
				case "script", "style", "iframe":
					txt := ""
					if i+1 < len(evs) && evs[i+1].Kind == 'T' {
						txt = evs[i+1].Data
					}
					if txt != "" { // content-less elements are filler, not slots
						slots = append(slots, e.Name+":"+txt)
					}
				case "svg:svg", "math:math":
					depthSVG = 1
					name := e.Name[strings.IndexByte(e.Name, ':')+1:]
					stub := "PASSTHROUGH"
					for _, a := range e.Attrs {
						if a.Key == "data-stub" {
							stub = fmt.Sprintf("<%s data-stub=\"%s\"></%s>", name, a.Val, name)
						}
					}
					slots = append(slots, name+":"+stub)
				}
			case 'C':
				if depthSVG > 0 && (e.Name == "svg:svg" || e.Name == "math:math") {
					depthSVG--
				}
			}
		}
	case "css":
		// read the URLs back with the independent CSS tokenizer (an unquoted URL may not contain quotes,
		// parentheses or white space)
		toks, lerr := cssTokens(out)
		if lerr != "" {
			return nil, "css output does not tokenize: " + lerr
		}
		for _, t := range nestFunctions(toks) {
			u := ""
			switch {
			case t.K == 'u':
				u = t.S
			case t.K == 'f' && strings.EqualFold(t.S, "url"):
				for _, a := range t.Args {
					if a.K == 's' {
						u = a.S
					}
				}
			default:
				continue
			}
			p, ok := rfc2397Decode([]byte(u))
			if !ok || !p.validEnc {
				return nil, "data URI in the output does not decode: " + u
			}
			slots = append(slots, "cssdatauri:"+string(p.payload))
		}
	case "svg":
		evs, err := xmlTokenize(out)
		if err != nil {
			return nil, err.Error()
		}
		for i, e := range evs {
			if e.Kind != 'S' {
				continue
			}
			if e.Name == "style" {
				txt := ""
				for j := i + 1; j < len(evs) && evs[j].Kind != 'E'; j++ {
					if evs[j].Kind == 'T' {
						t, _ := xmlExpand(evs[j].Data, nil, false)
						txt += t
					} else if evs[j].Kind == 'C' {
						txt += evs[j].Data
					}
				}
				if txt != "" { // an empty style element carries no payload (the generator writes such elements with a type of their own)
					slots = append(slots, "svgstyle:"+txt)
				}
			}
			for _, a := range e.Attrs {
				if a.Name == "style" {
					v, _ := xmlExpand(a.Raw, nil, true)
					slots = append(slots, "svgstyleattr:"+v)
				}
			}
		}
	}
	return slots, ""
}

// c11Nested: two levels of embedding with the real minifiers in between.  An HTML document holds an inline SVG
// (real html and svg minifiers) whose style element and style attributes go to a recording CSS stub; a style sheet
// holds a data URI with an SVG whose style goes to a recording stub for a custom type.  The call log decides: media
// type, params (a style *element* never inherits inline=1 from the way its host was embedded) and exact content.
func c11Nested(run *core.Run) {
	n := run.N(300, 6000)
	core.ParallelFor(n, 0, func(i int) {
		r := run.CaseRand("c11nested", i, n/2)
		rec := &c11Recorder{hostile: 0}
		m := minify.New()
		m.Add("text/html", &mhtml.Minifier{})
		m.Add("image/svg+xml", &msvg.Minifier{})
		m.AddFunc("text/css", rec.stub("text/css", 0))
		var want []c11Call
		var sb strings.Builder
		sb.WriteString("<!doctype html><title>t</title><p>x</p>")
		for k := r.Range(1, 2); k > 0; k-- {
			sb.WriteString("<svg" + r.Pick([]string{"", " width=\"10\"", " xmlns=\"http://www.w3.org/2000/svg\""}) + ">")
			for j := r.Range(1, 3); j > 0; j-- {
				if r.Bool() {
					pl := r.Pick([]string{"a{fill:red}", "rect { stroke : blue }", ".c{opacity:.5}"})
					sb.WriteString("<style>" + pl + "</style>")
					want = append(want, c11Call{Mediatype: "text/css", Params: "", Input: pl})
				} else {
					pl := r.Pick([]string{"fill : red", "stroke:blue;opacity:1"})
					sb.WriteString("<rect width=\"1\" style=\"" + pl + "\"/>")
					want = append(want, c11Call{Mediatype: "text/css", Params: "inline=1", Input: pl})
				}
			}
			sb.WriteString("</svg>")
		}
		if r.Bool() {
			pl := r.Pick(c11Decl[:3])
			sb.WriteString("<p style=\"" + pl + "\">y</p>")
			want = append(want, c11Call{Mediatype: "text/css", Params: "inline=1", Input: pl})
		}
		doc := sb.String()
		run.Eval()
		_, err, pan := minifyBytes(m, "text/html", []byte(doc))
		cfg := "c11 nested html>svg>css"
		bad := ""
		switch {
		case pan != "":
			bad = "panic: " + pan
		case err != nil:
			bad = "error: " + err.Error()
		case len(rec.calls) != len(want):
			bad = fmt.Sprintf("%d calls to the css minifier, expected %d", len(rec.calls), len(want))
		default:
			for k := range want {
				c := rec.calls[k]
				if c.Mediatype != want[k].Mediatype || c.Params != want[k].Params || c.Input != want[k].Input {
					bad = fmt.Sprintf("call %d was (%s; params %q; %q), expected (%s; params %q; %q)", k, c.Mediatype, c.Params, core.Trunc(c.Input, 60), want[k].Mediatype, want[k].Params, want[k].Input)
					break
				}
			}
		}
		if bad != "" {
			run.Violation(core.Key(cfg, []byte(doc)), cfg+": "+bad+" | in="+core.Trunc(doc, 400), map[string]interface{}{"config": cfg, "input": doc})
			return
		}
		run.Count("c11_nested_cases")
		run.CountN("c11_calls_matched", int64(len(want)))
		run.NonTrivial([]byte(cfg), []byte(doc))
	})
}

// c11Real: the stock minifiers registered the way the command line tool registers them (shared option structs,
// m.Add) and embedded in each other.  Every embedded piece must come out as the stand-alone call of its own minifier
// on a fresh registry returns it - whatever was minified before on the same registry (a style attribute before a
// style element, one document before the next) - and a payload whose minifier fails must come back untouched.
func c11Real(run *core.Run) {
	fresh := func(mt string, in string, params map[string]string) string {
		m := newM(nil)
		var out bytes.Buffer
		if err := m.MinifyMimetype([]byte(mt), &out, strings.NewReader(in), params); err != nil {
			return in
		}
		return out.String()
	}
	n := run.N(200, 4000)
	reg := newM(nil) // one registry for the whole sequence: state that sticks shows in later documents
	var mu sync.Mutex
	for i := 0; i < n; i++ {
		r := run.CaseRand("c11real", i, n/2)
		var sb strings.Builder
		var want []string
		sb.WriteString("<!doctype html><title>t</title>")
		for k := r.Range(2, 5); k > 0; k-- {
			switch r.Intn(5) {
			case 0:
				d := r.Pick([]string{"color : #ff0000 ; margin : 0px 0px", "width : calc( 1px + 2px )", "background : url( 'a.png' ) no-repeat"})
				sb.WriteString("<p style=\"" + d + "\">a</p>")
				want = append(want, "styleattr:"+fresh("text/css", d, map[string]string{"inline": "1"}))
			case 1:
				c := r.Pick([]string{"a { color : #ff0000 } b { margin : 0px 0px }", "p > b { width : calc( 1px + 2px ) }", "@media screen { .x { top : 0.50em } }"})
				sb.WriteString("<style>" + c + "</style>")
				want = append(want, "style:"+fresh("text/css", c, nil))
			case 2:
				j := r.Pick([]string{"var x = 1 + 2 ; if ( x ) { y( x ) }", "function f ( a ) { return a * 2 }"})
				sb.WriteString("<script>" + j + "</script>")
				want = append(want, "script:"+fresh("application/javascript", j, nil))
			case 3:
				// a data URI whose minifier fails after it has shortened an earlier part of the payload
				pl := r.Pick([]string{"{\"size\":1000000, // bytes\n\"b\":2}", "{\"n\":10000000,\"x\":undefined}", "[1000000,NaN]"})
				enc := strings.NewReplacer("%", "%25", " ", "%20", "\"", "%22", "\n", "%0A", "#", "%23").Replace(pl)
				sb.WriteString("<a href=\"data:application/json," + enc + "\">d</a>")
				want = append(want, "datauri:"+pl)
			default:
				pl := r.Pick([]string{"{ \"a\" : 1.0 , \"b\" : [ 1 , 2 ] }", "[ 100000 , 2 ]"})
				enc := strings.NewReplacer("%", "%25", " ", "%20", "\"", "%22").Replace(pl)
				sb.WriteString("<a href=\"data:application/json," + enc + "\">d</a>")
				want = append(want, "datauri:"+fresh("application/json", pl, nil))
			}
		}
		doc := sb.String()
		run.Eval()
		mu.Lock()
		out, err, pan := minifyBytes(reg, "text/html", []byte(doc))
		mu.Unlock()
		cfg := "c11 real html>css/js/json on one shared registry"
		bad := ""
		if pan != "" {
			bad = "panic: " + pan
		} else if err != nil {
			bad = "error: " + err.Error()
		} else if got, perr := c11OutputSlots("html", string(out)); perr != "" {
			bad = "output cannot be re-parsed: " + perr
		} else if len(got) != len(want) {
			bad = fmt.Sprintf("output has %d payload slots, input has %d: %q", len(got), len(want), got)
		} else {
			for k := range want {
				if got[k] != want[k] {
					bad = fmt.Sprintf("slot %d holds %q; the minifier on its own gives %q", k, core.Trunc(got[k], 100), core.Trunc(want[k], 100))
					break
				}
			}
		}
		if bad != "" {
			run.Violation(core.Key(cfg, []byte(doc)), cfg+" (document "+fmt.Sprint(i)+" of the sequence): "+bad+" | in="+core.Trunc(doc, 400), map[string]interface{}{"config": cfg, "input": doc})
			if i > 20 {
				return // state that sticks makes every later document fail the same way
			}
			continue
		}
		run.Count("c11_real_documents")
		run.NonTrivial([]byte(cfg), []byte(doc))
	}
}

func C11(run *core.Run) {
	run.ReplayWitnesses(func(f core.Finding, w core.Witness) (bool, string) {
		// recorded witnesses are stylesheets with data URIs: the URL must come back out of the output
		out, err, _ := minifyBytes(newM(&Opts{}), "text/css", []byte(w.Input))
		if err != nil {
			return false, ""
		}
		slots, perr := c11OutputSlots("css", string(out))
		if perr != "" || len(slots) == 0 || (w.Extra["payload"] != "" && slots[0] != "cssdatauri:"+w.Extra["payload"]) {
			return true, fmt.Sprintf("output %q: %s %q", out, perr, slots)
		}
		return false, ""
	})
	c11Nested(run)
	c11Real(run)
	n := run.N(6000, 200000)
	core.ParallelFor(n, 0, func(i int) {
		r := run.CaseRand("c11", i, n/2)
		var h c11Host
		if i%5 == 4 {
			h = genC11SVG(r)
		} else if i%5 == 3 && i%2 == 0 {
			h = genC11CSS(r)
		} else {
			h = genC11HTML(r)
		}
		reg := c11Reg{mode: map[string]int{}}
		for _, mt := range c11Types {
			switch r.Intn(10) {
			case 0, 1, 2:
				reg.mode[mt] = 0
			case 3:
				if r.Chance(1, 2) {
					reg.mode[mt] = 2 + r.Intn(2)
				} else {
					reg.mode[mt] = 1
				}
			default:
				reg.mode[mt] = 1
			}
		}
		// the registry's text/html entry (what iframe content must go through): the host itself in two thirds of
		// the cases (mode -1), otherwise absent (0), a stub (1) or a failing stub (2, 3) while the host minifier is
		// called directly
		reg.mode["text/html"] = -1
		if h.Lang == "html" && i%3 == 2 {
			reg.mode["text/html"] = []int{0, 1, 1, 2, 3, 0}[r.Intn(6)]
			reg.patterns = i%2 == 0 // the host is called directly: the registry may consist of patterns only
		}
		if i%4 == 0 { // a quarter of the cases without failing minifiers at all
			for k, v := range reg.mode {
				if v >= 2 {
					reg.mode[k] = 1
				}
			}
		}
		if i < 3 {
			run.Sample(map[string]interface{}{"host": h.Doc, "slots": slotKinds(h.Slots), "registry": reg.mode})
		}
		run.Eval()
		hostile := r.Intn(3)
		v := c11Judge(run, h, reg, hostile)
		cfg := fmt.Sprintf("c11 %s answers=%d registry=%v", h.Lang, hostile, regString(reg))
		run.Count(fmt.Sprintf("answers_hostility_%d", hostile))
		switch {
		case v == "":
			run.NonTrivial([]byte(cfg), []byte(h.Doc))
			for _, s := range h.Slots {
				run.Count("slot:" + s.Kind)
			}
		case strings.HasPrefix(v, "REJECTED:"):
			run.Count("host_rejected")
		case strings.HasPrefix(v, "POSITION:"):
			run.Count("position_mismatch_host:" + h.Lang)
			if run.KnownSignature("embedded-error-position") {
				return
			}
			run.Violation(core.Key(cfg, []byte(h.Doc)), cfg+": "+v+" | in="+core.Trunc(h.Doc, 400), map[string]interface{}{"config": cfg, "input": h.Doc})
		default:
			if h.Lang == "svg" && hostile > 0 && (strings.HasPrefix(v, "output cannot be re-parsed") || strings.HasPrefix(v, "slot ")) && run.KnownSignature("svg-embedded-output-not-escaped") {
				return
			}
			if h.Lang == "html" && hostile == 2 && strings.HasPrefix(v, "slot ") && strings.Contains(v, "attr:") && run.KnownSignature("html-attr-embedded-ampersand-not-escaped") {
				return
			}
			run.Violation(core.Key(cfg, []byte(h.Doc)), cfg+": "+v+" | in="+core.Trunc(h.Doc, 400), map[string]interface{}{"config": cfg, "input": h.Doc})
		}
	})
	run.Finish("recorded calls of the registered (stub) minifiers == the payload slots of the host in document order (media type from type attribute or documented default, params, exact embedded bytes after host decoding); every slot of the re-parsed output == the stub's unique hostile answer, or the untouched payload when nothing is registered; a failing stub makes the outer call fail with that error, positioned at the slot",
		[]string{"x/net/html, my XML tokenizer and my RFC 2397 decoder read the slots back from the output", "slots are generated at known offsets; payloads contain no host terminators", "data: URIs cannot report failures (DataURI has no error result): failure propagation is not demanded of them; their encoding is C18's subject"}, 1000, false)
}

func regString(reg c11Reg) string {
	var ks []string
	for k, v := range reg.mode {
		if v != 0 {
			ks = append(ks, fmt.Sprintf("%s:%d", k, v))
		}
	}
	sort.Strings(ks)
	return strings.Join(ks, ",")
}
