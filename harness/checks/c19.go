package checks

// C19 — the CLI writes the library's output to the right place and never harms inputs.
//
// Monitor: the built command is run in scratch directories on generated trees with generated invocations;
// the directory before/after, the exit status and standard output are compared with the reference model
// (climodel.go), which derives the expected result from the documented rules and from library calls.

import (
	"bytes"
	"fmt"
	"os"
	"os/exec"
	"path/filepath"
	"sort"
	"strings"
	"syscall"
	"time"

	"verif/harness/core"
)

type c19Case struct {
	Name  string
	Files []treeFile
	Inv   cliInv
}

var c19Invalid = map[string]string{
	"html": "<!doctype html>\n<title> t </title>\n<p>  some   text &amp; more </p>\n<script> var = ; ( </script>\n<p> after </p>\n",
	"htm":  "<p> a   b </p><script>function ( {</script>",
	"js":   "function ( { ;;; ) ) \n var = 3",
	"mjs":  "export default ( ;",
	"json": "{ \"a\" : , }",
}

func genTree(r *core.Rand) []treeFile {
	dirs := []string{"", "", "src/", "src/", "src/sub/", "src/sub/deep/", "lib/"}
	if r.Chance(1, 3) {
		dirs = append(dirs, "src/.hid/")
	}
	exts := []string{"js", "css", "html", "json", "svg", "xml", "js", "css", "html", "htm", "mjs", "webmanifest", "tmpl", "txt", "bin", "md", "tpl", "JS", "Css", "HTML"}
	bases := []string{"app", "app", "main", "index", "data", "x", "lib.min", "a b", "ünï"}
	seen := map[string]bool{}
	var files []treeFile
	n := r.Range(1, 9)
	for i := 0; i < n; i++ {
		dir := dirs[r.Intn(len(dirs))]
		ext := exts[r.Intn(len(exts))]
		base := bases[r.Intn(len(bases))]
		if r.Chance(1, 10) {
			base = "." + base
		}
		p := dir + base + "." + ext
		if r.Chance(1, 25) {
			p = dir + base // no extension at all
		}
		if seen[p] {
			continue
		}
		seen[p] = true
		files = append(files, treeFile{Path: p, Data: genContent(r, ext), Mode: []os.FileMode{0644, 0644, 0600, 0755}[r.Intn(4)]})
	}
	if r.Chance(1, 4) && len(files) > 0 {
		t := files[r.Intn(len(files))]
		dir := filepath.Dir(t.Path)
		link := "ln" + filepath.Ext(t.Path)
		p := link
		if dir != "." {
			p = dir + "/" + link
		}
		if !seen[p] {
			seen[p] = true
			files = append(files, treeFile{Path: p, Symlink: filepath.Base(t.Path)})
		}
	}
	if r.Chance(1, 10) {
		files = append(files, treeFile{Path: "src/emptydir/"})
	}
	if r.Chance(1, 5) {
		// an output tree left by an earlier run: same names, longer stale content
		for _, f := range append([]treeFile{}, files...) {
			if f.Symlink == "" && f.Link == "" && strings.HasPrefix(f.Path, "src/") && !strings.HasSuffix(f.Path, "/") && r.Bool() {
				p := "out/" + strings.TrimPrefix(f.Path, "src/")
				if !seen[p] {
					seen[p] = true
					files = append(files, treeFile{Path: p, Data: strings.Repeat("stale line of an earlier run\n", 60), Mode: 0644})
				}
			}
		}
	}
	return files
}

func genContent(r *core.Rand, ext string) string {
	kind := strings.ToLower(ext) // the content of X.JS is JavaScript whatever the tool makes of the name
	switch ext {
	case "htm", "tmpl":
		kind = "html"
	case "mjs":
		kind = "js"
	case "webmanifest":
		kind = "json"
	}
	if _, ok := cliSample[kind]; !ok {
		return r.Pick([]string{"plain text\n", "", "\x00\x01\x02 binary", "a { not : css }  <p> nor html", strings.Repeat("line of text\n", 400)})
	}
	switch r.Intn(10) {
	case 0:
		return ""
	case 1:
		if bad, ok := c19Invalid[ext]; ok {
			return bad
		}
		return cliSample[kind]
	case 2:
		return sampleSized(kind, r.Range(2000, 90000))
	case 3:
		return sampleSized(kind, r.Range(100, 900))
	case 4:
		if kind == "html" {
			// text that looks like template syntax: in a plain .html file it is ordinary text, in a template type the
			// delimiters are kept verbatim
			return "<!doctype html>\n<title> {{  .Title  }} </title>\n<p class=\"{{ .Class }}\"> hello   {{  user.name   }}  <b> {{if  .X}} x {{end}} </b> </p>\n<?php  echo   1 ; ?>\n<p> <%=  name   %> </p>\n"
		}
	}
	return cliSample[kind]
}

func regularFiles(files []treeFile, pred func(treeFile) bool) []string {
	var out []string
	for _, f := range files {
		if strings.HasSuffix(f.Path, "/") || f.Symlink != "" {
			continue
		}
		if pred == nil || pred(f) {
			out = append(out, f.Path)
		}
	}
	return out
}

func knownExtFile(f treeFile) bool {
	_, ok := cliExtMap[strings.TrimPrefix(filepath.Ext(f.Path), ".")]
	return ok
}

func genInvocation(r *core.Rand, files []treeFile) cliInv {
	var v cliInv
	known := regularFiles(files, knownExtFile)
	all := regularFiles(files, nil)
	pickFile := func(pool []string) string {
		if len(pool) == 0 {
			return "missing.js"
		}
		return pool[r.Intn(len(pool))]
	}
	dirsIn := []string{"src", "src/", ".", "./", "lib/", "src/sub", "src/sub/"}
	shape := r.Intn(20)
	switch shape {
	case 0: // single file -> file
		v.Inputs = []string{pickFile(known)}
		v.Output = r.Pick([]string{"out.min", "out/o.min", "new/deep/dir/o"})
	case 1: // single file -> directory
		v.Inputs = []string{pickFile(known)}
		v.Output = r.Pick([]string{"out/", "out/nested/", "./out/"})
	case 2: // single file -> stdout
		v.Inputs = []string{pickFile(known)}
	case 3: // in place
		f := pickFile(known)
		v.Inputs = []string{f}
		v.Output = f
		if r.Chance(1, 4) {
			v.Output = "./" + f
		}
		for _, tf := range files {
			if tf.Symlink != "" && r.Chance(1, 2) {
				target := filepath.Join(filepath.Dir(tf.Path), tf.Symlink)
				if r.Bool() {
					v.Inputs, v.Output = []string{target}, tf.Path
				} else {
					v.Inputs, v.Output = []string{tf.Path}, target
				}
			}
		}
	case 4, 5: // many files -> directory
		n := r.Range(2, 4)
		seen := map[string]bool{}
		for i := 0; i < n; i++ {
			f := pickFile(known)
			if !seen[f] {
				seen[f] = true
				v.Inputs = append(v.Inputs, f)
			}
		}
		v.Output = r.Pick([]string{"out", "out/", ".", "dist/x"})
	case 6, 7: // directory mirror
		v.Inputs = []string{r.Pick(dirsIn)}
		v.Recursive = true
		v.Output = r.Pick([]string{"out/", "out", "mirror/of/"})
	case 8: // directory in place
		d := r.Pick([]string{"src/", ".", "./", "src/sub/"})
		v.Inputs = []string{d}
		v.Output = d
		v.Recursive = true
	case 9: // directory without -r
		v.Inputs = []string{r.Pick(dirsIn)}
		v.Output = "out/"
	case 10: // stdin
		ext := r.Pick([]string{"js", "css", "html", "json", "svg", "xml"})
		s := genContent(r, ext)
		v.Stdin = &s
		v.Type = r.Pick([]string{ext, cliExtMap[ext]})
		if r.Chance(1, 2) {
			v.Output = "out." + ext
		}
	case 11, 12: // bundle
		ext := r.Pick([]string{"js", "css"})
		var pool []string
		for _, f := range known {
			if strings.HasSuffix(f, "."+ext) {
				pool = append(pool, f)
			}
		}
		for len(pool) < 2 {
			pool = append(pool, pickFile(known))
		}
		n := r.Range(2, 3)
		dup := map[string]bool{}
		for i := 0; i < n; i++ {
			f := pool[r.Intn(len(pool))]
			if !dup[f] { // the same file twice in one bundle onto itself has no defined meaning
				dup[f] = true
				v.Inputs = append(v.Inputs, f)
			}
		}
		v.Bundle = true
		if r.Chance(1, 4) {
			v.Type = ext
		}
		switch r.Intn(4) {
		case 0:
		case 1:
			v.Output = v.Inputs[r.Intn(len(v.Inputs))] // onto one of its inputs
		default:
			v.Output = "bundle." + ext
		}
		if r.Chance(1, 4) {
			v.Inputs = []string{"src/"}
			v.Recursive = true
			v.Match = []string{"*." + ext}
			v.Output = "bundle." + ext
		}
	case 13, 14: // sync
		v.Inputs = []string{r.Pick([]string{"src/", "src", ".", "src/sub/"})}
		v.Recursive = true
		v.Sync = true
		v.Output = r.Pick([]string{"out/", "synced/tree/", "src/"})
		if v.Inputs[0] == "." {
			v.Output = "./"
		}
	case 15: // type override over a directory
		v.Inputs = []string{r.Pick([]string{"src/", "lib/"})}
		v.Recursive = true
		v.Type = r.Pick([]string{"js", "css", "text/html", "application/json"})
		v.Output = "out/"
	case 16: // filters
		v.Inputs = []string{r.Pick([]string{"src/", ".", "src"})}
		v.Recursive = true
		v.Output = "out/"
		switch r.Intn(5) {
		case 0:
			v.Match = []string{r.Pick([]string{"*.js", "*.css", "app.*", "~^a", "*.min.*"})}
		case 1:
			v.Filters = []string{"-" + r.Pick([]string{"**/sub/**", "src/sub/*", "**.css", "*", "~deep"})}
		case 2:
			v.Filters = []string{"-**", "+" + r.Pick([]string{"**.js", "src/app.*", "**/deep/**"})}
		case 3:
			v.Match = []string{"*.js", "*.html"}
			v.Filters = []string{"-**/app.*"}
		default:
			v.Filters = [][]string{{"-**.js", "+**/main.js", "-**/deep/**"}, {"+**.js", "-**/sub/**"}, {"-**", "+**/app.*", "-**.css"}, {"+**/sub/**", "-**.json", "-**.js"}}[r.Intn(4)]
		}
	case 17: // unknown extension named explicitly / missing input
		if r.Chance(1, 2) {
			v.Inputs = []string{pickFile(all), pickFile(known)}
		} else {
			v.Inputs = []string{"does/not/exist.js"}
		}
		v.Output = "out/"
	case 18: // invalid combinations
		switch r.Intn(4) {
		case 0:
			v.Inputs = []string{pickFile(known), pickFile(known)} // many files to stdout without --bundle
		case 1:
			v.Inputs = []string{"src/"}
			v.Recursive = true // recursive to stdout
		case 2:
			s := "a{}"
			v.Stdin = &s // stdin without type
		default:
			v.Inputs = []string{"src/"}
			v.Sync, v.Recursive, v.Type, v.Output = true, true, "js", "out/"
		}
	default: // many files in place within one directory
		dir := r.Pick([]string{"src/", "src/sub/"})
		for _, f := range known {
			if filepath.Dir(f)+"/" == dir {
				v.Inputs = append(v.Inputs, f)
			}
		}
		if len(v.Inputs) == 0 {
			v.Inputs = []string{pickFile(known)}
			dir = filepath.Dir(v.Inputs[0]) + "/"
		}
		v.Output = dir
	}
	if r.Chance(1, 8) && v.Type == "" {
		// extension mapping: a short type name or a media type, for an unknown and for a known extension
		v.Ext = map[string]string{r.Pick([]string{"txt", "md", "bin", "tpl", "js", "htm"}): r.Pick([]string{"html", "js", "css", "text/html", "application/json", "text/css"})}
	}
	if r.Chance(1, 5) {
		v.All = true
	}
	if r.Chance(1, 4) {
		v.Quiet = true
	}
	if r.Chance(1, 8) {
		v.Verbose = r.Range(1, 3)
	}
	if v.Output != "" && v.Stdin == nil && r.Chance(1, 4) {
		p := r.Pick([]string{"mode", "timestamps", "all", "links", "mode,timestamps", "ownership"})
		v.Preserve = &p
	}
	if r.Chance(1, 5) {
		v.Flags = append(v.Flags, r.Pick([]string{"--js-keep-var-names", "--html-keep-comments", "--html-keep-whitespace", "--css-precision=3", "--svg-precision=2", "--json-keep-numbers", "--html-keep-document-tags", "--html-keep-end-tags", "--html-keep-quotes", "--xml-keep-whitespace", "--js-version=2015"}))
	}
	return v
}

func c19Fixed() []c19Case {
	js, css, html := cliSample["js"], cliSample["css"], cliSample["html"]
	tree := []treeFile{
		{Path: "src/app.js", Data: js}, {Path: "src/app.css", Data: css}, {Path: "src/app.html", Data: html},
		{Path: "src/sub/bad.js", Data: c19Invalid["js"]}, {Path: "src/sub/data.json", Data: cliSample["json"]},
		{Path: "src/sub/readme.txt", Data: "read me"}, {Path: "src/.hidden.js", Data: js}, {Path: "src/.hid/x.css", Data: css},
		{Path: "src/sub/pic.svg", Data: cliSample["svg"]}, {Path: "src/sub/feed.xml", Data: cliSample["xml"]},
		{Path: "src/link.js", Symlink: "app.js"},
	}
	str := func(s string) *string { return &s }
	var cs []c19Case
	add := func(name string, v cliInv) { cs = append(cs, c19Case{Name: name, Files: tree, Inv: v}) }
	add("file-to-file", cliInv{Inputs: []string{"src/app.js"}, Output: "out/app.min.js"})
	add("file-to-dir", cliInv{Inputs: []string{"src/app.js"}, Output: "out/"})
	add("file-to-stdout", cliInv{Inputs: []string{"src/app.css"}})
	add("file-in-place", cliInv{Inputs: []string{"src/app.html"}, Output: "src/app.html"})
	add("files-to-dir", cliInv{Inputs: []string{"src/app.js", "src/app.css", "src/sub/data.json"}, Output: "out"})
	add("files-in-place-with-failure", cliInv{Inputs: []string{"src/sub/bad.js", "src/sub/data.json", "src/sub/pic.svg"}, Output: "src/sub/"})
	add("dir-no-slash", cliInv{Inputs: []string{"src"}, Recursive: true, Output: "out/"})
	add("dir-slash", cliInv{Inputs: []string{"src/"}, Recursive: true, Output: "out/"})
	add("dir-in-place", cliInv{Inputs: []string{"src/"}, Recursive: true, Output: "src/"})
	add("dir-in-place-all", cliInv{Inputs: []string{"src/"}, Recursive: true, All: true, Output: "src/"})
	add("dot-in-place", cliInv{Inputs: []string{"."}, Recursive: true, Output: "."})
	add("dir-without-recursive", cliInv{Inputs: []string{"src/"}, Output: "out/"})
	add("stdin-to-stdout", cliInv{Stdin: str(css), Type: "css"})
	add("stdin-to-file", cliInv{Stdin: str(js), Type: "application/javascript", Output: "o.js"})
	add("stdin-dash", cliInv{Inputs: []string{"-"}, Stdin: str(html), Type: "html"})
	add("bundle-to-file", cliInv{Inputs: []string{"src/app.js", "src/.hidden.js"}, Bundle: true, Output: "b.js"})
	add("bundle-to-stdout", cliInv{Inputs: []string{"src/app.css", "src/.hid/x.css"}, Bundle: true})
	add("bundle-onto-input", cliInv{Inputs: []string{"src/app.js", "src/.hidden.js"}, Bundle: true, Output: "src/.hidden.js"})
	add("bundle-with-failure", cliInv{Inputs: []string{"src/app.js", "src/sub/bad.js"}, Bundle: true, Output: "b.js"})
	add("bundle-mixed-types", cliInv{Inputs: []string{"src/app.js", "src/app.css"}, Bundle: true, Output: "b.js"})
	add("bundle-dir", cliInv{Inputs: []string{"src/"}, Recursive: true, Bundle: true, Match: []string{"*.css"}, All: true, Output: "all.css"})
	add("sync", cliInv{Inputs: []string{"src/"}, Recursive: true, Sync: true, Output: "out/"})
	add("sync-all", cliInv{Inputs: []string{"src/"}, Recursive: true, Sync: true, All: true, Output: "out/"})
	add("sync-links", cliInv{Inputs: []string{"src/"}, Recursive: true, Sync: true, Preserve: str("all"), Output: "out/"})
	add("sync-in-place", cliInv{Inputs: []string{"src/"}, Recursive: true, Sync: true, Output: "src/"})
	add("match", cliInv{Inputs: []string{"src/"}, Recursive: true, Match: []string{"*.js"}, Output: "out/"})
	add("exclude", cliInv{Inputs: []string{"src/"}, Recursive: true, Filters: []string{"-**/sub/**"}, Output: "out/"})
	add("exclude-include", cliInv{Inputs: []string{"src/"}, Recursive: true, Filters: []string{"-**", "+**.css"}, Output: "out/"})
	add("type-override", cliInv{Inputs: []string{"src/sub/"}, Recursive: true, Type: "json", Output: "out/"})
	add("unknown-extension", cliInv{Inputs: []string{"src/sub/readme.txt"}, Output: "out/"})
	add("missing-input", cliInv{Inputs: []string{"nope.js"}, Output: "out/"})
	add("symlink-input", cliInv{Inputs: []string{"src/link.js"}, Output: "out/"})
	add("symlink-in-place", cliInv{Inputs: []string{"src/link.js"}, Output: "src/link.js"})
	add("alias-symlink-as-output", cliInv{Inputs: []string{"src/app.js"}, Output: "src/link.js"})
	add("alias-symlink-as-input", cliInv{Inputs: []string{"src/link.js"}, Output: "src/app.js"})
	cs = append(cs, c19Case{Name: "alias-hardlink", Files: append(append([]treeFile{}, tree...), treeFile{Path: "src/hard.css", Link: "src/app.css"}),
		Inv: cliInv{Inputs: []string{"src/app.css"}, Output: "src/hard.css"}})
	cs = append(cs, c19Case{Name: "existing-bak-sibling", Files: []treeFile{{Path: "b.css", Data: css}, {Path: "b.css.bak", Data: "the user's own backup"}},
		Inv: cliInv{Inputs: []string{"b.css"}, Output: "b.css"}})
	cs = append(cs, c19Case{Name: "existing-bak-sibling-dir", Files: []treeFile{{Path: "w/b.css", Data: css}, {Path: "w/b.css.bak", Data: "the user's own backup"}, {Path: "w/c.js", Data: js}},
		Inv: cliInv{Inputs: []string{"w/"}, Output: "w/", Recursive: true}})
	add("ext-short-name", cliInv{Inputs: []string{"src/"}, Recursive: true, Output: "out/", Ext: map[string]string{"txt": "html"}})
	add("ext-media-type", cliInv{Inputs: []string{"src/"}, Recursive: true, Output: "out/", Ext: map[string]string{"txt": "text/css"}})
	plainTree := []treeFile{{Path: "src/app.js", Data: js}, {Path: "src/sub/readme.txt", Data: "read  me"}, {Path: "src/sub/pic.png", Data: "\x89PNG\r\n"}, {Path: "src/sub/b.css", Data: css}}
	cs = append(cs, c19Case{Name: "sync-onto-itself-absolute", Files: plainTree, Inv: cliInv{Inputs: []string{"$ROOT/src"}, Recursive: true, Sync: true, Output: "."}})
	cs = append(cs, c19Case{Name: "sync-onto-itself-dotslash", Files: plainTree, Inv: cliInv{Inputs: []string{"./src/"}, Recursive: true, Sync: true, Output: "src/"}})
	cs = append(cs, c19Case{Name: "sync-onto-itself-absolute-out", Files: plainTree, Inv: cliInv{Inputs: []string{"src/"}, Recursive: true, Sync: true, Output: "$ROOT/src/"}})
	add("in-place-absolute", cliInv{Inputs: []string{"$ROOT/src/app.js"}, Output: "src/app.js"})
	cs = append(cs, c19Case{Name: "in-place-html-failing-script", Files: []treeFile{{Path: "p.html", Data: c19Invalid["html"]}, {Path: "q.html", Data: html}},
		Inv: cliInv{Inputs: []string{"p.html", "q.html"}, Output: "."}})
	// ordered filter lists: the last matching pattern decides
	vend := []treeFile{{Path: "src/app.js", Data: js}, {Path: "src/vendor/v.js", Data: js}, {Path: "src/vendor/lib/x.js", Data: js}, {Path: "src/vendor/lib/x.min.js", Data: js}, {Path: "src/vendor/lib/y.css", Data: css}}
	for i, fl := range [][]string{{"-src/vendor/**", "+src/vendor/lib/**", "-**.min.js"}, {"+**.js", "-**/vendor/**"}, {"-**", "+**.js", "-**/lib/*.js", "+**/x.min.js"}, {"+**/lib/**", "-**.css"}} {
		cs = append(cs, c19Case{Name: fmt.Sprintf("filter-order-%d", i), Files: vend, Inv: cliInv{Inputs: []string{"src/"}, Recursive: true, Filters: fl, Output: "out/"}})
		cs = append(cs, c19Case{Name: fmt.Sprintf("filter-order-sync-%d", i), Files: vend, Inv: cliInv{Inputs: []string{"src/"}, Recursive: true, Sync: true, Filters: fl, Output: "out/"}})
	}
	// extensions in upper or mixed case
	upper := []treeFile{{Path: "w/LEGACY.JS", Data: js}, {Path: "w/Style.Css", Data: css}, {Path: "w/page.HTML", Data: html}, {Path: "w/ok.js", Data: js}}
	cs = append(cs, c19Case{Name: "upper-ext-dir", Files: upper, Inv: cliInv{Inputs: []string{"w/"}, Recursive: true, Output: "out/"}})
	cs = append(cs, c19Case{Name: "upper-ext-sync", Files: upper, Inv: cliInv{Inputs: []string{"w/"}, Recursive: true, Sync: true, Output: "out/"}})
	cs = append(cs, c19Case{Name: "upper-ext-in-place", Files: upper, Inv: cliInv{Inputs: []string{"w/"}, Recursive: true, Output: "w/"}})
	cs = append(cs, c19Case{Name: "upper-ext-named", Files: upper, Inv: cliInv{Inputs: []string{"w/LEGACY.JS", "w/ok.js"}, Output: "out/"}})
	cs = append(cs, c19Case{Name: "upper-ext-typed", Files: upper, Inv: cliInv{Inputs: []string{"w/"}, Recursive: true, Type: "js", Match: []string{"*.JS"}, Output: "out/"}})
	emptyMid := []treeFile{{Path: "a.js", Data: js}, {Path: "empty.js", Data: ""}, {Path: "c.js", Data: "let z = 3 ;\n"}, {Path: "e.css", Data: ""}, {Path: "f.css", Data: css}}
	cs = append(cs, c19Case{Name: "bundle-empty-middle", Files: emptyMid, Inv: cliInv{Inputs: []string{"a.js", "empty.js", "c.js"}, Bundle: true, Output: "out.js"}})
	cs = append(cs, c19Case{Name: "bundle-empty-middle-onto-input", Files: emptyMid, Inv: cliInv{Inputs: []string{"a.js", "empty.js", "c.js"}, Bundle: true, Output: "c.js"}})
	cs = append(cs, c19Case{Name: "bundle-empty-first", Files: emptyMid, Inv: cliInv{Inputs: []string{"empty.js", "a.js", "c.js"}, Bundle: true}})
	cs = append(cs, c19Case{Name: "bundle-empty-css", Files: emptyMid, Inv: cliInv{Inputs: []string{"f.css", "e.css", "f.css"}, Bundle: true, Output: "o.css"}})
	// bundles whose type is given on the command line: the separator between scripts belongs to the type, not to how
	// the type was found out (the first file ends in a function expression, the second starts with a parenthesis)
	sep := []treeFile{{Path: "a.js", Data: "var f = function(){ return 1 }"}, {Path: "b.js", Data: "(function(){ g( 2 ) })()"}, {Path: "a.txt", Data: "var f = function(){ return 1 }"}, {Path: "b.txt", Data: "(function(){ g( 2 ) })()"}}
	cs = append(cs, c19Case{Name: "bundle-typed-js", Files: sep, Inv: cliInv{Inputs: []string{"a.js", "b.js"}, Bundle: true, Type: "js", Output: "out.js"}})
	cs = append(cs, c19Case{Name: "bundle-typed-js-other-ext", Files: sep, Inv: cliInv{Inputs: []string{"a.txt", "b.txt"}, Bundle: true, Type: "js", Output: "out.txt"}})
	cs = append(cs, c19Case{Name: "bundle-typed-js-stdout", Files: sep, Inv: cliInv{Inputs: []string{"a.js", "b.js"}, Bundle: true, Type: "js"}})
	cs = append(cs, c19Case{Name: "bundle-untyped-js", Files: sep, Inv: cliInv{Inputs: []string{"a.js", "b.js"}, Bundle: true, Output: "out.js"}})
	// destinations that exist already and are longer than what is written now (a second run after the sources shrank)
	long := strings.Repeat("/* stale content of an earlier run */\n", 40)
	stale := []treeFile{{Path: "src/app.js", Data: js}, {Path: "src/app.css", Data: css}, {Path: "src/note.txt", Data: "n"}, {Path: "out/app.js", Data: long}, {Path: "out/app.css", Data: long}, {Path: "out/note.txt", Data: long}, {Path: "bundle.js", Data: long}}
	cs = append(cs, c19Case{Name: "stale-longer-output-file", Files: stale, Inv: cliInv{Inputs: []string{"src/app.js"}, Output: "out/app.js"}})
	cs = append(cs, c19Case{Name: "stale-longer-output-dir", Files: stale, Inv: cliInv{Inputs: []string{"src/"}, Recursive: true, Output: "out/"}})
	cs = append(cs, c19Case{Name: "stale-longer-output-sync", Files: stale, Inv: cliInv{Inputs: []string{"src/"}, Recursive: true, Sync: true, Output: "out/"}})
	cs = append(cs, c19Case{Name: "stale-longer-output-bundle", Files: stale, Inv: cliInv{Inputs: []string{"src/app.js", "src/app.js"}, Bundle: true, Output: "bundle.js"}})
	tmplText := "<!doctype html>\n<title> {{  .Title  }} </title>\n<p> hello   {{  user.name   }}  <b> {{if  .X}} x {{end}} </b> </p>\n<?php  echo   1 ; ?>\n"
	tmplTree := []treeFile{{Path: "t/page.html", Data: tmplText}, {Path: "t/page.htm", Data: tmplText}, {Path: "t/page.tmpl", Data: tmplText}, {Path: "t/page.php", Data: tmplText}, {Path: "t/page.vue", Data: tmplText}}
	cs = append(cs, c19Case{Name: "template-syntax-in-plain-html-dir", Files: tmplTree, Inv: cliInv{Inputs: []string{"t/"}, Recursive: true, Output: "out/"}})
	cs = append(cs, c19Case{Name: "template-syntax-in-plain-html-file", Files: tmplTree, Inv: cliInv{Inputs: []string{"t/page.html"}}})
	cs = append(cs, c19Case{Name: "template-syntax-typed-html", Files: tmplTree, Inv: cliInv{Inputs: []string{"t/page.tmpl"}, Type: "html"}})
	cs = append(cs, c19Case{Name: "template-syntax-stdin-html", Files: tmplTree, Inv: cliInv{Stdin: &tmplText, Type: "html"}})
	add("many-to-stdout-rejected", cliInv{Inputs: []string{"src/app.js", "src/app.css"}})
	add("flags-js", cliInv{Inputs: []string{"src/app.js"}, Flags: []string{"--js-keep-var-names"}})
	add("flags-html", cliInv{Inputs: []string{"src/app.html"}, Flags: []string{"--html-keep-document-tags", "--html-keep-end-tags"}})
	return cs
}

type c19Witness struct {
	Case   string     `json:"case"`
	Args   []string   `json:"args"`
	Tree   []treeFile `json:"tree"`
	Stdin  string     `json:"stdin,omitempty"`
	Diff   []string   `json:"diff"`
	Detail []string   `json:"detail"`
	Tasks  []string   `json:"model_tasks"`
	Stderr string     `json:"stderr"`
}

// cliArgsAt substitutes the scratch root for the $ROOT placeholder (absolute spellings of paths in the tree).
func cliArgsAt(root string, args []string) []string {
	out := make([]string, len(args))
	for i, a := range args {
		out[i] = strings.ReplaceAll(a, "$ROOT", root)
	}
	return out
}

func runCLI(root string, v cliInv) (rc int, stdout, stderr []byte, err error) {
	cmd := exec.Command(os.Getenv("MINIFY_BIN"), cliArgsAt(root, v.Args())...)
	cmd.Dir = root
	var so, se bytes.Buffer
	cmd.Stdout, cmd.Stderr = &so, &se
	if v.Stdin != nil {
		cmd.Stdin = strings.NewReader(*v.Stdin)
	} else {
		cmd.Stdin = strings.NewReader("")
	}
	if err := cmd.Start(); err != nil {
		return 0, nil, nil, err
	}
	done := make(chan error, 1)
	go func() { done <- cmd.Wait() }()
	var werr error
	select {
	case werr = <-done:
	case <-time.After(60 * time.Second):
		cmd.Process.Signal(syscall.SIGQUIT)
		<-done
		return 0, so.Bytes(), se.Bytes(), fmt.Errorf("watchdog")
	}
	if ee, ok := werr.(*exec.ExitError); ok {
		rc = ee.ExitCode()
	} else if werr != nil {
		return 0, nil, nil, werr
	}
	return rc, so.Bytes(), se.Bytes(), nil
}

func c19Describe(k, want, got string) string {
	d := func(s string) string {
		switch {
		case s == "":
			return "absent"
		case s == "D":
			return "directory"
		case strings.HasPrefix(s, "L:"):
			return "symlink -> " + s[2:]
		}
		return fmt.Sprintf("file %d bytes %q", len(s)-2, core.Trunc(s[2:], 60))
	}
	return fmt.Sprintf("%s: expected %s, found %s", k, d(want), d(got))
}

func C19(run *core.Run) {
	if os.Getenv("MINIFY_BIN") == "" {
		run.Inconclusive()
		run.Finish("n/a", nil, 1, false)
		return
	}
	scratch := core.Scratch("c19")
	defer os.RemoveAll(scratch)

	cases := c19Fixed()
	nGen := run.N(1500, 20000)
	for i := 0; i < nGen; i++ {
		r := run.CaseRand("c19", i, nGen/2)
		files := genTree(r)
		cases = append(cases, c19Case{Name: fmt.Sprintf("gen#%d", i), Files: files, Inv: genInvocation(r, files)})
	}
	core.ParallelFor(len(cases), 16, func(i int) {
		c := cases[i]
		exp := cliExpect(c.Files, c.Inv)
		if exp.Unmodelled != "" {
			reason := exp.Unmodelled
			for _, cut := range []string{" destination", ":"} {
				if j := strings.Index(reason, cut); j >= 0 {
					reason = reason[:j+len(cut)]
				}
			}
			run.Count("model_declined:" + strings.TrimSuffix(reason, ":"))
			return
		}
		root := filepath.Join(scratch, fmt.Sprintf("c%06d", i))
		if err := materialize(root, c.Files); err != nil {
			run.Inconclusive()
			run.Count("materialize_failed")
			return
		}
		defer os.RemoveAll(root)
		before, _ := diskSnapshot(root)
		if !snapshotEqual(before, map[string]string(treeSnapshot(c.Files))) {
			run.Inconclusive()
			run.Count("tree_snapshot_mismatch")
			return
		}
		rc, stdout, stderr, err := runCLI(root, c.Inv)
		if err != nil {
			run.Inconclusive()
			run.Count("cli_run_failed")
			return
		}
		after, _ := diskSnapshot(root)
		run.Eval()
		var detail []string
		diff := snapshotDiff(map[string]string(exp.FS), after)
		for _, d := range diff {
			k := d[1:]
			detail = append(detail, c19Describe(k, exp.FS[k], after[k]))
		}
		if (exp.Exit == 0) != (rc == 0) {
			detail = append(detail, fmt.Sprintf("exit status %d, expected %s", rc, map[bool]string{true: "0", false: "non-zero"}[exp.Exit == 0]))
		}
		if exp.CheckOut && !bytes.Equal(stdout, exp.Stdout) {
			detail = append(detail, fmt.Sprintf("stdout %q, expected %q", core.Trunc(string(stdout), 80), core.Trunc(string(exp.Stdout), 80)))
		}
		if exp.Usage && !snapshotEqual(before, after) {
			detail = append(detail, "a rejected invocation changed the tree")
		}
		// what was observed
		switch {
		case exp.Usage:
			run.Count("shape:rejected")
		case c.Inv.Stdin != nil:
			run.Count("shape:stdin")
		case c.Inv.Bundle:
			run.Count("shape:bundle")
		case c.Inv.Sync:
			run.Count("shape:sync")
		case c.Inv.Output == "":
			run.Count("shape:stdout")
		case len(exp.InPlace) > 0:
			run.Count("shape:in-place")
		default:
			run.Count("shape:separate-output")
		}
		run.CountN("files_written_expected", int64(len(exp.Written)))
		if exp.Exit != 0 && !exp.Usage {
			run.Count("runs_with_failing_inputs")
		}
		run.NonTrivial([]byte(strings.Join(c.Inv.Args(), "\x00")), []byte(snapshotDigest(before)))
		if len(detail) == 0 {
			return
		}
		sort.Strings(detail)
		sig := c19Signature(detail)
		key := core.Key("c19", []byte(c.Name+"|"+strings.Join(c.Inv.Args(), " ")+"|"+snapshotDigest(before)))
		if run.KnownSignature(sig) {
			return
		}
		st := ""
		if c.Inv.Stdin != nil {
			st = *c.Inv.Stdin
		}
		run.Violation(key, fmt.Sprintf("%s: minify %s: %s", c.Name, strings.Join(c.Inv.Args(), " "), core.Trunc(strings.Join(detail, "; "), 500)),
			c19Witness{Case: c.Name, Args: c.Inv.Args(), Tree: c.Files, Stdin: st, Diff: diff, Detail: detail, Tasks: exp.Tasks, Stderr: core.Trunc(string(stderr), 600)})
	})
	c19WriteFaults(run, scratch)
	run.Finish("final directory == model(initial directory, invocation) byte for byte (files, symlinks, directories; no leftover .bak), exit status zero iff the model has no failing input, stdout == model output when stdout is the destination",
		[]string{
			"the model is my reading of the README/usage text and of the property statement; the bytes come from library calls with the registry the README documents for the command",
			"invocations whose result depends on scheduling (two tasks sharing a destination, a task writing another task's input) are declined by the model and counted, not judged",
			"file modes, ownership and timestamps are not part of the compared state",
		}, 200, false)
}

// c19Signature abstracts a failure to its shape (used only for known findings identified by call site).
func c19Signature(detail []string) string {
	var parts []string
	for _, d := range detail {
		switch {
		case strings.Contains(d, ".bak:"):
			parts = append(parts, "bak")
		case strings.HasPrefix(d, "exit status"):
			parts = append(parts, "exit")
		case strings.HasPrefix(d, "stdout"):
			parts = append(parts, "stdout")
		default:
			parts = append(parts, "content")
		}
	}
	sort.Strings(parts)
	return "c19:" + strings.Join(parts, ",")
}

// c19WriteFaults: the destination cannot be written (write(2) fails, injected by strace on the tree's files
// only).  A file that was being minified onto itself must be back with its original bytes and without a
// leftover backup; files that are only read are untouched.
func c19WriteFaults(run *core.Run, scratch string) {
	if _, err := exec.LookPath("strace"); err != nil {
		run.Count("write_fault_runs_skipped_no_strace")
		return
	}
	type fc struct {
		name  string
		files []treeFile
		args  []string
	}
	js, css := cliSample["js"], cliSample["css"]
	cases := []fc{
		{"in-place", []treeFile{{Path: "a.js", Data: js}}, []string{"-o", "a.js", "a.js"}},
		{"in-place-dir", []treeFile{{Path: "src/a.js", Data: js}, {Path: "src/b.css", Data: css}}, []string{"-r", "-o", "src/", "src/"}},
		{"in-place-alias", []treeFile{{Path: "a.js", Data: js}, {Path: "l.js", Symlink: "a.js"}}, []string{"-o", "a.js", "l.js"}},
		{"bundle-onto-input", []treeFile{{Path: "a.js", Data: js}, {Path: "b.js", Data: "let z = 3 ;"}}, []string{"-b", "-o", "a.js", "a.js", "b.js"}},
		{"in-place-large", []treeFile{{Path: "big.css", Data: sampleSized("css", 200000)}}, []string{"-o", "big.css", "big.css"}},
	}
	for ci, c := range cases {
		for _, errno := range []string{"ENOSPC", "EIO"} {
			root := filepath.Join(scratch, fmt.Sprintf("wf%d%s", ci, errno))
			if err := materialize(root, c.files); err != nil {
				run.Inconclusive()
				continue
			}
			before, _ := diskSnapshot(root)
			logPath := filepath.Join(scratch, fmt.Sprintf("wf%d%s.strace", ci, errno))
			res := runStraceP(root, logPath, []string{"write:error=" + errno + ":when=1+"}, cliCase{Name: c.name, Files: c.files, Args: c.args}, nil)
			if res.err != nil {
				run.Inconclusive()
				run.Count("write_fault_run_failed")
				continue
			}
			b, _ := os.ReadFile(logPath)
			if !bytes.Contains(b, []byte("(INJECTED)")) {
				run.Inconclusive()
				run.Count("write_fault_not_injected")
				continue
			}
			run.Eval()
			run.Count("write_fault_runs:" + errno)
			after, _ := diskSnapshot(root)
			// every write to the tree failed: nothing may have changed
			diff := snapshotDiff(before, after)
			os.RemoveAll(root)
			os.Remove(logPath)
			if len(diff) == 0 {
				run.NonTrivial([]byte("write-fault"), []byte(c.name), []byte(errno))
				continue
			}
			var detail []string
			for _, d := range diff {
				k := d[1:]
				detail = append(detail, c19Describe(k, before[k], after[k]))
			}
			key := core.Key("c19", []byte("write-fault|"+c.name+"|"+errno))
			run.Violation(key, fmt.Sprintf("write-fault %s: minify %s with every write to the tree failing (%s): %s", c.name, strings.Join(c.args, " "), errno, core.Trunc(strings.Join(detail, "; "), 400)),
				c19Witness{Case: "write-fault-" + c.name, Args: c.args, Tree: c.files, Diff: diff, Detail: detail, Stderr: core.Trunc(string(res.stderr), 400)})
		}
	}
}
