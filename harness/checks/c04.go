package checks

// C04 — CSS minification preserves the cascade input.
//
// Monitor: input and output of the real CSS minifier are read by an independent tokenizer/rule parser
// (csstok.go) and every declaration is evaluated by an independent value interpreter (csscanon.go) into the
// longhands it sets with canonical values; the two evaluations must be identical rule by rule, declaration by
// declaration.  Preludes (selectors, at-rule preludes) are compared as canonical token streams.

import (
	"fmt"
	"regexp"
	"sort"
	"strings"

	"github.com/tdewolff/minify/v2"
	mcss "github.com/tdewolff/minify/v2/css"
	"verif/harness/core"
)

// ---------------------------------------------------------------- prelude canonicalisation

func canonPrelude(at string, ts []cTok) string {
	ts = nestFunctions(trimWS(ts))
	if at == "import" && len(ts) > 0 && ts[0].K == 's' {
		ts = append([]cTok{{K: 'u', S: ts[0].S}}, ts[1:]...) // @import "x" == @import url(x)
	}
	var b strings.Builder
	prevWS := false
	last := ""
	emit := func(s string) {
		b.WriteString(s)
		last = s
	}
	var walk func(ts []cTok, inAttr bool)
	walk = func(ts []cTok, inAttr bool) {
		for i, t := range ts {
			switch t.K {
			case 'w':
				prevWS = true
				continue
			case 'c':
				if at == "" && (t.S == ">" || t.S == "+" || t.S == "~") && !inAttr {
					prevWS = false
					emit(t.S)
					continue
				}
			case ',':
				prevWS = false
				emit(",")
				continue
			}
			if prevWS {
				if last != "" && last != "," && last != ">" && last != "+" && last != "~" && last != "(" && last != ":" {
					b.WriteString(" ")
				}
				prevWS = false
			}
			switch t.K {
			case 'i':
				if at != "" || last == ":" {
					emit(strings.ToLower(t.S)) // media features, keywords and pseudo names are case-insensitive
				} else {
					emit(t.S)
				}
			case 's':
				emit("\"" + t.S + "\"")
			case 'u':
				emit("url(" + t.S + ")")
			case '#':
				emit("#" + t.S)
			case 'n', '%', 'd':
				emit(canonTok(t, canonCtx{zeroUnit: false}))
			case 'f':
				name := t.S
				if at != "" {
					name = strings.ToLower(name)
				}
				if strings.EqualFold(name, "url") {
					emit(canonTok(t, canonCtx{}))
					continue
				}
				if last == ":" {
					name = strings.ToLower(name)
				}
				if strings.HasPrefix(strings.ToLower(name), "nth-") {
					// An+B microsyntax: compare the text without whitespace
					emit(name + "(" + strings.ToLower(strings.Join(strings.Fields(tokString(t.Args)), "")) + ")")
					prevWS = false
					continue
				}
				emit(name + "(")
				walk(trimWS(t.Args), false)
				prevWS = false
				emit(")")
			case '[':
				emit("[")
				// attribute selector: up to the matching ]
				_ = i
			case ']':
				prevWS = false
				emit("]")
			case ':':
				emit(":")
			default:
				if t.K == 'c' {
					emit(t.S)
				} else {
					emit(string(t.K))
				}
			}
		}
	}
	walk(ts, false)
	s := b.String()
	if at == "" {
		s = canonSelectorText(s)
	}
	return s
}

// canonSelectorText applies the selector equivalences: attribute values quoted or not, legacy pseudo-elements
// with one or two colons.
func canonSelectorText(s string) string {
	// [a = "b"] -> [a="b"], [a=b] -> [a="b"]
	var b strings.Builder
	for i := 0; i < len(s); i++ {
		if s[i] != '[' {
			b.WriteByte(s[i])
			continue
		}
		j := strings.IndexByte(s[i:], ']')
		if j < 0 {
			b.WriteString(s[i:])
			break
		}
		inner := strings.ReplaceAll(s[i+1:i+j], " ", "\x00")
		// restore spaces inside quotes
		var ib strings.Builder
		inQ := false
		for k := 0; k < len(inner); k++ {
			c := inner[k]
			if c == '"' {
				inQ = !inQ
			}
			if c == 0 {
				if inQ {
					ib.WriteByte(' ')
				} else if k+1 < len(inner) && (inner[k+1] == 'i' || inner[k+1] == 's' || inner[k+1] == 'I' || inner[k+1] == 'S') && k+2 == len(inner) {
					ib.WriteByte(' ')
				}
				continue
			}
			ib.WriteByte(c)
		}
		inner = ib.String()
		if eq := strings.IndexByte(inner, '='); eq >= 0 && !strings.Contains(inner[eq+1:], "\"") {
			val := inner[eq+1:]
			flag := ""
			if k := strings.LastIndexByte(val, ' '); k >= 0 {
				val, flag = val[:k], val[k:]
			}
			if val == "" {
				val = "\x00INVALID: an unquoted attribute value is an identifier, which cannot be empty" // [a=] matches nothing and drops the rule
			}
			inner = inner[:eq+1] + "\"" + val + "\"" + flag
		}
		b.WriteString("[" + inner + "]")
		i += j
	}
	s = b.String()
	for _, pe := range []string{"before", "after", "first-line", "first-letter"} {
		s = strings.ReplaceAll(s, "::"+pe, ":"+pe)
	}
	return s
}

// ---------------------------------------------------------------- comparison

var reLongNumber = regexp.MustCompile(`[0-9]{18,}`)

// declSummary renders the evaluation of one declaration; understood=false when the value has a form the
// interpreter does not accept for a property it models (then only the token stream is rendered).
func declSummary(d cDecl) (summary string, understood bool) {
	m := expandDecl(d.Name, d.Value)
	understood = true
	if _, no := m["\x00not-understood"]; no {
		understood = false
		m = map[string]string{d.Name: m[d.Name]}
	}
	keys := make([]string, 0, len(m))
	for k := range m {
		keys = append(keys, k)
	}
	sort.Strings(keys)
	var b strings.Builder
	for _, k := range keys {
		b.WriteString(k + ":" + m[k] + ";")
	}
	if d.Important {
		b.WriteString("!important")
	}
	return b.String(), understood
}

func compareDecls(in, out []cDecl, where string) string {
	if len(in) != len(out) {
		var a, b []string
		for _, d := range in {
			a = append(a, d.Name)
		}
		for _, d := range out {
			b = append(b, d.Name)
		}
		return fmt.Sprintf("%s: declarations %v became %v", where, a, b)
	}
	for i := range in {
		a, b := in[i], out[i]
		if a.Name != b.Name {
			return fmt.Sprintf("%s: declaration %d is %q in the input and %q in the output", where, i, a.Name, b.Name)
		}
		if a.Custom {
			// custom properties: the token stream is the value
			if strings.TrimSpace(a.RawValue) != strings.TrimSpace(b.RawValue) || a.Important != b.Important {
				return fmt.Sprintf("%s: custom property %s changed: %q -> %q", where, a.Name, a.RawValue, b.RawValue)
			}
			continue
		}
		sa, okA := declSummary(a)
		sb, _ := declSummary(b)
		if !okA || reLongNumber.MatchString(a.RawValue) {
			continue // not valid for this property as far as the interpreter knows, or numerically extreme (C08's subject): not judged
		}
		if sa != sb {
			return fmt.Sprintf("%s: %s: %q -> %q means %s -> %s", where, a.Name, core.Trunc(a.RawValue, 100), core.Trunc(b.RawValue, 100), core.Trunc(sa, 300), core.Trunc(sb, 300))
		}
	}
	return ""
}

// keyframeSelector canonicalises from/to and percentages.
func keyframeSelector(s string) string {
	var parts []string
	for _, p := range strings.Split(strings.ToLower(s), ",") {
		switch p {
		case "from":
			p = "0%"
		case "to":
			p = "100%"
		}
		parts = append(parts, p)
	}
	return strings.Join(parts, ",")
}

// foldTypeSelectors lower-cases everything outside [ ], class names and ids.
func foldTypeSelectors(s string) string {
	b := []byte(s)
	depth := 0
	skip := false
	for i := 0; i < len(b); i++ {
		c := b[i]
		switch {
		case c == '[':
			depth++
		case c == ']':
			depth--
		case c == '.' || c == '#':
			skip = true
			continue
		case !(isNameChar(c) || c == '\\'):
			skip = false
		}
		if depth == 0 && !skip && c >= 'A' && c <= 'Z' {
			b[i] = c + 32
		}
	}
	return string(b)
}

func compareRules(in, out []cRule, where string) string {
	return compareRulesCtx(in, out, where, "", nil)
}

func compareRulesCtx(in, out []cRule, where, parent string, notes *[]string) string {
	if len(in) != len(out) {
		name := func(rs []cRule) []string {
			var s []string
			for _, r := range rs {
				if r.At != "" {
					s = append(s, "@"+r.At)
				} else {
					s = append(s, core.Trunc(tokString(r.Prelude), 20))
				}
			}
			return s
		}
		return fmt.Sprintf("%s: rules %v became %v", where, name(in), name(out))
	}
	for i := range in {
		a, b := in[i], out[i]
		if a.At != b.At {
			return fmt.Sprintf("%s: rule %d: @%s became @%s", where, i, a.At, b.At)
		}
		pa, pb := canonPrelude(a.At, a.Prelude), canonPrelude(b.At, b.Prelude)
		if a.At == "" && strings.HasSuffix(parent, "keyframes") {
			pa, pb = keyframeSelector(pa), keyframeSelector(pb)
		}
		if pa != pb && a.At == "" && foldTypeSelectors(pa) == foldTypeSelectors(pb) {
			if notes != nil {
				*notes = append(*notes, "css-type-selector-lowercased")
			}
			pb = pa
		}
		if pa != pb {
			return fmt.Sprintf("%s: rule %d: prelude %q became %q (canonical %q vs %q)", where, i, core.Trunc(tokString(a.Prelude), 80), core.Trunc(tokString(b.Prelude), 80), core.Trunc(pa, 80), core.Trunc(pb, 80))
		}
		here := where + "/" + core.Trunc(pa, 30)
		if a.At != "" {
			here = where + "/@" + a.At
		}
		if a.HasBlk != b.HasBlk {
			return here + ": block appeared or disappeared"
		}
		if string(a.Order) != string(b.Order) {
			return fmt.Sprintf("%s: order of declarations and nested rules changed: %s -> %s", here, a.Order, b.Order)
		}
		if s := compareDecls(a.Decls, b.Decls, here); s != "" {
			return s
		}
		if s := compareRulesCtx(a.Rules, b.Rules, here, a.At, notes); s != "" {
			return s
		}
	}
	return ""
}

// dropEmpty removes rules whose block is empty (they set nothing); applied to the input only.
func dropEmpty(rs []cRule) []cRule {
	var out []cRule
	for _, r := range rs {
		r.Rules = dropEmpty(r.Rules)
		if r.HasBlk && len(r.Decls) == 0 && len(r.Rules) == 0 && r.At != "font-face" && r.At != "page" {
			continue
		}
		out = append(out, r)
	}
	return out
}

// ---------------------------------------------------------------- generator

type cssGen struct{ r *core.Rand }

func (g *cssGen) ws() string  { return g.r.Pick([]string{"", " ", "  ", "\n", " /* c */ "}) }
func (g *cssGen) ws1() string { return g.r.Pick([]string{" ", "  ", "\n", " /**/ "}) }

func (g *cssGen) num() string {
	r := g.r
	switch r.Intn(15) {
	case 13:
		// a mantissa with leading or trailing zeros and an exponent
		return r.Pick([]string{"0.", "00.", "0.0", "."}) + fmt.Sprint(r.Range(1, 99)) + r.Pick([]string{"", "0"}) + r.Pick([]string{"e", "E", "e+"}) + fmt.Sprint(r.Range(1, 3))
	case 0:
		return "0"
	case 1:
		return r.Pick([]string{"0.0", "-0", "+0", ".0", "00", "0e0"})
	case 2:
		return fmt.Sprint(r.Intn(10))
	case 3:
		return fmt.Sprint(r.Intn(2000))
	case 4:
		return "." + fmt.Sprint(r.Range(1, 99))
	case 5:
		return "0." + fmt.Sprint(r.Range(1, 99)) + "0"
	case 6:
		return fmt.Sprint(r.Intn(100)) + "." + fmt.Sprint(r.Intn(100))
	case 7:
		return "-" + fmt.Sprint(r.Intn(50)) + "." + fmt.Sprint(r.Range(1, 9))
	case 8:
		return fmt.Sprint(r.Range(1, 9)) + "e" + fmt.Sprint(r.Range(1, 3))
	case 9:
		return fmt.Sprint(r.Range(1, 99)) + "E-" + fmt.Sprint(r.Range(1, 3))
	case 10:
		return "+" + fmt.Sprint(r.Range(1, 50))
	case 11:
		return fmt.Sprint(r.Range(1, 20)) + "00"
	case 12:
		return "1.50"
	}
	return fmt.Sprint(r.Range(1, 300))
}

func (g *cssGen) length() string {
	r := g.r
	if r.Chance(1, 8) {
		return r.Pick([]string{"0", "0px", "0em", "0%", "0.0px", "-0px", "0PX", "0rem", "0pt", "0vh"})
	}
	return g.num() + r.Pick([]string{"px", "px", "em", "rem", "%", "vh", "vw", "pt", "cm", "mm", "Q", "in", "PX", "Em", "ch", "ex"})
}

// absLength: a length that is not a percentage
func (g *cssGen) absLength() string {
	for {
		if l := g.length(); !strings.HasSuffix(l, "%") {
			return l
		}
	}
}

func (g *cssGen) color() string {
	r := g.r
	switch r.Intn(16) {
	case 14, 15:
		// the colour of a named keyword in another notation (every entry of the hex->name table is reachable), and
		// every keyword itself
		name := cssColorNames[r.Intn(len(cssColorNames))]
		hex := cssNamedColors[name]
		var rr, gg, bb int
		fmt.Sscanf(hex, "%02x%02x%02x", &rr, &gg, &bb)
		switch r.Intn(6) {
		case 0:
			return name
		case 1:
			return "#" + hex
		case 2:
			return "#" + strings.ToUpper(hex)
		case 3:
			return "#" + hex + "ff"
		case 4:
			return fmt.Sprintf("rgb(%d,%d,%d)", rr, gg, bb)
		}
		return fmt.Sprintf("rgba(%d, %d, %d, 1)", rr, gg, bb)
	case 0:
		return r.Pick([]string{"red", "RED", "Blue", "black", "white", "gold", "tan", "fuchsia", "magenta", "aqua", "cyan", "gray", "grey", "darkgray", "lightslategrey", "rebeccapurple", "transparent", "currentColor", "currentcolor", "lime", "olive", "navy", "silver", "maroon", "orange"})
	case 13:
		// random hex colours of every length
		n := []int{3, 4, 6, 8, 8}[r.Intn(5)]
		b := make([]byte, n)
		for i := range b {
			b[i] = r.Char("0123456789abcdefABCDEF00ff")
		}
		return "#" + string(b)
	case 1:
		return "#" + r.Pick([]string{"f00", "F00", "ff0000", "FF0000", "000", "000000", "fff", "FFFFFF", "abcdef", "AbCdEf", "aabbcc", "123", "112233", "ffd700", "d2b48c", "c0c0c0", "808080", "f0f", "0ff", "00ffff"})
	case 2:
		return "#" + r.Pick([]string{"f00f", "ff0000ff", "0000", "00000000", "abcd", "aabbccdd", "12345678", "ffffff80", "fff8"})
	case 3:
		return fmt.Sprintf("rgb(%d,%d,%d)", r.Intn(256), r.Intn(256), r.Intn(256))
	case 4:
		return fmt.Sprintf("rgb( %d , %d , %d )", r.Pick2(255, 0, 128, 51, 102, 204, 153), r.Pick2(255, 0, 128, 51), r.Pick2(255, 0, 128, 204))
	case 5:
		return fmt.Sprintf("rgb(%s%%,%s%%,%s%%)", r.Pick([]string{"0", "20", "40", "50", "60", "80", "100", "33.3", "12.5"}), r.Pick([]string{"0", "20", "100", "50"}), r.Pick([]string{"0", "40", "100", "75"}))
	case 6:
		return fmt.Sprintf("rgba(%d,%d,%d,%s)", r.Intn(256), r.Intn(256), r.Intn(256), r.Pick([]string{"1", "0", ".5", "0.50", "1.0", "0.25", "50%", "100%", ".333"}))
	case 7:
		return fmt.Sprintf("hsl(%s,%s%%,%s%%)", r.Pick([]string{"0", "120", "240", "360", "60", "-120", "480", "180deg", ".5turn", "33"}), r.Pick([]string{"100", "50", "0", "75"}), r.Pick([]string{"50", "0", "100", "25", "75"}))
	case 8:
		return fmt.Sprintf("hsla(%d,%d%%,%d%%,%s)", r.Intn(360), r.Intn(101), r.Intn(101), r.Pick([]string{"1", ".5", "0", "1.0"}))
	case 9:
		return fmt.Sprintf("rgb(%d %d %d)", r.Intn(256), r.Intn(256), r.Intn(256))
	case 10:
		return fmt.Sprintf("rgb(%d %d %d / %s)", r.Intn(256), r.Intn(256), r.Intn(256), r.Pick([]string{"1", ".5", "50%", "0"}))
	case 11:
		return fmt.Sprintf("RGB(%d, %d, %d)", r.Intn(256), r.Intn(256), r.Intn(256))
	case 12:
		return r.Pick([]string{"rgb(300,-5,128)", "rgba(0,0,0,2)", "rgb(255,255,255)", "rgb(0,0,0)", "rgba(0,0,0,0)", "hsl(0,0%,0%)", "hsl(0,0%,100%)", "rgb(255,0,0)", "rgb(100%,0%,0%)"})
	}
	return r.Pick([]string{"#FF0000", "#ff0000", "red", "rgb(255,0,0)", "hsl(0,100%,50%)", "#f00", "#FFD700", "gold", "#00f", "blue"})
}

func (g *cssGen) url() string {
	if g.r.Chance(1, 6) {
		// data URIs whose quotes are written as escapes or hidden in base64: re-encoding brings out raw ' and "
		u := g.r.Pick([]string{
			"data:image/svg+xml,%3Csvg xmlns=%27http://www.w3.org/2000/svg%27%3E%3Cpath d=%27M0 0L1 1%27/%3E%3C/svg%3E",
			"data:text/plain,it%27s here and there and everywhere",
			"data:text/plain,say %22hi%22 to everybody out there",
			"data:text/plain;base64,aXQncyBoZXJlIGFuZCB0aGVyZSBhbmQgZXZlcnl3aGVyZQ==",
			"data:text/plain;base64,c2F5ICJoaSIgYW5kIGl0J3MgKGRvbmUp",
			"data:text/plain,a%28b%29c%20d and some more text to make it long",
		})
		q := g.r.Pick([]string{"'", "\""})
		return "url(" + q + u + q + ")"
	}
	u := g.r.Pick([]string{"a.png", "img/b c.png", "http://x/y.gif", "data:image/png;base64,iVBORw0KGgo=", "x(1).png", "a'b.png", "#frag", "a.svg#i"})
	needQ := strings.ContainsAny(u, " ()'")
	switch {
	case !needQ && g.r.Chance(1, 3):
		return "url(" + g.r.Pick([]string{"", " "}) + u + g.r.Pick([]string{"", " "}) + ")"
	case strings.Contains(u, "'") || g.r.Bool():
		return "url(\"" + u + "\")"
	}
	return "url('" + u + "')"
}

func (g *cssGen) position() string {
	r := g.r
	switch r.Intn(8) {
	case 0:
		return r.Pick([]string{"left", "right", "top", "bottom", "center", "50%", "0", "10px"})
	case 1:
		return r.Pick([]string{"left", "right", "center", g.length()}) + " " + r.Pick([]string{"top", "bottom", "center", g.length()})
	case 2:
		return r.Pick([]string{"top", "bottom", "center"}) + " " + r.Pick([]string{"left", "right", "center"})
	case 3:
		return r.Pick([]string{"0 0", "0% 0%", "50% 50%", "100% 100%", "0px 0px", "left top", "center center", "right bottom", "0 50%", "50% 0"})
	case 4:
		return r.Pick([]string{"left", "right"}) + " " + g.length() + " " + r.Pick([]string{"top", "bottom"}) + " " + g.length()
	case 5:
		return r.Pick([]string{"right 10% bottom 20%", "left 0 top 0", "right 0 bottom 0", "left 10px top", "right 5px center", "center top 10px", "left top 0", "right 25% top"})
	}
	return g.length() + " " + g.length()
}

func (g *cssGen) fontFamily() string {
	r := g.r
	n := r.Range(1, 3)
	var fs []string
	for i := 0; i < n; i++ {
		fs = append(fs, r.Pick([]string{"Arial", "\"Times New Roman\"", "'Helvetica Neue'", "Times New Roman", "serif", "sans-serif", "monospace", "\"My  Font\"", "'Font 2'", "\"serif\"", "'A,B'", "-apple-system", "\"\"", "Fira  Sans", "'-x'", "\"a\\\"b\"", "\"Initial\"", "'inherit'", "\"unset\"", "\"revert\"", "'Default'"}))
	}
	return strings.Join(fs, r.Pick([]string{",", ", ", " , "}))
}

func (g *cssGen) declaration() string {
	r := g.r
	imp := ""
	if r.Chance(1, 10) {
		imp = r.Pick([]string{"!important", " !important", " ! important", "!IMPORTANT"})
	}
	sp := func(parts ...string) string { return strings.Join(parts, g.ws1()) }
	var name, val string
	switch r.Intn(34) {
	case 0, 1:
		name = r.Pick([]string{"margin", "padding", "border-width", "MARGIN", "inset", "scroll-margin"})
		n := r.Range(1, 4)
		var vs []string
		base := g.length()
		for i := 0; i < n; i++ {
			if r.Chance(1, 2) {
				vs = append(vs, base)
			} else {
				vs = append(vs, r.Pick([]string{g.length(), "auto", "0", "0px"}))
			}
		}
		if r.Chance(1, 6) {
			// the same function with different arguments in every position (the sides must not be folded together)
			fsAll := [][]string{
				{"env(safe-area-inset-top)", "env(safe-area-inset-right)", "env(safe-area-inset-bottom)", "env(safe-area-inset-left)"},
				{"max(1em,env(safe-area-inset-top))", "max(1em,env(safe-area-inset-right))", "max(1em,env(safe-area-inset-top))", "max(1em,env(safe-area-inset-left))"},
				{"attr(data-v px)", "attr(data-h px)", "attr(data-v px)", "attr(data-w px)"},
				{"calc(1px + var(--x))", "calc(1px + var(--y))", "calc(1px + var(--x))", "calc(1px + var(--y))"},
			}
			fs := fsAll[r.Intn(len(fsAll))]
			vs = vs[:0]
			for i := 0; i < r.Range(2, 4); i++ {
				vs = append(vs, fs[i])
			}
		}
		val = sp(vs...)
	case 2, 3:
		name = r.Pick([]string{"border", "border-top", "border-left", "border-bottom", "border-right", "outline", "column-rule"})
		parts := []string{}
		if r.Chance(2, 3) {
			parts = append(parts, r.Pick([]string{g.absLength(), "thin", "medium", "thick", "0", "1px"}))
		}
		if r.Chance(2, 3) {
			parts = append(parts, r.Pick([]string{"none", "solid", "dotted", "dashed", "hidden", "double", "NONE", "Solid"}))
		}
		if r.Chance(1, 2) {
			parts = append(parts, r.Pick([]string{g.color(), "currentColor", "currentcolor"}))
		}
		if name == "outline" && r.Chance(1, 6) && len(parts) < 3 && !strings.Contains(strings.Join(parts, " "), "olor") && (len(parts) == 0 || !isColorish(parts[len(parts)-1])) {
			parts = append(parts, "invert")
		}
		if len(parts) == 0 {
			parts = []string{r.Pick([]string{"none", "0", "medium", "currentcolor"})}
		}
		for i := len(parts) - 1; i > 0; i-- {
			j := r.Intn(i + 1)
			parts[i], parts[j] = parts[j], parts[i]
		}
		val = sp(parts...)
	case 4:
		name = r.Pick([]string{"border-color", "border-style"})
		if r.Chance(1, 8) {
			return "border-color" + g.ws() + ":" + g.ws() + r.Pick([]string{"light-dark(tan,teal) light-dark(teal,tan)", "light-dark(red,blue) light-dark(red,green) light-dark(red,blue) light-dark(red,gray)"})
		}
		n := r.Range(1, 4)
		var vs []string
		for i := 0; i < n; i++ {
			if name == "border-color" {
				vs = append(vs, r.Pick([]string{g.color(), "red", "#f00", "currentColor"}))
			} else {
				vs = append(vs, r.Pick([]string{"none", "solid", "dotted", "solid"}))
			}
		}
		val = sp(vs...)
	case 5:
		name = "border-radius"
		val = sp(g.length(), g.length())
		if r.Chance(1, 2) {
			val += g.ws() + "/" + g.ws() + sp(g.length(), g.length())
		}
	case 6, 7, 8:
		name = "background"
		layers := r.Range(1, 2)
		var ls []string
		for i := 0; i < layers; i++ {
			var parts []string
			if r.Chance(1, 2) {
				parts = append(parts, r.Pick([]string{g.url(), "none", "linear-gradient(red, blue)", "linear-gradient(to right, #FF0000 0%, rgba(0,0,0,0) 100%)", "linear-gradient(0deg, #000000, #ffffff)", "linear-gradient(0turn, rgb(10,20,30), rgb(200,100,50) 50%, hsl(120,50%,50%))", "repeating-linear-gradient(90deg, red 0px, blue 10.0px)", "conic-gradient(from 90deg, red, blue 50%)", "linear-gradient(calc(0deg + 1turn), red, blue)", "radial-gradient(circle at 0 0, rgb(1,2,3), rgb(4,5,6))"}))
			}
			if r.Chance(1, 2) {
				p := g.position()
				if r.Chance(1, 3) {
					p += g.ws() + "/" + g.ws() + r.Pick([]string{"auto", "auto auto", "cover", "contain", g.length(), g.length() + " auto", g.length() + " " + g.length(), "100% 100%", "0 0"})
				}
				parts = append(parts, p)
			}
			if r.Chance(1, 3) {
				parts = append(parts, r.Pick([]string{"repeat", "no-repeat", "repeat-x", "repeat-y", "repeat repeat", "no-repeat no-repeat", "repeat no-repeat", "no-repeat repeat", "space round", "round"}))
			}
			if r.Chance(1, 5) {
				parts = append(parts, r.Pick([]string{"scroll", "fixed", "local"}))
			}
			if r.Chance(1, 5) {
				parts = append(parts, r.Pick([]string{"padding-box", "border-box", "content-box", "padding-box border-box", "border-box padding-box", "content-box content-box"}))
			}
			if i == layers-1 && r.Chance(1, 2) {
				parts = append(parts, r.Pick([]string{g.color(), "transparent", "#000", "black", "#000000", "white"}))
			}
			if len(parts) == 0 {
				if i == layers-1 {
					parts = []string{r.Pick([]string{"none", "transparent", "0 0", "#fff", "red"})}
				} else {
					parts = []string{r.Pick([]string{"none", "0 0", "repeat"})}
				}
			}
			for k := len(parts) - 1; k > 0; k-- {
				j := r.Intn(k + 1)
				parts[k], parts[j] = parts[j], parts[k]
			}
			ls = append(ls, sp(parts...))
		}
		val = strings.Join(ls, g.ws()+","+g.ws())
	case 9:
		name = "background-position"
		val = g.position()
		if r.Chance(1, 4) {
			val += " , " + g.position()
		}
	case 10:
		name = r.Pick([]string{"background-size", "background-repeat", "background-color", "background-image"})
		switch name {
		case "background-size":
			val = r.Pick([]string{"auto", "auto auto", "cover", "10px auto", "auto 10px", "50% 50%", g.length() + " " + g.length(), "contain", "10px", "auto auto, 10px auto"})
		case "background-repeat":
			val = r.Pick([]string{"repeat", "repeat repeat", "no-repeat no-repeat", "repeat no-repeat", "no-repeat repeat", "repeat-x", "space", "round space", "repeat-x, repeat no-repeat"})
		case "background-color":
			val = r.Pick([]string{g.color(), "transparent", "initial", "#000"})
		default:
			val = r.Pick([]string{g.url(), "none", g.url() + ", " + g.url()})
		}
	case 11, 12:
		name = "font"
		parts := []string{}
		if r.Chance(1, 3) {
			parts = append(parts, r.Pick([]string{"italic", "normal", "oblique"}))
		}
		if r.Chance(1, 4) {
			parts = append(parts, r.Pick([]string{"small-caps", "normal"}))
		}
		if r.Chance(1, 2) {
			parts = append(parts, r.Pick([]string{"bold", "normal", "400", "700", "600", "bolder", "lighter", "BOLD"}))
		}
		for k := len(parts) - 1; k > 0; k-- {
			j := r.Intn(k + 1)
			parts[k], parts[j] = parts[j], parts[k]
		}
		size := r.Pick([]string{g.length(), "12px", "1em", "medium", "large", "smaller", "100%", "x-small"})
		if r.Chance(1, 2) {
			size += r.Pick([]string{"/", " / ", "/ "}) + r.Pick([]string{"normal", "1.5", "20px", "1", "0", "150%", "1.0"})
		}
		parts = append(parts, size, g.fontFamily())
		val = sp(parts...)
		if r.Chance(1, 12) {
			val = r.Pick([]string{"caption", "menu", "inherit", "status-bar"})
		}
	case 13:
		name, val = "font-family", g.fontFamily()
	case 14:
		name, val = "font-weight", r.Pick([]string{"normal", "bold", "400", "700", "NORMAL", "Bold", "bolder", "lighter", "100", "inherit"})
	case 15:
		name = "flex"
		val = r.Pick([]string{"none", "auto", "1", "0", "1 1", "1 1 auto", "0 0 auto", "1 1 0", "1 1 0px", "1 1 0%", "2 2 10%", "0 1 auto", "1 0px", "initial", "1 30px", "0 0 0", "1 1 0em", "auto 1 1"})
		if r.Chance(1, 3) {
			// every factor notation: several digits, fractions, exponents
			f := func() string {
				return r.Pick([]string{"0", "1", "2", "10", "12", "1.5", "0.5", ".5", "1e1", "100", "1.0", "15"})
			}
			val = f() + " " + f() + " " + r.Pick([]string{"0", "0px", "0%", "auto", "10px", "50%", "0em", "content"})
		}
	case 16:
		name = r.Pick([]string{"flex-basis", "flex-grow", "flex-shrink", "order", "z-index", "opacity", "line-height"})
		switch name {
		case "flex-basis":
			val = r.Pick([]string{"0", "0px", "0%", "auto", g.length(), "content"})
		case "line-height":
			val = r.Pick([]string{"0", "0px", "1", "1.50", "normal", g.length(), "150%", "0em"})
		default:
			val = g.num()
		}
	case 17, 18:
		name = r.Pick([]string{"box-shadow", "text-shadow"})
		n := r.Range(1, 2)
		var shs []string
		for i := 0; i < n; i++ {
			parts := []string{g.absLength(), g.absLength()}
			if r.Chance(1, 2) {
				parts = append(parts, r.Pick([]string{g.absLength(), "0", "0px"}))
				if name == "box-shadow" && r.Chance(1, 2) {
					parts = append(parts, r.Pick([]string{g.absLength(), "0", "0px"}))
				}
			}
			lens := strings.Join(parts, " ")
			var ps []string
			ps = append(ps, lens)
			if r.Chance(2, 3) {
				if r.Bool() {
					ps = append(ps, g.color())
				} else {
					ps = append([]string{g.color()}, ps...)
				}
			}
			if name == "box-shadow" && r.Chance(1, 4) {
				if r.Bool() {
					ps = append(ps, "inset")
				} else {
					ps = append([]string{"inset"}, ps...)
				}
			}
			shs = append(shs, strings.Join(ps, " "))
		}
		val = strings.Join(shs, g.ws()+","+g.ws())
		if r.Chance(1, 10) {
			val = r.Pick([]string{"none", "initial", "inherit"})
		}
	case 19:
		name = r.Pick([]string{"color", "fill", "stroke", "outline-color", "border-top-color", "caret-color", "text-decoration-color", "COLOR"})
		val = g.color()
	case 20:
		name = r.Pick([]string{"width", "height", "top", "left", "min-width", "max-height", "margin-top", "padding-left", "text-indent", "letter-spacing", "border-top-width", "gap", "font-size"})
		val = r.Pick([]string{g.length(), g.length(), "auto", "calc(100% - 0px)", "calc( 1px + 2px )", "calc(1em*2)", "calc(0px + 10%)", "min(10px, 0px)", "inherit", "max-content", "var(--w)", "var( --w , 0px )"})
	case 21:
		name = r.Pick([]string{"transition", "animation", "transition-duration", "animation-delay", "transition-delay"})
		switch name {
		case "transition":
			val = r.Pick([]string{"all 0s", "opacity .3s ease 0s", "color 300ms linear", "all 0.30s ease-in-out", "none", "width 2s, height 0s", "Opacity 1s", "all 0ms"})
		case "animation":
			val = r.Pick([]string{"spin 1s linear infinite", "Fade 0s", "fadeIn .5s ease 0s 1 normal both", "none", "x 0.0s"})
		default:
			val = r.Pick([]string{"0s", "0ms", ".3s", "0.30s", "300ms", "1s, 0s", "-0s", "+.5s"})
		}
	case 22:
		name = r.Pick([]string{"transform", "filter", "rotate"})
		val = r.Pick([]string{"rotate(0deg)", "rotate(0)", "rotate(90deg)", "translate(0px, 0px)", "translate(0,0)", "translateX(0%)", "scale(1.0)", "scale(1, 1)", "rotate(.5turn)", "skew(0deg,0deg)", "matrix(1,0,0,1,0,0)", "translate3d(0,0,0)", "rotate(0rad)", "rotateX(0turn)", "rotate(calc(0deg + 90deg))", "rotate(var(--a, 0deg))", "rotate(calc(0deg))"})
		if name == "filter" {
			val = r.Pick([]string{"blur(0px)", "hue-rotate(0deg)", "drop-shadow(0 0 0 #F00)", "brightness(1.0)", "none", "hue-rotate(90deg) blur(2.0px)"})
		}
		if name == "rotate" {
			val = r.Pick([]string{"0deg", "90deg", "0rad", ".25turn"})
		}
	case 23:
		name = "content"
		val = r.Pick([]string{"\"\"", "''", "'a'", "\"a\\\"b\"", "'it\\'s'", "\"x  y\"", "'\\201C'", "\"\\a \"", "counter(c)", "attr(title)", "' (' attr(href) ')'", "none", "\"/*not a comment*/\"", "'a\\\nb'", "url(a.png)",
			// escaped line breaks of every kind inside strings and quoted urls
			"'ab\\\rcd'", "\"ab\\\r\ncd\"", "'ab\\\fcd'", "'x\\\r'", "url('image-ab\\\rcd.png')", "url(\"a\\\nb.png\")"})
	case 24:
		name = r.Pick([]string{"--main-color", "--x", "--Empty", "--weird", "--Size"})
		val = r.Pick([]string{"#FF0000", " red", "0px", "calc( 1px + 2px )", "{ a: b }", "[ 1 , 2 ]", "'str  ing'", "1.0", "RED", "url( a.png )", "a  b", "0.50em", "+1", "rgb( 255 , 0 , 0 )", ""})
	case 25:
		name = r.Pick([]string{"grid-template-columns", "grid-area", "grid-template-areas", "will-change", "counter-reset", "list-style", "quotes"})
		switch name {
		case "grid-template-columns":
			val = r.Pick([]string{"repeat(2, 1fr)", "1fr 2fr", "[full-start] minmax(0px, 1fr) [full-end]", "100px auto", "0fr 1fr", "repeat(auto-fill, minmax(100px, 1fr))"})
		case "grid-area":
			val = r.Pick([]string{"Header", "1 / 2 / 3 / 4", "main"})
		case "grid-template-areas":
			val = r.Pick([]string{"\"a b\" \"c d\"", "'Header Header' 'main  side'"})
		case "will-change":
			val = r.Pick([]string{"transform", "Opacity, Left"})
		case "counter-reset":
			val = r.Pick([]string{"Section 0", "c", "a 1 b 2"})
		case "list-style":
			val = r.Pick([]string{"none", "square inside", "MyStyle", "disc outside none", "url(a.png)"})
		default:
			val = r.Pick([]string{"'\"' '\"'", "\"«\" \"»\"", "none"})
		}
	case 26:
		name = r.Pick([]string{"text-decoration", "text-align", "display", "position", "overflow", "cursor", "white-space", "vertical-align", "float", "visibility", "text-transform"})
		val = r.Pick([]string{"none", "underline", "UNDERLINE", "underline dotted red", "center", "Block", "absolute", "hidden", "pointer", "url(c.cur), auto", "nowrap", "middle", "left", "inherit", "initial", "unset", "line-through #F00", "baseline", "0"})
	case 27:
		name = r.Pick([]string{"-webkit-box-shadow", "-moz-border-radius", "-ms-filter", "filter", "zoom", "-webkit-transition", "behavior", "-x-unknown", "unknown-prop", "Foo"})
		val = r.Pick([]string{"0 0 0 #F00", "5px", "alpha(opacity=50)", "1", "all 0s", "url(x.htc)", "A  B", "1PX SOLID RED", "foo( 1 , 2 )", "#ABCDEF", "0.0", "progid:DXImageTransform.Microsoft.gradient(startColorstr='#80000000', endColorstr='#80000000')",
			"\"progid:DXImageTransform.Microsoft.Alpha(Opacity=50)\"", "'progid:DXImageTransform.Microsoft.Alpha(Opacity=80)'", "'alpha(opacity=25)'"})
	case 28:
		name = "src"
		val = r.Pick([]string{"url(a.woff2) format(\"woff2\"), url('a.woff') format('woff')", "local(\"My Font\"), url(f.ttf)", "local('Arial')", "local(Font  Name)"})
	case 29:
		name = "unicode-range"
		val = r.Pick([]string{"U+26", "U+0-7F", "U+0025-00FF", "u+4??", "U+0025-00FF, U+4??", "U+00-FF,U+100-1FF", "U+0000-00FF, U+0131"})
	case 30:
		name = r.Pick([]string{"margin", "padding"})
		val = r.Pick([]string{"0 0 0 0", "0px 0px", "1px 1px 1px 1px", "1px 2px 1px 2px", "1px 2px 3px 2px", "1px 2px 1px", "0 auto", "0 AUTO", "-1px -1px", "1px 1.0px", "1PX 1px", "10px 1e1px", "calc(1px) calc(1px)", "0 0 0 0px", "auto auto auto auto", "1em 1em 2em", "inherit", "var(--a) var(--b)"})
	case 31:
		name = r.Pick([]string{"clip", "clip-path", "shape-outside", "mask"})
		val = r.Pick([]string{"rect(0px, 0px, 0px, 0px)", "rect(0 0 0 0)", "circle(50% at 0 0)", "inset(0px 0px)", "polygon(0 0, 100% 0, 0px 100%)", "none", "auto", "url(#m)"})
	case 32:
		name = r.Pick([]string{"stroke-dasharray", "stroke-width", "fill-opacity", "stop-color", "flood-color"})
		switch name {
		case "stroke-dasharray":
			val = r.Pick([]string{"0", "0px 1px", "5, 0", "none"})
		case "stop-color", "flood-color":
			val = g.color()
		default:
			val = r.Pick([]string{g.num(), g.length(), "0px"})
		}
	default:
		name = r.Pick([]string{"border-collapse", "box-sizing", "table-layout", "resize", "appearance", "object-fit", "word-break"})
		val = r.Pick([]string{"collapse", "border-box", "fixed", "none", "both", "cover", "break-all", "COLLAPSE"})
	}
	return name + g.ws() + ":" + g.ws() + val + g.ws() + imp
}

func isColorish(s string) bool {
	l := strings.ToLower(s)
	_, named := cssNamedColors[l]
	return named || strings.HasPrefix(l, "#") || strings.HasPrefix(l, "rgb") || strings.HasPrefix(l, "hsl") || l == "transparent"
}

func (g *cssGen) declBlock(n int) string {
	var ds []string
	for i := 0; i < n; i++ {
		ds = append(ds, g.declaration())
	}
	s := strings.Join(ds, g.ws()+";"+g.ws())
	switch g.r.Intn(4) {
	case 0:
		s += ";"
	case 1:
		s += " ; ;"
	}
	return s
}

func (g *cssGen) selector() string {
	r := g.r
	simple := func() string {
		return r.Pick([]string{"a", "div", "P", "LI", "*", ".c", ".Cls", "#id", "#ID", "a.b", "ul > li", "a + b", "a ~ b", "h1 h2", "a:hover", "a::before", "p:first-line", "li:nth-child(2n + 1)", "li:nth-child( odd )", "a:not(.b)", "a:not( .b , .c )", "input[type=text]", "input[type=\"text\"]", "a[href^='http']", "a[title=\"a b\"]", "a[data-x=\"1\"]", "[lang|=en]", "a[href$=\".PDF\" i]", "*|a", "svg|circle", ":root", "::selection", "a::AFTER", ".\\31 0", "#a\\.b", "a[b=\"\"]", "a[b='c d']", "a[b=c s]", "a[b=\"c\" S]", "a[b=c i]", "input[value=\"\" i]", "img[alt='']", ":is(a, b) c", "a:where(.x)"})
	}
	n := r.Range(1, 3)
	var ss []string
	for i := 0; i < n; i++ {
		ss = append(ss, simple())
	}
	return strings.Join(ss, g.ws()+","+g.ws())
}

func (g *cssGen) rule(depth int) string {
	r := g.r
	switch k := r.Intn(16); {
	case k == 0 && depth == 0:
		return "@charset \"utf-8\";"
	case k == 1 && depth == 0:
		return "@import " + r.Pick([]string{"url(a.css)", "url(\"a.css\")", "\"a.css\"", "'a.css' screen", "url(a.css) screen and (min-width:0px)",
			// white space inside url( ), one-character and empty URLs
			"url( \"a b.css\" )", "url( 'a.css' )", "url(  a.css  )", "url(x)", "url( x )", "url()", "url( \"x\" )", "url(\n\"a.css\"\n) print"}) + ";"
	case k == 2 && depth < 2:
		q := r.Pick([]string{"screen", "print and (min-width: 100px)", "SCREEN AND (MAX-WIDTH:0px)", "(min-width:0) and (max-width:100.0px)", "only screen and (-webkit-min-device-pixel-ratio:1.50)", "not all and (monochrome)", "screen , print", "(min-resolution: 2dppx)", "(400px <= width <= 700px)"})
		var inner []string
		for i := r.Range(1, 3); i > 0; i-- {
			inner = append(inner, g.rule(depth+1))
		}
		return "@media " + q + g.ws() + "{" + g.ws() + strings.Join(inner, g.ws()) + g.ws() + "}"
	case k == 3 && depth < 2:
		return "@supports " + r.Pick([]string{"(display: grid)", "not (display:grid)", "(display:flex) and (not (display:grid))", "(--a: 0px)"}) + "{" + g.rule(depth+1) + "}"
	case k == 4:
		return "@font-face" + g.ws() + "{" + g.ws() + "font-family" + g.ws() + ":" + g.ws() + r.Pick([]string{"\"My Font\"", "MyFont", "'F'"}) + ";src:" + r.Pick([]string{"url(a.woff2) format(\"woff2\")", "local('A B'), url(\"f.ttf\")"}) + ";unicode-range:" + r.Pick([]string{"U+0-7F", "U+0025-00FF, u+4??"}) + ";font-weight:" + r.Pick([]string{"normal", "bold", "400", "100 900"}) + g.ws() + "}"
	case k == 5:
		return "@keyframes " + r.Pick([]string{"spin", "Fade", "a-b"}) + g.ws() + "{" + r.Pick([]string{"from", "0%", "0.0%"}) + g.ws() + "{" + g.declBlock(1) + "}" + g.ws() + r.Pick([]string{"50%", "50.0%", "25%,75%"}) + "{" + g.declBlock(1) + "}" + r.Pick([]string{"to", "100%", "TO"}) + "{" + g.declBlock(1) + "}" + "}"
	case k == 6:
		return "@page " + r.Pick([]string{":first", "", ":left"}) + "{" + r.Pick([]string{"margin:1in", "margin : 0px 0px", "size:A4"}) + "}"
	case k == 7:
		return g.selector() + g.ws() + "{" + g.ws() + "}"
	}
	return g.selector() + g.ws() + "{" + g.ws() + g.declBlock(r.Range(1, 5)) + g.ws() + "}"
}

func genStylesheet(r *core.Rand) string {
	g := &cssGen{r}
	var rs []string
	for i := r.Range(1, 6); i > 0; i-- {
		rs = append(rs, g.rule(0))
	}
	return strings.Join(rs, g.ws())
}

// ---------------------------------------------------------------- the check

type c04Config struct {
	inline bool
	css2   bool
}

func (c c04Config) String() string { return fmt.Sprintf("css inline=%v keepcss2=%v", c.inline, c.css2) }

func c04Minify(src string, c c04Config) (string, error, string) {
	m := minify.New()
	o := &mcss.Minifier{KeepCSS2: c.css2}
	m.Add("text/css", o)
	var out strings.Builder
	var err error
	pan := ""
	func() {
		defer func() {
			if r := recover(); r != nil {
				pan = fmt.Sprint(r)
			}
		}()
		// inline mode is selected in one of three documented ways: the parameter, the option field, or both
		var params map[string]string
		if c.inline {
			switch len(src) % 3 {
			case 0:
				params = map[string]string{"inline": "1"}
			case 1:
				o.Inline = true
			default:
				o.Inline = true
				params = map[string]string{"inline": "1", "charset": "utf-8"}
			}
		}
		err = o.Minify(m, &out, strings.NewReader(src), params)
	}()
	return out.String(), err, pan
}

func c04Judge(src string, c c04Config) (string, string) {
	out, err, pan := c04Minify(src, c)
	if pan != "" {
		return "minifier panicked: " + pan, out
	}
	if err != nil {
		return "REJECTED:" + err.Error(), out
	}
	if c.inline {
		di, e1 := parseDeclList(src)
		if e1 != "" {
			return "INVALID-INPUT:" + e1, out
		}
		do, e2 := parseDeclList(out)
		if e2 != "" {
			return "output not understood: " + e2, out
		}
		return compareDecls(di, do, "inline"), out
	}
	ri, e1 := parseStylesheet(src)
	if e1 != "" {
		return "INVALID-INPUT:" + e1, out
	}
	ro, e2 := parseStylesheet(out)
	if e2 != "" {
		return "output not understood: " + e2, out
	}
	var notes []string
	v := compareRulesCtx(dropEmpty(ri), dropEmpty(ro), "", "", &notes)
	if v == "" && len(notes) > 0 {
		return "NOTE:" + notes[0], out
	}
	return v, out
}

func C04(run *core.Run) {
	run.ReplayWitnesses(func(f core.Finding, w core.Witness) (bool, string) {
		c := c04Config{inline: w.Extra["inline"] == "true", css2: w.Extra["css2"] == "true"}
		v, _ := c04Judge(w.Input, c)
		bad := v != "" && !strings.HasPrefix(v, "INVALID-INPUT") && !strings.HasPrefix(v, "REJECTED") && !strings.HasPrefix(v, "NOTE:")
		return bad, v
	})
	handle := func(label, src string, c c04Config, strict bool) {
		run.Eval()
		v, out := c04Judge(src, c)
		switch {
		case v == "":
			if out != src {
				run.NonTrivial([]byte(c.String()), []byte(src))
			}
			run.Count("compared:" + label)
		case strings.HasPrefix(v, "NOTE:"):
			// everything else agrees; the recorded finding is the only difference
			if !run.KnownSignature(v[5:]) {
				run.Violation(core.Key(c.String(), []byte(src)), fmt.Sprintf("%s [%s]: %s | in=%s | out=%s", c, label, v, core.Trunc(src, 300), core.Trunc(out, 300)), map[string]interface{}{"config": c.String(), "input": src, "output": out})
			}
		case strings.HasPrefix(v, "INVALID-INPUT"):
			if strict {
				run.Inconclusive()
			}
			run.Count("input_not_understood:" + label)
		case strings.HasPrefix(v, "REJECTED"):
			run.Count("minifier_rejected")
		default:
			key := core.Key(c.String(), []byte(src))
			if run.IsKnown(core.Key("*", []byte(src))) {
				key = core.Key("*", []byte(src))
			}
			if sig := c04Signature(v); sig != "" && run.KnownSignature(sig) {
				return
			}
			run.Violation(key, fmt.Sprintf("%s [%s]: %s | in=%s | out=%s", c, label, v, core.Trunc(src, 300), core.Trunc(out, 300)), map[string]interface{}{"config": c.String(), "input": src, "output": out})
		}
	}
	// declarations one at a time (both modes): sharp witnesses
	nDecl := run.N(30000, 800000)
	core.ParallelFor(nDecl, 0, func(i int) {
		r := run.CaseRand("c04decl", i, nDecl/2)
		g := &cssGen{r}
		d := g.declaration()
		c := c04Config{inline: i%2 == 0, css2: i%5 == 0}
		if c.inline {
			handle("declaration", d, c, true)
		} else {
			handle("declaration", "a{"+d+"}", c, true)
		}
	})
	nSheet := run.N(6000, 150000)
	core.ParallelFor(nSheet, 0, func(i int) {
		r := run.CaseRand("c04sheet", i, nSheet/2)
		c := c04Config{css2: i%5 == 0}
		handle("stylesheet", genStylesheet(r), c, true)
	})
	for _, src := range frozenCorpus("css") {
		handle("corpus", src, c04Config{}, false)
		handle("corpus-inline", src, c04Config{inline: true}, false)
	}
	run.Finish("per rule and declaration: evaluate(input) == evaluate(output), where evaluate expands shorthands to longhands with initial values for omitted components and canonicalises numbers (by value), zero lengths, colours (sRGB + alpha), strings, URLs, unicode ranges; custom properties compared as token streams; preludes compared as canonical token streams (attribute-selector quoting, legacy pseudo-element colons, whitespace)",
		[]string{"my tokenizer (CSS Syntax 3) and my value interpreter (CSS 2.1 / Backgrounds 3 / Fonts / Flexbox shorthand rules, CSS Color 4 conversions) are the trusted base", "rules with empty blocks may disappear", "inputs my reader does not understand are counted, not judged"}, 1000, false)
}

// c04Signature maps a failure to a recorded finding id (identified by rewrite site), or "".
func c04Signature(v string) string {
	switch {
	case strings.Contains(v, ": border-color: ") && strings.Contains(v, "-color:initial;"):
		// the recorded finding: currentcolor written as initial; every other side must agree
		if i := strings.Index(v, " means "); i >= 0 {
			parts := strings.SplitN(v[i+7:], " -> ", 2)
			if len(parts) == 2 {
				re := regexp.MustCompile(`(border-[a-z]+-color):([^;]*);`)
				a, b := map[string]string{}, map[string]string{}
				for _, m := range re.FindAllStringSubmatch(parts[0], -1) {
					a[m[1]] = m[2]
				}
				for _, m := range re.FindAllStringSubmatch(parts[1], -1) {
					b[m[1]] = m[2]
				}
				ok := len(a) == 4 && len(b) == 4
				for k, va := range a {
					if vb := b[k]; vb != va && !(va == "currentcolor" && vb == "initial") {
						ok = false
					}
				}
				if ok {
					return "css-border-color-initial-in-list"
				}
			}
		}
	case strings.Contains(v, ": flex: ") || strings.Contains(v, ": flex-basis: "):
		// the recorded finding is only the unit of a zero basis: grow and shrink must agree, both bases be zero
		if i := strings.Index(v, " means "); i >= 0 {
			parts := strings.SplitN(v[i+7:], " -> ", 2)
			if len(parts) == 2 {
				get := func(s, k string) string {
					m := regexp.MustCompile(k + `:([^;]*);`).FindStringSubmatch(s)
					if m == nil {
						return ""
					}
					return m[1]
				}
				zero := func(b string) bool {
					return b != "" && strings.TrimRight(strings.TrimLeft(b, "0"), "%abcdefghijklmnopqrstuvwxyz") == "" && strings.HasPrefix(b, "0")
				}
				a, b := parts[0], parts[1]
				if get(a, "flex-grow") == get(b, "flex-grow") && get(a, "flex-shrink") == get(b, "flex-shrink") && zero(get(a, "flex-basis")) && zero(get(b, "flex-basis")) {
					return "css-flex-zero-basis-unit"
				}
			}
		}
	}
	return ""
}
