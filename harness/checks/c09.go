package checks

// C09 — accepted input yields syntactically valid output that is accepted again.
// Oracle per language: an independent parser accepts the input ⇒ it must accept the
// output; and the same minifier must accept its own output.

import (
	"bytes"
	"fmt"
	"os"
	"path/filepath"
	"regexp"
	"strings"

	stdjson "encoding/json"
	"github.com/tdewolff/minify/v2"
	mcss "github.com/tdewolff/minify/v2/css"
	mhtml "github.com/tdewolff/minify/v2/html"
	mjs "github.com/tdewolff/minify/v2/js"
	mjson "github.com/tdewolff/minify/v2/json"
	msvg "github.com/tdewolff/minify/v2/svg"
	mxml "github.com/tdewolff/minify/v2/xml"
	"verif/harness/core"
)

type c09Lang struct {
	name    string
	mt      string
	corpus  string
	configs []Opts
	cfgName []string
	valid   func(b []byte) (ok bool, why string, inconclusive bool)
}

const c09ModuleMark = "\x00module\x00"

// validJSKind: text of an inline script element; module scripts are parsed as modules, classic ones as scripts only.
func validJSKind(text string) (bool, string, bool) {
	kind := "script"
	if strings.HasPrefix(text, c09ModuleMark) {
		kind, text = "module", strings.TrimPrefix(text, c09ModuleMark)
	}
	v, err := jsSyntax(text, kind, 0, false)
	if err != nil {
		return false, "", true
	}
	if v.Acorn && v.V8 {
		return true, "", false
	}
	return false, kind + ": " + v.Msg, v.Acorn != v.V8
}

func validJS(b []byte) (bool, string, bool) {
	disagree := false
	msg := ""
	for _, kind := range []string{"script", "module"} {
		v, err := jsSyntax(string(b), kind, 0, false)
		if err != nil {
			return false, "", true
		}
		if v.Acorn && v.V8 {
			return true, "", false
		}
		if v.Acorn != v.V8 {
			disagree = true // e.g. V8 rejects f(...[1],{}={}) which the grammar allows
		}
		if kind == "script" {
			msg = v.Msg
		}
	}
	if disagree {
		return false, msg, true // the two parsers disagree: no verdict
	}
	return false, msg, false
}

func validJSON(b []byte) (bool, string, bool) {
	if stdjson.Valid(b) {
		return true, "", false
	}
	return false, "rejected by encoding/json", false
}

func validXML(b []byte) (bool, string, bool) {
	evs, err := xmlTokenize(string(b))
	if err != nil {
		return false, err.Error(), false
	}
	ents := xmlEntities(evs)
	items, err := xmlCanon(evs, ents)
	if err != nil {
		return false, err.Error(), false
	}
	if !attrHasCDEnd(items) {
		if err := stdxmlWellFormed(b, ents); err != nil {
			return false, err.Error(), false
		}
	}
	return true, "", false
}

var piPseudoAttrs = regexp.MustCompile(`^(\s*[A-Za-z_:][-\w:.]*\s*=\s*("[^"<]*"|'[^'<]*'))*\s*$`)

// xmlKnownGuard: admission guards tied to the XML known findings (]]> in character data, PI data that is not pseudo-attributes).
func xmlKnownGuard(b []byte) string {
	evs, err := xmlTokenize(string(b))
	if err != nil {
		return ""
	}
	for _, e := range evs {
		if e.Kind == 'P' && !piPseudoAttrs.MatchString(e.Data) {
			return "xml-pi-data-rewritten"
		}
		if e.Kind == 'D' && doctypeQuotedDelim(e.Data) {
			return "xml-doctype-literal-delimiter"
		}
	}
	items, err := xmlCanon(evs, xmlEntities(evs))
	if err != nil {
		return ""
	}
	return c06Guarded(items)
}

// doctypeQuotedDelim: the dependency's lexer finds the end of a DOCTYPE declaration by tracking double quotes
// only (an apostrophe-quoted literal containing `>`, `[`, `]` or `"` derails it) and its bracket state is a flag,
// not a depth.  True when that rule does not end the declaration where XML ends it (known finding).
func doctypeQuotedDelim(dt string) bool {
	inString, inBrackets := false, false
	for i := 9; i < len(dt); i++ {
		c := dt[i]
		if c == '"' {
			inString = !inString
		} else if (c == '[' || c == ']') && !inString {
			inBrackets = c == '['
		} else if c == '>' && !inString && !inBrackets {
			return i != len(dt)-1
		}
	}
	return true
}

func validCSS(b []byte) (bool, string, bool) {
	if p := scanCSS(string(b)); p != "" {
		return false, p, false
	}
	return true, "", false
}

var jsTypeRe = regexp.MustCompile(`(?i)^\s*(text|application)/(x-)?(java|ecma)script\s*$|^\s*module\s*$`)

// htmlScripts returns the inline JS payloads of a document (scripts without src and with a JS type).
func htmlScripts(sc *htmlScan) []string {
	var out []string
	ri := 0
	for _, t := range sc.Tags {
		if t.End || !htmlRawElems[t.Name] {
			continue
		}
		if ri >= len(sc.RawText) {
			break
		}
		text := sc.RawText[ri].Text
		ri++
		if t.Name != "script" {
			continue
		}
		isJS := true
		module := false
		for _, a := range t.Attrs {
			if a.Name == "type" && !jsTypeRe.MatchString(a.Value) && a.Value != "" {
				isJS = false
			}
			if a.Name == "type" && strings.EqualFold(strings.TrimSpace(a.Value), "module") {
				module = true
			}
			if a.Name == "src" {
				isJS = false
			}
		}
		if isJS && module {
			out = append(out, c09ModuleMark+text) // a module script: parsed with the module goal
		} else if isJS {
			out = append(out, text)
		}
	}
	return out
}

func validHTML(b []byte) (bool, string, bool) {
	sc := scanHTML(string(b))
	if len(sc.Errors) > 0 {
		return false, sc.Errors[0], false
	}
	return true, "", false
}

// known finding js-infinity-assignment-target: `Infinity` as the operand of ++/-- or the target of an assignment is
// printed as (1/0), which is not an assignment target
var c09InfinityTarget = regexp.MustCompile(`(\+\+|--)[\s(]*Infinity\b|\bInfinity[\s)]*(\+\+|--|=[^=]|[-+*/%&|^]=|<<=|>>=|>>>=|\*\*=|&&=|\|\|=|\?\?=|\s+(in|of)\b|[,\]}][^;]*\]?\s*=[^=])`)

var c09AwaitIdent = regexp.MustCompile(`\bawait[ \t]*[\r\n;,)=]`)
var c09SVGStyleAmp = regexp.MustCompile(`(?is)<style\b[^>]*>(?:[^<]|<!\[CDATA\[.*?\]\]>)*&|\bstyle\s*=\s*(?:"[^"]*&|'[^']*&)`)
var c09TypeInnerSpace = regexp.MustCompile(`(?i)type\s*=\s*("[^"]*\S\s+\S[^"]*"|'[^']*\S\s+\S[^']*')`)
var c09ForeignBareAttr = regexp.MustCompile(`(?i)<(math|svg)\b`)
var c09LetIdent = regexp.MustCompile(`\blet\s*(=[^=]|[;,)\].])`)
var c09ElseLexical = regexp.MustCompile(`else\s*\{[^}]*\b(let|const|class)\b`)
var c09IncrExp = regexp.MustCompile(`(\+\+|--)[\w$.\[\]"']+\*\*`)
var c09RegexDash = regexp.MustCompile(`\[[^\]\n]*\\-[^\]\n]*\]`)
var c09CSSCustomFunc = regexp.MustCompile(`--[-\w]*\(`)
var c09ScriptEscape = regexp.MustCompile(`(?i)\\(x3c|u003c|u\{0*3c\}|74|074)\s*/?\s*(/script|!--)|<\\/script|<\\!--`)

func c09Langs() []c09Lang {
	return []c09Lang{
		{name: "js", mt: "application/javascript", corpus: "js", valid: validJS,
			configs: []Opts{{}, {JS: mjs.Minifier{KeepVarNames: true}}, {JS: mjs.Minifier{Version: 2018}}}, cfgName: []string{"default", "keepvarnames", "version2018"}},
		{name: "json", mt: "application/json", corpus: "json", valid: validJSON,
			configs: []Opts{{}, {JSON: mjson.Minifier{KeepNumbers: true}}, {JSON: mjson.Minifier{Precision: 3}}}, cfgName: []string{"default", "keepnumbers", "precision3"}},
		{name: "xml", mt: "text/xml", corpus: "xml", valid: validXML,
			configs: []Opts{{}, {XML: mxml.Minifier{KeepWhitespace: true}}}, cfgName: []string{"default", "keepwhitespace"}},
		{name: "svg", mt: "image/svg+xml", corpus: "svg", valid: validXML,
			configs: []Opts{{}, {SVG: msvg.Minifier{KeepComments: true}}, {SVG: msvg.Minifier{Precision: 3}}}, cfgName: []string{"default", "keepcomments", "precision3"}},
		{name: "css", mt: "text/css", corpus: "css", valid: validCSS,
			configs: []Opts{{}, {CSS: mcss.Minifier{KeepCSS2: true}}, {CSS: mcss.Minifier{Precision: 3}}}, cfgName: []string{"default", "keepcss2", "precision3"}},
		{name: "html", mt: "text/html", corpus: "html", valid: validHTML,
			configs: []Opts{{}, {HTML: mhtml.Minifier{KeepDocumentTags: true, KeepEndTags: true, KeepQuotes: true}}, {HTML: mhtml.Minifier{KeepWhitespace: true, KeepComments: true, KeepDefaultAttrVals: true}}},
			cfgName: []string{"default", "keepdoc+endtags+quotes", "keepws+comments+defaults"}},
	}
}

var mutDict = map[string][]string{
	"js":   {";", "(", ")", "{", "}", "=>", "+ +", "- -", "/*x*/", "//c\n", "`", "'", "\"", "\\", "</script>", "<!--", "-->", "in ", " of ", "?.", "??", "**", "...", "async ", "await ", "yield ", "0x1", "1e3", ".5", "5.", "/re/g", "\n", "static ", "get ", "class A{}", "let ", "var a;", "a?b:c", "!", "~", "typeof ", "void 0", "new ", "this"},
	"json": {"{", "}", "[", "]", ",", ":", "\"", "\\", "1e5", "-0", "0.50", "true", "null", " ", "\n", "1.0E+2", "\\u0041"},
	"xml":  {"<a>", "</a>", "<b/>", "<!--c-->", "<![CDATA[x]]>", "<?pi?>", " a=\"1\"", " b='2'", "&amp;", "&lt;", "&#10;", "&#x3C;", "]]>", " ", "\n", ">", "<", "\"", "'", "="},
	"svg":  {"<g>", "</g>", "<path d=\"M0 0L1 1z\"/>", " fill=\"#ff0000\"", " style=\"fill:red\"", "<!--c-->", "<![CDATA[x]]>", "&amp;", "&#60;", " ", "\n", "M1 1", "z", "a1 1 0 0 1 2 2", "1e-3", "-.5", " xlink:href=\"#a\"", "<style>a{b:c}</style>", "<text> a </text>", " viewBox=\"0 0 1 1\""},
	"css":  {"{", "}", ";", ":", "(", ")", "[", "]", "\"", "'", "/*c*/", "url(x)", "url(\"y\")", "!important", "@media screen{", "#fff", "rgb(1,2,3)", "0px", "1e3", ".5em", "calc(1px + 2%)", "var(--x)", "--x:{a}", ",", ">", "+", "~", "\\", "\n", "\\31 ", "U+0-7F"},
	"html": {"<p>", "</p>", "<div>", "</div>", "<li>", "<td>", "<br>", "<!--c-->", "<script>x=1</script>", "<style>a{b:c}</style>", " class=\"a b\"", " id=x", " title='q'", " href=\"http://a/b\"", " disabled", "&amp;", "&lt;", "&#39;", " ", "\n", "<pre> x </pre>", "<textarea> y </textarea>", "<svg><path d=\"M0 0\"/></svg>", "<b>", "</b>", "<a>", "<span> ", "\"", "'", "=", ">", "<", " src=https", " src=http:", " href=https:", " action=data:", " poster=data:,", " src=//", " src=HTTPS", " cite=http", "<img src=https>"},
}

func mutate(r *core.Rand, lang string, in []byte, other []byte) []byte {
	b := append([]byte{}, in...)
	k := 1 + r.Intn(3)
	for ; k > 0; k-- {
		if len(b) == 0 {
			b = append(b, mutDict[lang][r.Intn(len(mutDict[lang]))]...)
			continue
		}
		pos := r.Intn(len(b))
		switch r.Intn(7) {
		case 0: // delete a span
			e := pos + 1 + r.Intn(8)
			if e > len(b) {
				e = len(b)
			}
			b = append(b[:pos], b[e:]...)
		case 1: // duplicate a span
			e := pos + 1 + r.Intn(16)
			if e > len(b) {
				e = len(b)
			}
			b = append(b[:e], append(append([]byte{}, b[pos:e]...), b[e:]...)...)
		case 2, 3, 4: // insert dictionary token
			tok := mutDict[lang][r.Intn(len(mutDict[lang]))]
			b = append(b[:pos], append([]byte(tok), b[pos:]...)...)
		case 5: // replace a byte
			b[pos] = byte(32 + r.Intn(95))
		default: // splice with another input
			if len(other) > 0 {
				q := r.Intn(len(other))
				e := q + 1 + r.Intn(64)
				if e > len(other) {
					e = len(other)
				}
				b = append(b[:pos], append(append([]byte{}, other[q:e]...), b[pos:]...)...)
			}
		}
	}
	return b
}

func C09(run *core.Run) {
	defer nodePool().Close()
	langs := c09Langs()
	byName := map[string]*c09Lang{}
	for i := range langs {
		byName[langs[i].name] = &langs[i]
	}
	judge := func(l *c09Lang, ci int, in []byte, guarded bool) (verdict string, out []byte) {
		opts := l.configs[ci]
		m := newM(&opts)
		if !guarded {
			goto run
		}
		if l.name == "html" || l.name == "svg" || l.name == "css" {
			if c09ScriptEscape.Match(in) {
				return "GUARD:html-script-close-decoded", nil
			}
		}
		if (l.name == "svg" || l.name == "html") && c09SVGStyleAmp.Match(in) {
			return "GUARD:svg-style-entity", nil
		}
		if l.name == "html" && (c09TypeInnerSpace.Match(in) || c09ForeignBareAttr.Match(in)) {
			return "GUARD:html-exotic-attr", nil
		}
		if (l.name == "js" || l.name == "html") && c09LetIdent.Match(in) {
			return "GUARD:js-let-identifier", nil
		}
		if (l.name == "js" || l.name == "html") && c09InfinityTarget.Match(in) {
			return "GUARD:js-infinity-assignment-target", nil
		}
		if (l.name == "js" || l.name == "html") && c09AwaitIdent.Match(in) {
			return "GUARD:js-await-identifier", nil
		}
		if l.name == "js" && opts.JS.KeepVarNames && c09ElseLexical.Match(in) {
			return "GUARD:js-keepvarnames-else-unscoped", nil
		}
		if (l.name == "js" || l.name == "html") && c09RegexDash.Match(in) {
			return "GUARD:js-regex-class-dash-unescaped", nil
		}
		if (l.name == "css" || l.name == "html" || l.name == "svg") && c09CSSCustomFunc.Match(in) {
			return "GUARD:css-custom-property-function", nil
		}
		if l.name == "xml" || l.name == "svg" {
			if g := xmlKnownGuard(in); g != "" {
				return "GUARD:" + g, nil
			}
		}
	run:
		out, err, pan := minifyBytes(m, l.mt, in)
		if pan != "" {
			return "minifier panicked: " + pan, out
		}
		if err != nil {
			return "REJECTED", out
		}
		okIn, _, inc := l.valid(in)
		if inc {
			return "INCONCLUSIVE", out
		}
		// second pass must always succeed on accepted input
		out2, err2, pan2 := minifyBytes(newM(&opts), l.mt, out)
		_ = out2
		if pan2 != "" {
			return "second pass panicked: " + pan2, out
		}
		if !okIn {
			// the independent parser rejects the input: only the second pass is demanded when the parser accepts the OUTPUT
			if err2 != nil {
				if okOut, _, _ := l.valid(out); okOut {
					return "output is valid for the independent parser but the minifier rejects it on the second pass: " + err2.Error(), out
				}
				return "INCONCLUSIVE", out
			}
			return "INCONCLUSIVE-INPUT", out
		}
		okOut, why, inc := l.valid(out)
		if inc {
			return "INCONCLUSIVE", out
		}
		if !okOut {
			return "independent parser accepts the input but rejects the output: " + why, out
		}
		if err2 != nil {
			return "the minifier rejects its own output on the second pass: " + err2.Error(), out
		}
		if l.name == "html" {
			si, so := htmlScripts(scanHTML(string(in))), htmlScripts(scanHTML(string(out)))
			if len(si) == len(so) {
				for k := range si {
					if strings.TrimSpace(strings.TrimPrefix(si[k], c09ModuleMark)) == "" {
						continue
					}
					if ok, _, inc := validJSKind(si[k]); ok && !inc {
						if ok2, why2, inc2 := validJSKind(so[k]); !ok2 && !inc2 {
							return fmt.Sprintf("inline script %d is valid JS in the input but not in the output: %s", k, why2), out
						}
					}
				}
			} else if len(so) != len(si) {
				// empty scripts may be dropped; anything else changed the element structure
				nonEmpty := 0
				for _, s := range si {
					if strings.TrimSpace(s) != "" {
						nonEmpty++
					}
				}
				if len(so) > len(si) || len(so) < nonEmpty {
					return fmt.Sprintf("number of inline script elements changed from %d to %d", len(si), len(so)), out
				}
			}
		}
		return "", out
	}
	run.ReplayWitnesses(func(f core.Finding, w core.Witness) (bool, string) {
		l := byName[w.Extra["lang"]]
		if l == nil {
			return false, "unknown lang"
		}
		ci := 0
		for i, n := range l.cfgName {
			if n == w.Extra["config"] {
				ci = i
			}
		}
		in := []byte(w.Input)
		if f := w.Extra["file"]; f != "" {
			b, err := os.ReadFile(filepath.Join(repoDir(), f))
			if err != nil {
				return false, "witness file missing"
			}
			in = b
		}
		opts := l.configs[ci]
		out, err, pan := minifyBytes(newM(&opts), l.mt, in)
		if pan != "" {
			return true, pan
		}
		if err != nil {
			return false, "rejected"
		}
		okIn, _, _ := l.valid(in)
		okOut, why, _ := l.valid(out)
		_, err2, _ := minifyBytes(newM(&opts), l.mt, out)
		if okIn && !okOut {
			return true, why
		}
		if err2 != nil && (okIn || okOut) {
			return true, err2.Error()
		}
		if l.name == "html" {
			si, so := htmlScripts(scanHTML(string(in))), htmlScripts(scanHTML(string(out)))
			if len(si) != len(so) {
				return true, "script count"
			}
		}
		return false, ""
	})
	type job struct {
		l       *c09Lang
		ci      int
		label   string
		in      []byte
		guarded bool // random (generated / mutated) inputs pass the admission guards; fixed corpus inputs do not
	}
	var jobs []job
	perFile := run.N(6, 120)
	for li := range langs {
		l := &langs[li]
		var pool []corpusFile
		for i, s := range frozenCorpus(l.corpus) {
			pool = append(pool, corpusFile{fmt.Sprintf("test-table#%d", i), []byte(s)})
		}
		if l.name == "svg" {
			for i, s := range frozenCorpus("path") {
				pool = append(pool, corpusFile{fmt.Sprintf("path-table#%d", i), []byte(`<svg xmlns="http://www.w3.org/2000/svg"><path d="` + s + `"/></svg>`)})
			}
		}
		for i, s := range smallInputs[l.mt] {
			pool = append(pool, corpusFile{fmt.Sprintf("small#%d", i), []byte(s)})
		}
		if l.name == "css" {
			// quote-kind twins: every pooled sheet that uses only double quotes, rewritten with apostrophes (rewrites that
			// rebuild a string have to keep the delimiter they found; the test tables spell nearly everything with `"`)
			for _, f := range append([]corpusFile{}, pool...) {
				// the declaration lists of the inline test table, as the body of a rule
				if bytes.IndexByte(f.Data, '{') < 0 && bytes.IndexByte(f.Data, '}') < 0 && bytes.IndexByte(f.Data, ':') > 0 && f.Data[0] != '@' {
					pool = append(pool, corpusFile{"rule(" + f.Name + ")", append(append([]byte("a{"), f.Data...), '}')})
				}
			}
			for _, f := range append([]corpusFile{}, pool...) {
				if bytes.IndexByte(f.Data, '"') >= 0 && bytes.IndexByte(f.Data, '\'') < 0 && bytes.IndexByte(f.Data, '\\') < 0 {
					pool = append(pool, corpusFile{"apostrophes(" + f.Name + ")", bytes.ReplaceAll(f.Data, []byte{'"'}, []byte{'\''})})
				}
			}
		}
		big := repoCorpus(l.mt, 4<<20)
		// generated inputs
		ng := run.N(150, 4000)
		for i := 0; i < ng; i++ {
			r := run.CaseRand("gen-"+l.name, i, ng/2)
			switch l.name {
			case "js":
				src, _ := genJSProgram(r)
				pool = append(pool, corpusFile{fmt.Sprintf("gen#%d", i), []byte(src)})
			case "json":
				pool = append(pool, corpusFile{fmt.Sprintf("gen#%d", i), genJSONText(r)})
			case "xml":
				pool = append(pool, corpusFile{fmt.Sprintf("gen#%d", i), []byte(genXMLDoc(r, map[string]int{}))})
			}
		}
		if l.name == "json" {
			// every JSON number lexeme of up to six characters over a small alphabet, 40 to a document
			var nums [][]byte
			enumLexemes(6, func(lex []byte) {
				if isJSONNumber(lex) {
					nums = append(nums, append([]byte{}, lex...))
				}
			})
			for i := 0; i < len(nums); i += 40 {
				end := i + 40
				if end > len(nums) {
					end = len(nums)
				}
				doc := append([]byte("["), bytes.Join(nums[i:end], []byte(","))...)
				pool = append(pool, corpusFile{fmt.Sprintf("numbers#%d", i/40), append(doc, ']')})
			}
		}
		for ci := range l.configs {
			for _, f := range pool {
				jobs = append(jobs, job{l, ci, f.Name, f.Data, strings.HasPrefix(f.Name, "gen#")})
			}
			for _, f := range big {
				jobs = append(jobs, job{l, ci, f.Name, f.Data, false})
			}
		}
		// mutations and splices
		all := append(append([]corpusFile{}, pool...), big...)
		for fi, f := range all {
			if len(f.Data) > 200<<10 || l.name == "css" {
				continue // CSS: a mutated style sheet is almost never conforming and CSS has no notion of invalid input; mutations are left to C10
			}
			k := perFile
			if len(f.Data) > 20<<10 {
				k = 1 + perFile/6
			}
			for j := 0; j < k; j++ {
				r := run.CaseRand("mut-"+l.name, fi*1000+j, 1<<30)
				if j >= k*3/5 {
					r = core.Stream(uint64(run.Seed), "c09mut", l.name, fmt.Sprint(fi), fmt.Sprint(j))
				}
				other := all[r.Intn(len(all))].Data
				jobs = append(jobs, job{l, r.Intn(len(l.configs)), fmt.Sprintf("mut(%s)#%d", f.Name, j), mutate(r, l.name, f.Data, other), true})
			}
		}
	}
	perLang := map[string]int{}
	for _, j := range jobs {
		perLang[j.l.name]++
	}
	run.Set("cases_per_language", perLang)
	core.ParallelFor(len(jobs), 24, func(i int) {
		j := jobs[i]
		run.Eval()
		cfg := j.l.name + " " + j.l.cfgName[j.ci]
		v, out := judge(j.l, j.ci, j.in, j.guarded)
		switch {
		case v == "":
			if !bytes.Equal(out, j.in) {
				run.NonTrivial([]byte(cfg), j.in)
			}
		case v == "REJECTED":
			run.Count("minifier_rejected")
		case v == "INCONCLUSIVE":
			run.Inconclusive()
		case v == "INCONCLUSIVE-INPUT":
			run.Count("input_rejected_by_independent_parser_second_pass_ok")
		case strings.HasPrefix(v, "GUARD:"):
			run.Count("guarded_out:" + v[6:])
		default:
			if (j.l.name == "js" || j.l.name == "html") && strings.Contains(v, "Optional chaining cannot appear in the tag of tagged template") && run.KnownSignature("js-optional-chain-tagged-template") {
				return
			}
			if (j.l.name == "js" || j.l.name == "html") && (strings.Contains(v, "Bad escape sequence in untagged template") || strings.Contains(v, "Octal literal in strict mode")) && run.KnownSignature("js-escape-digit-adjacency") {
				return
			}
			if j.l.name == "js" && strings.Contains(v, "second pass: unexpected ** in expression") && c09IncrExp.Match(out) && run.KnownSignature("js-exp-after-prefix-increment-second-pass") {
				return
			}
			// three families that byte-level mutations of programs keep reaching (open findings, by signature: the
			// independent parser's message together with the construct in the input and its trace in the output)
			if (j.l.name == "js" || j.l.name == "html") && strings.Contains(v, "Unexpected token") && c09EmptyPatternDecl.Match(j.in) && bytes.Contains(out, []byte("{}=")) && run.KnownSignature("js-empty-pattern-declaration-hoisted") {
				return
			}
			if (j.l.name == "js" || j.l.name == "html") && strings.Contains(v, "Unary operator used immediately before exponentiation") && c09BangBeforeExp.Match(out) && run.KnownSignature("js-bang-prefix-before-exponent") {
				return
			}
			if (j.l.name == "js" || j.l.name == "html") && c09AwaitOutsideAsync(j.in) && bytes.Contains(out, []byte("await")) && strings.Contains(v, "rejects the output") && run.KnownSignature("js-await-identifier") {
				return // `await` used as an identifier in script code (outside every async function of the input)
			}
			if (j.l.name == "js" || j.l.name == "html") && c09LetStarStar.Match(j.in) && run.KnownSignature("js-let-identifier") {
				return
			}
			if j.l.name == "html" && c09ScriptCloseSplit.Match(j.in) && run.KnownSignature("html-script-close-created-by-string-merge") {
				return
			}
			key := core.Key(cfg, j.in)
			if run.IsKnown(core.Key("*", j.in)) {
				key = core.Key("*", j.in)
			}
			run.Violation(key, fmt.Sprintf("%s [%s]: %s | in=%s | out=%s", cfg, j.label, v, core.Trunc(string(j.in), 200), core.Trunc(string(out), 200)),
				map[string]interface{}{"lang": j.l.name, "config": j.l.cfgName[j.ci], "source": j.label, "input": core.Trunc(string(j.in), 200000), "output": core.Trunc(string(out), 4000)})
		}
	})
	run.Sample(map[string]string{"lang": "html", "source": "mut(test-table)", "input": core.Trunc(string(jobs[len(jobs)-1].in), 300)})
	run.Sample(map[string]string{"lang": "js", "source": jobs[0].label, "input": core.Trunc(string(jobs[0].in), 300)})
	run.Finish("per language (js, json, xml, svg, css, html): the frozen test-table inputs, hand-written inputs, repository fuzz corpora and benchmark documents (whole, up to 4 MB), generated programs/texts/documents, and seeded byte-level mutations and splices of all of those (dictionary of hostile tokens per language); default and non-default option sets; a case is (language, options, input); non-trivial = accepted by the minifier and by the independent parser, and changed by the minifier",
		[]string{"independent parsers: acorn + V8 (JS), encoding/json, my XML tokenizer + encoding/xml (XML/SVG), my HTML tag-level scanner + acorn/V8 for inline scripts (HTML), my CSS lexical scanner (CSS)",
			"when the independent parser rejects the input, only the second pass is demanded (and only if the parser accepts the output)",
			"guard: inputs containing an escaped `<` directly before /script or !-- (\\x3C/script) are not admitted (known finding html-script-close-decoded)"}, 500, false)
}

var (
	c09EmptyPatternDecl = regexp.MustCompile(`\b(var|let|const)\s*\{\s*\}\s*=`)
	c09LetStarStar      = regexp.MustCompile(`\blet\s*\*\*|\(\s*let\s*\[`) // `let` used as an identifier in front of ** or indexed inside parentheses
	c09ScriptCloseSplit = regexp.MustCompile(`(?i)</scr["']\s*\+\s*["']ipt`)
	c09BangBeforeExp    = regexp.MustCompile(`!(class|function)\b[^;]*\*\*`)
)

// c09AwaitOutsideAsync: the text has an `await` that does not sit inside the braces of an async function or
// arrow (a rough scan: braces are counted without regard to strings; it only serves to name a known family).
func c09AwaitOutsideAsync(in []byte) bool {
	b := append([]byte{}, in...)
	for {
		i := bytes.Index(b, []byte("async"))
		if i < 0 {
			break
		}
		j := bytes.IndexByte(b[i:], '{')
		if j < 0 {
			copy(b[i:], "_____")
			continue
		}
		k, depth := i+j, 0
		for ; k < len(b); k++ {
			if b[k] == '{' {
				depth++
			} else if b[k] == '}' {
				depth--
				if depth == 0 {
					break
				}
			}
		}
		if k >= len(b) {
			k = len(b) - 1
		}
		for x := i; x <= k; x++ {
			b[x] = '_'
		}
	}
	return regexp.MustCompile(`\bawait\b`).Match(b)
}

var _ = minify.ErrNotExist
