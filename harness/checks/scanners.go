package checks

// Small independent scanners used as validity oracles: an HTML tag-level scanner
// (WHATWG tokenizer states, parse errors only) and a CSS lexical scanner.

import (
	"fmt"
	"strings"
)

type htmlTagInfo struct {
	Name   string
	End    bool
	Attrs  []htmlRawAttr
	Pos    int
	SelfCl bool
}

type htmlRawAttr struct {
	Name   string
	Value  string // raw, without quotes
	Quote  byte   // 0 unquoted, '"' or '\''
	HasVal bool
}

type htmlScan struct {
	Errors   []string
	Tags     []htmlTagInfo
	Comments []string
	RawText  []struct{ Name, Text string }
}

func isHTMLSpace(c byte) bool { return c == ' ' || c == '\t' || c == '\n' || c == '\f' || c == '\r' }
func isASCIIAlpha(c byte) bool {
	return c >= 'a' && c <= 'z' || c >= 'A' && c <= 'Z'
}

var htmlRawElems = map[string]bool{"script": true, "style": true, "textarea": true, "title": true, "xmp": true, "iframe": true, "noembed": true, "noframes": true}

// scanHTML reports tag-level parse errors the tree builder would silently repair.
func scanHTML(s string) *htmlScan {
	r := &htmlScan{}
	errf := func(pos int, f string, a ...interface{}) {
		if len(r.Errors) < 20 {
			r.Errors = append(r.Errors, fmt.Sprintf("%d: ", pos)+fmt.Sprintf(f, a...))
		}
	}
	i, n := 0, len(s)
	for i < n {
		if s[i] != '<' {
			i++
			continue
		}
		if strings.HasPrefix(s[i:], "<!--") {
			e := strings.Index(s[i+4:], "-->")
			if e < 0 {
				// also closed by --!> or EOF
				errf(i, "eof-in-comment")
				r.Comments = append(r.Comments, s[i+4:])
				return r
			}
			r.Comments = append(r.Comments, s[i+4:i+4+e])
			i += 4 + e + 3
			continue
		}
		if i+1 < n && (s[i+1] == '!' || s[i+1] == '?') {
			up := strings.ToUpper(s[i:min(n, i+9)])
			if s[i+1] == '?' {
				errf(i, "unexpected-question-mark-instead-of-tag-name")
			} else if !strings.HasPrefix(up, "<!DOCTYPE") && !strings.HasPrefix(up, "<![CDATA[") {
				errf(i, "incorrectly-opened-comment")
			}
			e := strings.IndexByte(s[i:], '>')
			if e < 0 {
				return r
			}
			i += e + 1
			continue
		}
		end := false
		j := i + 1
		if j < n && s[j] == '/' {
			end = true
			j++
		}
		if j >= n || !isASCIIAlpha(s[j]) {
			errf(i, "invalid-first-character-of-tag-name")
			i++
			continue // '<' as text
		}
		st := j
		for j < n && !isHTMLSpace(s[j]) && s[j] != '/' && s[j] != '>' {
			j++
		}
		tag := htmlTagInfo{Name: strings.ToLower(s[st:j]), End: end, Pos: i}
		seen := map[string]bool{}
		// attributes
		for {
			for j < n && (isHTMLSpace(s[j]) || s[j] == '/') {
				if s[j] == '/' {
					if j+1 < n && s[j+1] == '>' {
						tag.SelfCl = true
					} else {
						errf(j, "unexpected-solidus-in-tag <%s", tag.Name)
					}
				}
				j++
			}
			if j >= n {
				errf(i, "eof-in-tag <%s", tag.Name)
				r.Tags = append(r.Tags, tag)
				return r
			}
			if s[j] == '>' {
				j++
				break
			}
			as := j
			if s[j] == '=' {
				errf(j, "unexpected-equals-sign-before-attribute-name in <%s>", tag.Name)
				j++
			}
			for j < n && !isHTMLSpace(s[j]) && s[j] != '/' && s[j] != '>' && s[j] != '=' {
				if s[j] == '"' || s[j] == '\'' || s[j] == '<' {
					errf(j, "unexpected-character-in-attribute-name %q in <%s>", s[j], tag.Name)
				}
				j++
			}
			a := htmlRawAttr{Name: strings.ToLower(s[as:j])}
			for j < n && isHTMLSpace(s[j]) {
				j++
			}
			if j < n && s[j] == '=' {
				j++
				for j < n && isHTMLSpace(s[j]) {
					j++
				}
				a.HasVal = true
				if j < n && (s[j] == '"' || s[j] == '\'') {
					q := s[j]
					e := strings.IndexByte(s[j+1:], q)
					if e < 0 {
						errf(j, "eof-in-attribute-value of %s in <%s>", a.Name, tag.Name)
						r.Tags = append(r.Tags, tag)
						return r
					}
					a.Quote = q
					a.Value = s[j+1 : j+1+e]
					j += e + 2
					if j < n && !isHTMLSpace(s[j]) && s[j] != '/' && s[j] != '>' {
						errf(j, "missing-whitespace-between-attributes after %s in <%s>", a.Name, tag.Name)
					}
				} else if j < n && s[j] == '>' {
					errf(j, "missing-attribute-value of %s in <%s>", a.Name, tag.Name)
				} else {
					vs := j
					for j < n && !isHTMLSpace(s[j]) && s[j] != '>' {
						if s[j] == '"' || s[j] == '\'' || s[j] == '<' || s[j] == '=' || s[j] == '`' {
							errf(j, "unexpected-character-in-unquoted-attribute-value %q of %s in <%s>", s[j], a.Name, tag.Name)
						}
						j++
					}
					a.Value = s[vs:j]
				}
			}
			if seen[a.Name] {
				errf(as, "duplicate-attribute %s in <%s>", a.Name, tag.Name)
			}
			seen[a.Name] = true
			if end {
				errf(as, "end-tag-with-attributes </%s>", tag.Name)
			}
			tag.Attrs = append(tag.Attrs, a)
		}
		r.Tags = append(r.Tags, tag)
		i = j
		if !end && htmlRawElems[tag.Name] {
			// skip raw text up to the matching end tag
			low := strings.ToLower(s[i:])
			k := 0
			for {
				e := strings.Index(low[k:], "</"+tag.Name)
				if e < 0 {
					errf(i, "eof-in-%s-content", tag.Name) // the element is never closed (tree construction parse error)
					r.RawText = append(r.RawText, struct{ Name, Text string }{tag.Name, s[i:]})
					return r
				}
				p := k + e + 2 + len(tag.Name)
				if p >= len(low) || isHTMLSpace(low[p]) || low[p] == '/' || low[p] == '>' {
					r.RawText = append(r.RawText, struct{ Name, Text string }{tag.Name, s[i : i+k+e]})
					i += k + e
					break
				}
				k = p
			}
		}
	}
	return r
}

// scanCSS: lexical sanity of a stylesheet — returns "" or the first problem:
// unterminated string / comment / url, or unbalanced brackets.
func scanCSS(s string) string {
	var stack []byte
	i, n := 0, len(s)
	for i < n {
		c := s[i]
		switch {
		case c == '/' && i+1 < n && s[i+1] == '*':
			e := strings.Index(s[i+2:], "*/")
			if e < 0 {
				return "unterminated comment"
			}
			i += e + 4
			continue
		case c == '"' || c == '\'':
			j := i + 1
			for {
				if j >= n {
					return "unterminated string"
				}
				if s[j] == '\\' {
					j += 2
					continue
				}
				if s[j] == '\n' {
					return "newline in string (bad-string)"
				}
				if s[j] == c {
					break
				}
				j++
			}
			i = j + 1
			continue
		case c == '\\':
			i += 2
			continue
		case (c == 'u' || c == 'U') && i+3 < n && strings.EqualFold(s[i:i+4], "url(") && (i == 0 || !isNameByte(s[i-1])):
			// unquoted url: up to ')'; quoted handled by string rule
			j := i + 4
			for j < n && isHTMLSpace(s[j]) {
				j++
			}
			if j < n && (s[j] == '"' || s[j] == '\'') {
				stack = append(stack, ')')
				i = j
				continue
			}
			for j < n && s[j] != ')' {
				if s[j] == '\\' {
					j++
				} else if s[j] == '"' || s[j] == '\'' || s[j] == '(' {
					return "bad-url"
				}
				j++
			}
			if j >= n {
				return "unterminated url"
			}
			i = j + 1
			continue
		case c == '(' || c == '[' || c == '{':
			stack = append(stack, map[byte]byte{'(': ')', '[': ']', '{': '}'}[c])
		case c == ')' || c == ']' || c == '}':
			if len(stack) == 0 || stack[len(stack)-1] != c {
				return fmt.Sprintf("unbalanced %q at %d", c, i)
			}
			stack = stack[:len(stack)-1]
		}
		i++
	}
	if len(stack) > 0 {
		return fmt.Sprintf("unclosed %q", stack[len(stack)-1])
	}
	return ""
}
