package checks

// C12 — every entry point gives the same bytes for any chunking of the stream.
// Monitors: byte equality with the plain call; a logical-clock event log
// (producer writes, destination writes, minifier return, Close) checked offline;
// HTTP header oracle; race-detector child.

import (
	"bytes"
	"errors"
	"fmt"
	"io"
	"mime"
	"net/http"
	"net/http/httptest"
	"regexp"
	"runtime"
	"strings"
	"sync"
	"sync/atomic"
	"time"

	"github.com/tdewolff/minify/v2"
	"verif/harness/core"
)

// ---------------- chunked reader / paced consumer

type chunkReader struct {
	data        []byte
	cuts        []int // chunk end offsets (ascending, last = len)
	idx         int
	pos         int
	eofWithLast bool
	stutter     bool
	stutterDone bool
	delay       func()
}

func (c *chunkReader) Read(p []byte) (int, error) {
	if c.delay != nil {
		c.delay()
	}
	if len(p) == 0 {
		return 0, nil
	}
	if c.pos >= len(c.data) {
		return 0, io.EOF
	}
	if c.stutter && !c.stutterDone && c.idx == 1 {
		c.stutterDone = true
		return 0, nil
	}
	end := len(c.data)
	if c.idx < len(c.cuts) {
		end = c.cuts[c.idx]
	}
	if end <= c.pos { // empty chunk
		c.idx++
		return 0, nil
	}
	n := end - c.pos
	if n > len(p) {
		n = len(p)
	} else {
		c.idx++
	}
	copy(p, c.data[c.pos:c.pos+n])
	c.pos += n
	if c.pos >= len(c.data) && c.eofWithLast {
		return n, io.EOF
	}
	return n, nil
}

func cutsFromMask(n int, mask uint32) []int {
	var cuts []int
	for i := 1; i < n; i++ {
		if mask&(1<<uint(i-1)) != 0 {
			cuts = append(cuts, i)
		}
	}
	return append(cuts, n)
}

// ---------------- event log

type evKind int

const (
	evWCall evKind = iota
	evWRet
	evDest
	evMRet
	evCloseCall
	evCloseRet
)

type ev struct {
	k   evKind
	err error
	n   int
}

type evLog struct {
	mu  sync.Mutex
	evs []ev
}

func (l *evLog) add(e ev) {
	l.mu.Lock()
	l.evs = append(l.evs, e)
	l.mu.Unlock()
}

type loggingDest struct {
	log   *evLog
	buf   bytes.Buffer
	delay func()
}

func (d *loggingDest) Write(p []byte) (int, error) {
	if d.delay != nil {
		d.delay()
	}
	d.log.add(ev{k: evDest, n: len(p)})
	return d.buf.Write(p)
}

// checkWriterLog verifies the ordering contract of the writer wrapper.
func checkWriterLog(evs []ev) string {
	closeRet := -1
	for i, e := range evs {
		if e.k == evCloseRet {
			closeRet = i
			break
		}
	}
	if closeRet < 0 {
		return "Close did not return"
	}
	var mret *ev
	for i, e := range evs {
		e := e
		switch e.k {
		case evDest:
			if i > closeRet {
				return "a destination write happened after Close returned"
			}
		case evMRet:
			if i > closeRet {
				return "the minifier returned after Close returned"
			}
			mret = &e
		}
	}
	if mret == nil {
		return "the minifier never returned before Close returned"
	}
	if !errors.Is(evs[closeRet].err, mret.err) && !(mret.err == nil && evs[closeRet].err == nil) {
		return fmt.Sprintf("Close returned %v but the minifier returned %v", evs[closeRet].err, mret.err)
	}
	return ""
}

func interleavingSig(evs []ev) string {
	var sb strings.Builder
	for _, e := range evs {
		sb.WriteByte("wrDMcC"[e.k])
	}
	return sb.String()
}

// ---------------- registry with delaying wrappers

var errC12Minifier = errors.New("c12 injected minifier failure")

type c12Env struct {
	m         *minify.M
	log       *evLog
	delay     func() // seeded schedule perturbation
	failAfter int32  // if >0: wrapped minifier fails after delegating
}

func newC12Env(delay func()) *c12Env {
	e := &c12Env{log: &evLog{}, delay: delay}
	base := newM(nil)
	m := newM(nil)
	for _, mt := range sixTypes {
		mt := mt
		m.AddFunc("test/"+strings.NewReplacer("/", "-", "+", "-").Replace(mt), func(_ *minify.M, w io.Writer, r io.Reader, params map[string]string) error {
			if e.delay != nil {
				e.delay() // before it starts reading
			}
			err := base.Minify(mt, w, r)
			if err == nil && atomic.LoadInt32(&e.failAfter) > 0 {
				err = errC12Minifier
			}
			if e.delay != nil {
				e.delay() // just before it returns
			}
			e.log.add(ev{k: evMRet, err: err})
			return err
		})
	}
	e.m = m
	return e
}

func testType(mt string) string { return "test/" + strings.NewReplacer("/", "-", "+", "-").Replace(mt) }

func seededDelay(r *core.Rand, mu *sync.Mutex) func() {
	calls := 0
	return func() {
		mu.Lock()
		k := r.Intn(10)
		calls++
		if calls > 400 {
			k = 0 // a megabyte read one byte at a time: the first few hundred boundaries get the jitter, the rest run at full speed
		}
		mu.Unlock()
		switch {
		case k < 5:
		case k < 8:
			runtime.Gosched()
		default:
			time.Sleep(time.Duration(k-7) * 300 * time.Microsecond)
		}
	}
}

type c12Input struct {
	mt     string
	name   string
	data   []byte
	ref    []byte
	refErr error
}

func c12Inputs(run *core.Run, short bool) []c12Input {
	m := newM(nil)
	var ins []c12Input
	shorts := map[string][]string{
		"text/html":              {"<p>a <b>b</b>", "<a b=c>d</a>x", "<i> é </i>"},
		"text/css":               {"a{b:c}", "a{b:1px}", "a{b:é}"},
		"application/javascript": {"a=1;b=2", "x=(1+2)", "a='é'"},
		"application/json":       {"[1, 2.0]", "{\"a\":1}", "\"é\""},
		"image/svg+xml":          {"<svg/>", "<svg>a</svg>"},
		"text/xml":               {"<a> b </a>", "<a b='c'/>"},
	}
	for _, mt := range sixTypes {
		if short {
			for i, s := range shorts[mt] {
				ins = append(ins, c12Input{mt: mt, name: fmt.Sprintf("short:%s#%d", mt, i), data: []byte(s)})
			}
			continue
		}
		for i, s := range smallInputs[mt] {
			ins = append(ins, c12Input{mt: mt, name: fmt.Sprintf("small:%s#%d", mt, i), data: []byte(s)})
		}
		for _, f := range repoCorpus(mt, run.N(20000, 1<<20)) {
			ins = append(ins, c12Input{mt: mt, name: f.Name, data: f.Data})
		}
	}
	for i := range ins {
		out, err, pan := minifyBytes(m, ins[i].mt, ins[i].data)
		if pan != "" {
			err = errors.New("panic " + pan)
		}
		ins[i].ref, ins[i].refErr = out, err
	}
	return ins
}

// one run through an entry point; returns bytes, error, and a description of a contract violation (or "")
func c12RunEntry(env *c12Env, entry string, in c12Input, cuts []int, bufSize int, opts int) (out []byte, err error, bad string) {
	defer func() {
		if r := recover(); r != nil {
			bad = fmt.Sprintf("panic: %v", r)
		}
	}()
	mt := in.mt
	switch entry {
	case "reader":
		cr := &chunkReader{data: in.data, cuts: cuts, eofWithLast: opts&1 != 0, stutter: opts&2 != 0, delay: env.delay}
		rd := env.m.Reader(testType(mt), cr)
		var buf bytes.Buffer
		p := make([]byte, bufSize)
		for {
			n, e := rd.Read(p)
			buf.Write(p[:n])
			if env.delay != nil {
				env.delay()
			}
			if e == io.EOF {
				break
			}
			if e != nil {
				return buf.Bytes(), e, ""
			}
		}
		return buf.Bytes(), nil, ""
	case "writer":
		env.log = &evLog{}
		dst := &loggingDest{log: env.log, delay: env.delay}
		wc := env.m.Writer(testType(mt), dst)
		pos := 0
		var werr error
		for _, c := range cuts {
			env.log.add(ev{k: evWCall})
			_, e := wc.Write(in.data[pos:c])
			env.log.add(ev{k: evWRet, err: e})
			pos = c
			if e != nil {
				werr = e
				break
			}
			if env.delay != nil {
				env.delay()
			}
		}
		env.log.add(ev{k: evCloseCall})
		cerr := wc.Close()
		env.log.add(ev{k: evCloseRet, err: cerr})
		evs := append([]ev{}, env.log.evs...)
		if s := checkWriterLog(evs); s != "" {
			return dst.buf.Bytes(), cerr, s + " [" + interleavingSig(evs) + "]"
		}
		// a second Close returns nil
		if e2 := wc.Close(); e2 != nil {
			return dst.buf.Bytes(), cerr, "second Close returned " + e2.Error()
		}
		if cerr == nil {
			cerr = werr
		}
		return dst.buf.Bytes(), cerr, interleavingSig(evs)
	case "bytes":
		b, e := env.m.Bytes(mt, append([]byte{}, in.data...))
		return b, e, ""
	case "string":
		s, e := env.m.String(mt, string(in.data))
		return []byte(s), e, ""
	}
	return nil, nil, "unknown entry"
}

// ---------------- HTTP

type headerSnapshotRW struct {
	hdr     http.Header
	buf     bytes.Buffer
	atFirst http.Header // header map at the moment of the first body byte
	status  int
}

func (h *headerSnapshotRW) Header() http.Header { return h.hdr }
func (h *headerSnapshotRW) WriteHeader(s int) {
	if h.status == 0 {
		h.status = s
		h.atFirst = h.hdr.Clone()
	}
}

// Flush: like net/http's response writer, flushing commits the headers
func (h *headerSnapshotRW) Flush() {
	if h.status == 0 {
		h.WriteHeader(200)
	}
}
func (h *headerSnapshotRW) Write(p []byte) (int, error) {
	if h.status == 0 {
		h.WriteHeader(200) // what net/http does implicitly
	}
	return h.buf.Write(p)
}

type c12HTTPCase struct {
	target          string
	contentType     string // "" = not set
	setLength       bool
	flushFirst      bool // the handler flushes (if the writer it got can) before its first Write
	reuseBuffer     bool // the handler writes every chunk from one buffer that it refills after each Write (as io.Copy does)
	callWriteHeader bool
	chunks          int
	mw              string // "ResponseWriter" | "Middleware" | "MiddlewareWithError"
	in              c12Input
}

func (c c12HTTPCase) String() string {
	return fmt.Sprintf("%s target=%q content-type=%q content-length=%v writeheader=%v flush=%v reuse=%v chunks=%d input=%s", c.mw, c.target, c.contentType, c.setLength, c.callWriteHeader, c.flushFirst, c.reuseBuffer, c.chunks, c.in.name)
}

// expected media type per the documented rule: Content-Type, else extension of the request path
func c12ExpectedType(c c12HTTPCase) string {
	if c.contentType != "" {
		return c.contentType
	}
	p := c.target
	if i := strings.IndexAny(p, "?#"); i >= 0 {
		p = p[:i]
	}
	// the type the platform registers for the extension (the standard library's table: case-insensitive, knows
	// .htm and .mjs as well)
	if i := strings.LastIndexByte(p, '.'); i >= 0 && !strings.Contains(p[i:], "/") {
		return mime.TypeByExtension(p[i:])
	}
	return ""
}

func c12RunHTTP(m *minify.M, c c12HTTPCase) string {
	handler := http.HandlerFunc(func(w http.ResponseWriter, r *http.Request) {
		if c.contentType != "" {
			w.Header().Set("Content-Type", c.contentType)
		}
		if c.setLength {
			w.Header().Set("Content-Length", fmt.Sprint(len(c.in.data)))
		}
		if c.callWriteHeader {
			w.WriteHeader(200)
		}
		if f, ok := w.(http.Flusher); ok && c.flushFirst {
			f.Flush()
		}
		n := c.chunks
		if n < 1 {
			n = 1
		}
		step := (len(c.in.data) + n - 1) / n
		if step == 0 {
			step = 1
		}
		var buf []byte
		if c.reuseBuffer {
			buf = make([]byte, step)
		}
		for p := 0; p < len(c.in.data); p += step {
			e := p + step
			if e > len(c.in.data) {
				e = len(c.in.data)
			}
			if c.reuseBuffer {
				// Write must not keep the slice: once it has returned the buffer belongs to the handler again
				n := copy(buf, c.in.data[p:e])
				w.Write(buf[:n])
				for i := range buf {
					buf[i] = '#'
				}
				continue
			}
			w.Write(c.in.data[p:e])
		}
	})
	req := httptest.NewRequest("GET", "http://example.com"+c.target, nil)
	rw := &headerSnapshotRW{hdr: http.Header{}}
	var gotErr error
	switch c.mw {
	case "ResponseWriter":
		mw := m.ResponseWriter(rw, req)
		handler.ServeHTTP(mw, req)
		gotErr = mw.Close()
	case "Middleware":
		m.Middleware(handler).ServeHTTP(rw, req)
	case "MiddlewareWithError":
		m.MiddlewareWithError(handler, func(w http.ResponseWriter, r *http.Request, err error) { gotErr = err }).ServeHTTP(rw, req)
	}
	want := c.in.data
	expType := c12ExpectedType(c)
	minified := false
	if expType != "" {
		ref, err, _ := minifyBytes(m, expType, c.in.data)
		if err == nil {
			want = ref
			minified = true
		} else if errors.Is(err, minify.ErrNotExist) {
			want = c.in.data
		} else {
			// minifier fails: the error must surface (where the API can), bytes are unspecified
			if c.mw != "Middleware" && gotErr == nil {
				return "the minifier fails on this body but Close/errorFunc reported no error"
			}
			return ""
		}
	}
	if !bytes.Equal(rw.buf.Bytes(), want) {
		return fmt.Sprintf("body differs from the plain call for type %q (minified expected: %v): got %q want %q", expType, minified, core.Trunc(rw.buf.String(), 80), core.Trunc(string(want), 80))
	}
	if minified && len(c.in.data) > 0 {
		final := rw.atFirst
		if final == nil {
			final = rw.hdr
		}
		if cl := final.Get("Content-Length"); cl != "" && !bytes.Equal(want, c.in.data) {
			return fmt.Sprintf("stale Content-Length %s sent with a minified body of %d bytes", cl, len(want))
		}
	}
	return ""
}

func C12(run *core.Run) {
	// 1. exhaustive chunkings of short inputs through Reader and Writer
	shorts := c12Inputs(run, true)
	maxN := run.N(10, 14)
	var sigMu sync.Mutex
	sigs := map[string]struct{}{}
	report := func(cfg string, in c12Input, what string) {
		run.Violation(core.Key(cfg, in.data), cfg+" ["+in.name+"]: "+what, map[string]interface{}{"case": cfg, "source": in.name, "input": core.Trunc(string(in.data), 2000)})
	}
	type job struct {
		in    c12Input
		entry string
		cuts  []int
		buf   int
		opts  int
		seed  uint64
		cfg   string
	}
	var jobs []job
	for _, in := range shorts {
		n := len(in.data)
		if n > maxN {
			continue
		}
		for mask := uint32(0); mask < 1<<uint(n-1); mask++ {
			cuts := cutsFromMask(n, mask)
			// with an empty chunk inserted at a seeded position
			withEmpty := append([]int{}, cuts...)
			k := int(mask) % len(withEmpty)
			withEmpty = append(withEmpty[:k+1], withEmpty[k:]...)
			for _, cs := range [][]int{cuts, withEmpty} {
				jobs = append(jobs, job{in, "reader", cs, 1 + int(mask)%7, int(mask) % 4, uint64(mask), ""})
				jobs = append(jobs, job{in, "writer", cs, 0, 0, uint64(mask), ""})
			}
		}
	}
	exhaustive := len(jobs)
	// 2. random chunkings of longer inputs
	longs := c12Inputs(run, false)
	nr := run.N(1500, 30000)
	for i := 0; i < nr; i++ {
		r := run.CaseRand("chunk", i, nr*3/5)
		in := longs[r.Intn(len(longs))]
		n := len(in.data)
		var cuts []int
		pos := 0
		for pos < n {
			var step int
			switch r.Intn(6) {
			case 0:
				step = 1
			case 1:
				step = 0 // empty chunk
			case 2:
				step = 4096 - pos%4096 // up to the next 4096 boundary
			case 3:
				step = 1 + r.Intn(16)
			case 4:
				step = 32768
			default:
				step = 1 + r.Intn(2000)
			}
			pos += step
			if pos > n {
				pos = n
			}
			cuts = append(cuts, pos)
			if len(cuts) > 4000 {
				pos = n
				cuts = append(cuts, n)
			}
		}
		if n == 0 {
			cuts = []int{0}
		}
		entry := []string{"reader", "writer", "bytes", "string"}[r.Intn(4)]
		jobs = append(jobs, job{in, entry, cuts, []int{1, 2, 7, 4096}[r.Intn(4)], r.Intn(4), r.Uint64(), ""})
	}
	for _, procs := range []int{1, 2, 16} {
		runtime.GOMAXPROCS(procs)
		core.ParallelFor(len(jobs), 16, func(i int) {
			j := jobs[i]
			if procs != 16 && i%3 != procs%3 {
				return // each GOMAXPROCS value sees a third of the cases (all of them at 16)
			}
			run.Eval()
			var mu sync.Mutex
			env := newC12Env(seededDelay(core.Stream(j.seed, "delay", fmt.Sprint(procs)), &mu))
			cfg := fmt.Sprintf("%s %s chunks=%d buf=%d opts=%d procs=%d", j.in.mt, j.entry, len(j.cuts), j.buf, j.opts, procs)
			out, err, info := c12RunEntry(env, j.entry, j.in, j.cuts, j.buf, j.opts)
			if j.entry == "writer" && !strings.ContainsAny(info, " ") && info != "" {
				sigMu.Lock()
				sigs[info] = struct{}{}
				sigMu.Unlock()
				info = ""
			}
			if info != "" {
				report(cfg, j.in, info)
				return
			}
			if (err == nil) != (j.in.refErr == nil) {
				report(cfg, j.in, fmt.Sprintf("error differs from the plain call: %v vs %v", err, j.in.refErr))
				return
			}
			if err == nil && !bytes.Equal(out, j.in.ref) {
				report(cfg, j.in, fmt.Sprintf("bytes differ from the plain call: got %q want %q", core.Trunc(string(out), 100), core.Trunc(string(j.in.ref), 100)))
				return
			}
			if err != nil && (j.entry == "bytes" || j.entry == "string") && !bytes.Equal(out, j.in.data) {
				report(cfg, j.in, "on error the byte/string helper did not hand back the original data")
				return
			}
			if len(j.cuts) > 1 {
				run.NonTrivial([]byte(cfg), j.in.data, []byte(fmt.Sprint(j.cuts)))
			}
		})
	}
	runtime.GOMAXPROCS(runtime.NumCPU())
	// 3. minifier error must come out of Close
	{
		env := newC12Env(nil)
		atomic.StoreInt32(&env.failAfter, 1)
		for _, in := range shorts {
			run.Eval()
			_, err, info := c12RunEntry(env, "writer", in, []int{len(in.data)}, 0, 0)
			if strings.Contains(info, " ") {
				report("writer injected-minifier-error", in, info)
			} else if !errors.Is(err, errC12Minifier) {
				report("writer injected-minifier-error", in, fmt.Sprintf("Close returned %v instead of the minifier's error", err))
			}
			_, rerr, _ := c12RunEntry(env, "reader", in, []int{len(in.data)}, 7, 0)
			if !errors.Is(rerr, errC12Minifier) {
				report("reader injected-minifier-error", in, fmt.Sprintf("Read returned %v instead of the minifier's error", rerr))
			}
		}
	}
	// 4. HTTP wrappers
	m := newM(nil)
	httpCases := 0
	for _, in := range longs {
		if len(in.data) > 30000 || strings.HasPrefix(in.name, "tests/") {
			continue
		}
		ext := map[string]string{"text/html": ".html", "text/css": ".css", "application/javascript": ".js", "application/json": ".json", "image/svg+xml": ".svg", "text/xml": ".xml"}[in.mt]
		for _, mw := range []string{"ResponseWriter", "Middleware", "MiddlewareWithError"} {
			targets := []string{"/f" + ext, "/f", "/dir.d/f" + ext + "?v=1.2", "/f" + ext + "?x=a.png", "/f.bin", "/", "/F" + strings.ToUpper(ext), "/docs/Index" + strings.ToUpper(ext[:2]) + ext[2:]}
			switch ext {
			case ".html":
				targets = append(targets, "/index.htm")
			case ".js":
				targets = append(targets, "/module.mjs")
			}
			for _, target := range targets {
				// (the last three are headers a strict media type parser refuses: a value with a slash, a parameter
				// without value, an unclosed quote; the registry's own splitting is lenient and decides)
				for _, ct := range []string{"", in.mt, in.mt + "; charset=utf-8", "application/octet-stream", in.mt + "; profile=https://example.com/schema/order.json", in.mt + "; flag", in.mt + "; title=\"unclosed"} {
					for flags := 0; flags < 8; flags++ {
						c := c12HTTPCase{target: target, contentType: ct, setLength: flags&1 != 0, callWriteHeader: flags&2 != 0, flushFirst: flags&4 != 0, chunks: 1 + (flags+len(target))%3, mw: mw, in: in}
						c.reuseBuffer = (flags+len(ct)+len(target))%2 == 0
						run.Eval()
						httpCases++
						if s := c12RunHTTP(m, c); s != "" {
							run.Violation(core.Key(c.String(), in.data), c.String()+": "+s, map[string]interface{}{"case": c.String(), "input": core.Trunc(string(in.data), 2000)})
						} else {
							run.NonTrivial([]byte(c.String()))
						}
					}
				}
			}
		}
	}
	// 4b. media type parameters that the minifier itself reads: every entry point must hand them on
	for ii, body := range []string{"color : #ff0000 ; margin : 0px 0px", "background : url( 'a.png' ) ; font-weight : bold", "fill : red"} {
		in := c12Input{mt: "text/css;inline=1", name: fmt.Sprintf("inlinecss#%d", ii), data: []byte(body)}
		for _, ct := range []string{"text/css;inline=1", "text/css; inline=1", "TEXT/CSS ; inline=1 ; charset=utf-8"} {
			for _, mw := range []string{"ResponseWriter", "Middleware", "MiddlewareWithError"} {
				for flags := 0; flags < 4; flags++ {
					c := c12HTTPCase{target: "/x", contentType: ct, setLength: flags&1 != 0, callWriteHeader: flags&2 != 0, chunks: 1 + flags%3, mw: mw, in: in}
					run.Eval()
					httpCases++
					if s := c12RunHTTP(m, c); s != "" {
						run.Violation(core.Key(c.String(), in.data), c.String()+": "+s, map[string]interface{}{"case": c.String(), "input": body})
					} else {
						run.NonTrivial([]byte(c.String()))
					}
				}
			}
			for _, entry := range []string{"reader", "writer", "bytes", "string"} {
				run.Eval()
				ref, rerr, _ := minifyBytes(m, ct, []byte(body))
				var got []byte
				var gerr error
				switch entry {
				case "reader":
					got, gerr = io.ReadAll(m.Reader(ct, strings.NewReader(body)))
				case "writer":
					var b bytes.Buffer
					w := m.Writer(ct, &b)
					w.Write([]byte(body))
					gerr = w.Close()
					got = b.Bytes()
				case "bytes":
					got, gerr = m.Bytes(ct, []byte(body))
				default:
					var str string
					str, gerr = m.String(ct, body)
					got = []byte(str)
				}
				if (gerr == nil) != (rerr == nil) || (rerr == nil && !bytes.Equal(got, ref)) {
					cfg := fmt.Sprintf("%s via %s", ct, entry)
					run.Violation(core.Key(cfg, []byte(body)), fmt.Sprintf("%s: got %q (%v), the plain call gives %q (%v)", cfg, got, gerr, ref, rerr), map[string]interface{}{"case": cfg, "input": body})
				} else {
					run.NonTrivial([]byte(ct + entry + body))
				}
			}
		}
	}
	// 4f. inputs that start with a byte order mark: whatever an entry point does with it, all of them do the same
	for _, in := range shorts {
		if len(in.data) == 0 {
			continue
		}
		body := append([]byte("\xef\xbb\xbf"), in.data...)
		run.Eval()
		var ref bytes.Buffer
		rerr := m.Minify(in.mt, &ref, bytes.NewReader(body))
		for _, entry := range []string{"reader", "writer", "bytes", "string"} {
			var got []byte
			var gerr error
			switch entry {
			case "reader":
				got, gerr = io.ReadAll(m.Reader(in.mt, bytes.NewReader(body)))
			case "writer":
				var b bytes.Buffer
				w := m.Writer(in.mt, &b)
				w.Write(body)
				gerr = w.Close()
				got = b.Bytes()
			case "bytes":
				got, gerr = m.Bytes(in.mt, append([]byte{}, body...))
			default:
				var str string
				str, gerr = m.String(in.mt, string(body))
				got = []byte(str)
			}
			cfg := fmt.Sprintf("BOM-prefixed %s via %s", in.name, entry)
			if (gerr == nil) != (rerr == nil) || (rerr == nil && !bytes.Equal(got, ref.Bytes())) {
				run.Violation(core.Key(cfg, body), fmt.Sprintf("%s: got %q (%v), the plain call gives %q (%v)", cfg, core.Trunc(string(got), 60), gerr, core.Trunc(ref.String(), 60), rerr), map[string]interface{}{"case": cfg, "input": string(body)})
			} else {
				run.NonTrivial([]byte(cfg))
			}
		}
	}
	// 4d. the request path is what the handler chain made of it: a path rewritten before the wrapper is built
	// (clean URLs) and requests built with http.NewRequest (no RequestURI) choose by URL.Path
	for _, in := range shorts {
		ext := map[string]string{"text/html": ".html", "text/css": ".css", "application/javascript": ".js", "application/json": ".json", "image/svg+xml": ".svg", "text/xml": ".xml"}[in.mt]
		if ext == "" || len(in.data) == 0 {
			continue
		}
		for variant := 0; variant < 3; variant++ {
			run.Eval()
			var req *http.Request
			switch variant {
			case 0:
				req = httptest.NewRequest("GET", "http://example.com/about", nil)
				req.URL.Path = "/about" + ext // rewritten by an outer handler
			case 1:
				req, _ = http.NewRequest("GET", "http://example.com/page"+ext+"?v=2", nil) // client-style request: RequestURI is empty
			default:
				req = httptest.NewRequest("GET", "http://example.com/x"+ext, nil)
				req.URL.Path = "/x.bin" // rewritten to something that is not minified
			}
			rw := &headerSnapshotRW{hdr: http.Header{}}
			mw := m.ResponseWriter(rw, req)
			mw.Write(in.data)
			cerr := mw.Close()
			want := in.data
			if variant != 2 {
				if ref, err, _ := minifyBytes(m, in.mt, in.data); err == nil {
					want = ref
				} else {
					continue
				}
			}
			cfg := fmt.Sprintf("ResponseWriter path-variant=%d url.path=%q requesturi=%q input=%s", variant, req.URL.Path, req.RequestURI, in.name)
			if cerr != nil || !bytes.Equal(rw.buf.Bytes(), want) {
				run.Violation(core.Key(cfg, in.data), fmt.Sprintf("%s: body %q (close: %v), the type of URL.Path gives %q", cfg, core.Trunc(rw.buf.String(), 80), cerr, core.Trunc(string(want), 80)), map[string]interface{}{"case": cfg, "input": string(in.data)})
			} else {
				run.NonTrivial([]byte(cfg))
			}
		}
	}
	// 4e. a registry that is used, extended and used again: every entry point sees the new registration
	for _, in := range shorts {
		if in.mt != "image/svg+xml" && in.mt != "application/json" || len(in.data) == 0 {
			continue
		}
		run.Eval()
		mm := minify.New()
		mark := func(tag string) minify.MinifierFunc {
			return func(_ *minify.M, w io.Writer, r io.Reader, _ map[string]string) error {
				b, _ := io.ReadAll(r)
				w.Write([]byte(tag + ":"))
				w.Write(b)
				return nil
			}
		}
		mm.AddFuncRegexp(regexp.MustCompile("[/+](xml|json)$"), mark("pattern"))
		first, _ := mm.Bytes(in.mt, in.data)
		mm.AddFunc(in.mt, mark("literal"))
		second, _ := mm.Bytes(in.mt, in.data)
		var sb bytes.Buffer
		mm.Minify(in.mt, &sb, bytes.NewReader(in.data))
		req := httptest.NewRequest("GET", "http://example.com/x", nil)
		rw := &headerSnapshotRW{hdr: http.Header{}}
		mw := mm.ResponseWriter(rw, req)
		mw.Header().Set("Content-Type", in.mt)
		mw.Write(in.data)
		mw.Close()
		cfg := "pattern, call, literal registration, call: " + in.name
		if !bytes.HasPrefix(first, []byte("pattern:")) || !bytes.HasPrefix(second, []byte("literal:")) || !bytes.Equal(second, sb.Bytes()) || !bytes.Equal(second, rw.buf.Bytes()) {
			run.Violation(core.Key(cfg, in.data), fmt.Sprintf("%s: Bytes before %q, Bytes after %q, Minify after %q, ResponseWriter after %q", cfg, core.Trunc(string(first), 30), core.Trunc(string(second), 30), core.Trunc(sb.String(), 30), core.Trunc(rw.buf.String(), 30)), map[string]interface{}{"case": cfg})
		} else {
			run.NonTrivial([]byte(cfg))
		}
	}
	// 4c. results stay what they were: slices and strings returned earlier are compared again after later calls
	{
		type held struct {
			name string
			got  []byte
			want []byte
		}
		var hs []held
		for round := 0; round < 2; round++ {
			for _, in := range shorts {
				run.Eval()
				b, err := m.Bytes(in.mt, append([]byte{}, in.data...))
				if err != nil {
					continue
				}
				ref, _, _ := minifyBytes(newM(nil), in.mt, in.data)
				hs = append(hs, held{in.name, b, append([]byte{}, ref...)})
				if s, err := m.String(in.mt, string(in.data)); err == nil {
					hs = append(hs, held{in.name + " (String)", []byte(s), append([]byte{}, ref...)})
				}
			}
		}
		for _, h := range hs {
			if !bytes.Equal(h.got, h.want) {
				run.Violation(core.Key("held-result", []byte(h.name)), fmt.Sprintf("the result returned for %s changed after later calls: now %q, was %q", h.name, core.Trunc(string(h.got), 80), core.Trunc(string(h.want), 80)), map[string]interface{}{"case": "held-result", "input": h.name})
				break
			}
		}
		run.Set("held_results_rechecked", len(hs))
	}
	// 5. race detector child
	races, raceLog, err := runRaceChild("c12race")
	run.Set("race_child_reports", races)
	if err != nil {
		fmt.Println("race child problem:", err)
		run.Set("race_child_error", err.Error())
		run.Inconclusive()
	}
	if races > 0 {
		run.Violation(core.Key("race", []byte(core.Trunc(raceLog, 2000))), "race detector reports in minify code:\n"+core.Trunc(raceLog, 3000), map[string]string{"log": core.Trunc(raceLog, 20000)})
	}
	run.Set("exhaustive_chunking_cases", exhaustive)
	run.Set("exhaustive_max_input_length", maxN)
	run.Set("http_cases", httpCases)
	run.Set("distinct_writer_interleavings", len(sigs))
	var ss []string
	for s := range sigs {
		ss = append(ss, s)
		if len(ss) >= 5 {
			break
		}
	}
	run.Sample(map[string]interface{}{"writer_event_interleavings (w=Write call, r=Write return, D=destination write, M=minifier return, c=Close call, C=Close return)": ss})
	run.Sample(map[string]interface{}{"exhaustive": "every partition of each short input (<= max length) into consecutive chunks, each also with an empty chunk inserted, through Reader and Writer"})
	run.Finish("entry points Reader/Writer/Bytes/String/ResponseWriter/Middleware/MiddlewareWithError against the plain m.Minify call: every partition of short inputs of all six media types (exhaustive up to the length bound, also with empty chunks), seeded partitions of long inputs (1-byte chunks, 4096/32768 boundaries, empty chunks, EOF with the last bytes, (0,nil) stutters), consumer buffer sizes 1/2/7/4096, seeded Gosched/sleep perturbation inside the wrapped minifier, the destination and the producer, GOMAXPROCS 1/2/16; HTTP: target x Content-Type x Content-Length x WriteHeader x chunking product; a case is (entry point, chunking, pacing, input); non-trivial = more than one chunk / an HTTP case",
		[]string{"reference = m.Minify on the whole input", "ordering verdicts come from a logical-clock event log, never from elapsed time", "race reports are counted by a child built with -race"}, 500, false)
}

func init() {
	Children["c12race"] = func(args []string) {
		ins := c12Inputs(core.Start("C12", "exploration"), true)
		var wg sync.WaitGroup
		bad := int32(0)
		for g := 0; g < 8; g++ {
			wg.Add(1)
			go func(g int) {
				defer wg.Done()
				var mu sync.Mutex
				env := newC12Env(seededDelay(core.Stream(uint64(g), "race"), &mu))
				for i := 0; i < 150; i++ {
					in := ins[(g+i)%len(ins)]
					cuts := cutsFromMask(len(in.data), uint32(i*7+g))
					for _, entry := range []string{"reader", "writer"} {
						out, err, info := c12RunEntry(env, entry, in, cuts, 1+i%5, i%4)
						if strings.Contains(info, " ") || err != nil && in.refErr == nil || err == nil && !bytes.Equal(out, in.ref) {
							atomic.AddInt32(&bad, 1)
						}
					}
				}
			}(g)
		}
		wg.Wait()
		fmt.Printf("CHILD-OK bad=%d\n", bad)
	}
}
