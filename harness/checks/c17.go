package checks

// C17 — built-in replacement tables agree with the standards.
// Every entry of every table is enumerated from the live package values and
// exercised directly and through the public minifier.

import (
	"bytes"
	"fmt"
	xhtml "golang.org/x/net/html"
	stdhtml "html"
	"sort"
	"strings"

	"github.com/tdewolff/minify/v2"
	mcss "github.com/tdewolff/minify/v2/css"
	mhtml "github.com/tdewolff/minify/v2/html"
	msvg "github.com/tdewolff/minify/v2/svg"
	mxml "github.com/tdewolff/minify/v2/xml"
	"verif/harness/core"
)

func setOf(xs ...string) map[string]bool {
	m := map[string]bool{}
	for _, x := range xs {
		m[x] = true
	}
	return m
}

// HTML Standard: boolean attributes (incl. obsolete ones)
var stdBooleanAttrs = setOf("allowfullscreen", "async", "autofocus", "autoplay", "checked", "controls", "default", "defer", "disabled",
	"formnovalidate", "inert", "ismap", "itemscope", "loop", "multiple", "muted", "nomodule", "novalidate", "open", "playsinline",
	"readonly", "required", "reversed", "selected", "shadowrootclonable", "shadowrootdelegatesfocus", "shadowrootserializable",
	"compact", "declare", "noresize", "nohref", "noshade", "nowrap", "truespeed", "typemustmatch", "scoped", "seamless", "sortable", "allowpaymentrequest")

// HTML Standard: attributes whose value is a URL (or a namespace/profile URI)
var stdURLAttrs = setOf("action", "cite", "data", "formaction", "href", "itemid", "manifest", "poster", "src", "background", "codebase",
	"longdesc", "profile", "icon", "classid", "xmlns")

// raw text, escapable raw text, legacy raw text elements and foreign-content roots
var voidsC17 = setOf("img", "input", "embed", "wbr", "keygen")

var stdRawElems = setOf("script", "style", "textarea", "title", "iframe", "xmp", "noembed", "noframes", "noscript", "plaintext", "svg", "math")

// elements whose default display (HTML Standard, Rendering) is block, list-item, table-*, none, or that are a line break
var stdBreakElems = setOf(
	// display: block
	"address", "article", "aside", "blockquote", "body", "center", "dd", "details", "dialog", "dir", "div", "dl", "dt", "fieldset",
	"figcaption", "figure", "footer", "form", "h1", "h2", "h3", "h4", "h5", "h6", "header", "hgroup", "hr", "html", "legend", "listing",
	"main", "menu", "nav", "ol", "p", "plaintext", "pre", "search", "section", "summary", "ul", "xmp", "optgroup", "option", "frameset", "frame",
	// list-item
	"li",
	// table-*
	"table", "caption", "colgroup", "col", "thead", "tbody", "tfoot", "tr", "td", "th",
	// display: none
	"head", "title", "meta", "link", "style", "script", "base", "template", "area", "param", "datalist", "noembed", "noframes", "rp", "source", "track",
	// line break
	"br")

// HTML Standard §13.1.2.4: a p element's end tag may be omitted if it is immediately followed by one of these
var stdOmitPBefore = setOf("address", "article", "aside", "blockquote", "details", "dialog", "div", "dl", "fieldset", "figcaption", "figure",
	"footer", "form", "h1", "h2", "h3", "h4", "h5", "h6", "header", "hgroup", "hr", "main", "menu", "nav", "ol", "p", "pre", "search", "section", "table", "ul",
	"center", "dir", "listing", "xmp", "plaintext") // the last five: obsolete elements that close a p in the tree builder ("in body" insertion mode)

// ... or if there is no more content in the parent and the parent is not one of these
var stdKeepPParents = setOf("a", "audio", "del", "ins", "map", "noscript", "video")

var stdZeroUnits = setOf(
	// <length>
	"em", "rem", "ex", "rex", "cap", "rcap", "ch", "rch", "ic", "ric", "lh", "rlh", "vw", "vh", "vi", "vb", "vmin", "vmax", "svw", "svh", "lvw", "lvh", "dvw", "dvh",
	"cm", "mm", "q", "in", "pt", "pc", "px",
	// <angle>
	"deg", "grad", "rad", "turn")

var stdJSMimes = setOf("application/ecmascript", "application/javascript", "application/x-ecmascript", "application/x-javascript", "text/ecmascript",
	"text/javascript", "text/javascript1.0", "text/javascript1.1", "text/javascript1.2", "text/javascript1.3", "text/javascript1.4", "text/javascript1.5",
	"text/jscript", "text/livescript", "text/x-ecmascript", "text/x-javascript")

var stdSVGColorAttrs = setOf("color", "fill", "stroke", "stop-color", "flood-color", "lighting-color", "solid-color")

func C17(run *core.Run) {
	known := map[string]bool{}
	run.ReplayWitnesses(func(f core.Finding, w core.Witness) (bool, string) {
		// witnesses are table entries; they are checked in the sweep below (same oracle), so only mark them
		known[w.Key] = true
		return c17EntryFails(w.Extra["table"], w.Input), ""
	})
	viol := func(table, entry, what string) {
		key := core.Key("table="+table, []byte(entry))
		run.Violation(key, fmt.Sprintf("table %s entry %q: %s", table, entry, what), map[string]string{"table": table, "entry": entry, "what": what})
	}
	entries := 0
	ev := func(table, entry string, changed bool) {
		run.Eval()
		entries++
		run.NonTrivial([]byte(table), []byte(entry))
	}

	// ---- 1. HTML entities
	hm := minify.New()
	hm.AddFunc("text/html", mhtml.Minify)
	var names []string
	for k := range mhtml.EntitiesMap {
		names = append(names, k)
	}
	sort.Strings(names)
	for _, name := range names {
		repl := string(mhtml.EntitiesMap[name])
		ev("html.EntitiesMap", name, true)
		ref := "&" + name + ";"
		want := stdhtml.UnescapeString(ref)
		if want == ref {
			viol("html.EntitiesMap", name, "not a named character reference of HTML5 (Go stdlib table)")
			continue
		}
		if got := stdhtml.UnescapeString(repl); got != want {
			viol("html.EntitiesMap", name, fmt.Sprintf("replacement %q decodes to %q, reference decodes to %q", repl, got, want))
			continue
		}
		// x/net/html agrees (text and attribute context)?
		for _, follow := range []string{"", "x", ";", "#", "=", "1"} {
			docs := []struct{ in, where string }{
				{"<!doctype html><title>t</title><p>a" + ref + follow + "</p>", "text"},
				{"<!doctype html><title>t</title><p title=\"a" + ref + follow + "\">x</p>", "attr-dq"},
				{"<!doctype html><title>t</title><p title='" + ref + follow + "'>x</p>", "attr-sq"},
				{"<!doctype html><title>t</title><p title=" + ref + follow + ">x</p>", "attr-unq"},
				{"<!doctype html><title>t</title><a href=\"?a=1" + ref + follow + "=2\">x</a>", "attr-url"},
			}
			for _, d := range docs {
				if d.where == "attr-unq" && (follow == "=" || strings.ContainsAny(want, " \t\n\f\r\"'`=<>")) {
					continue
				}
				run.Eval()
				out, err, pan := minifyBytes(hm, "text/html", []byte(d.in))
				if pan != "" || err != nil {
					viol("html.EntitiesMap", name, fmt.Sprintf("minifier failed on %q: %v %s", d.in, err, pan))
					break
				}
				ei, _ := htmlEvents(d.in)
				eo, _ := htmlEvents(string(out))
				var a, b string
				if d.where == "text" {
					a, b = htmlAllText(ei), htmlAllText(eo)
				} else if d.where == "attr-url" {
					a, _ = htmlFirstAttr(ei, "a", "href")
					b, _ = htmlFirstAttr(eo, "a", "href")
				} else {
					a, _ = htmlFirstAttr(ei, "p", "title")
					b, _ = htmlFirstAttr(eo, "p", "title")
				}
				if d.where == "text" {
					// a reference to a white-space character is white space: collapsing/trimming it is C03's business
					a, b = collapseHTMLWS(a), collapseHTMLWS(b)
				}
				if a != b {
					viol("html.EntitiesMap", name, fmt.Sprintf("through the minifier (%s, followed by %q): %q parses to %q, output %q parses to %q", d.where, follow, d.in, a, out, b))
					break
				}
			}
		}
	}
	for b, ent := range mhtml.TextRevEntitiesMap {
		ev("html.TextRevEntitiesMap", string(ent), true)
		if got := stdhtml.UnescapeString(string(ent)); got != string([]byte{b}) {
			viol("html.TextRevEntitiesMap", string(ent), fmt.Sprintf("decodes to %q, table says byte %q", got, b))
		}
	}
	// ---- 2. XML entity maps
	for name, repl := range mxml.EntitiesMap {
		ev("xml.EntitiesMap", name, true)
		want, err := xmlExpand("&"+name+";", nil, false)
		if err != nil || want != string(repl) {
			viol("xml.EntitiesMap", name, fmt.Sprintf("replacement %q, XML predefined entity is %q (%v)", repl, want, err))
		}
	}
	for _, tm := range []struct {
		n string
		m map[byte][]byte
	}{{"xml.TextRevEntitiesMap", mxml.TextRevEntitiesMap}, {"xml.AttrRevEntitiesMap", mxml.AttrRevEntitiesMap}} {
		for b, ent := range tm.m {
			ev(tm.n, string(ent), true)
			got, err := xmlExpand(string(ent), nil, false)
			if err != nil || got != string([]byte{b}) {
				viol(tm.n, string(ent), fmt.Sprintf("decodes to %q (%v), table says byte %q", got, err, b))
			}
		}
	}
	// ---- 3. colours
	cm := minify.New()
	cm.AddFunc("text/css", mcss.Minify)
	cm.AddFunc("image/svg+xml", msvg.Minify)
	checkColor := func(table, hex, name string) {
		ev(table, hex+"="+name, true)
		std, ok := cssNamedColors[strings.ToLower(name)]
		if !ok {
			viol(table, hex+"="+name, "keyword is not a CSS named colour")
			return
		}
		r1, g1, b1, a1, ok1 := cssHexToRGBA(strings.TrimPrefix(hex, "#"))
		r2, g2, b2, a2, _ := cssHexToRGBA(std)
		if !ok1 || r1 != r2 || g1 != g2 || b1 != b2 || a1 != a2 {
			viol(table, hex+"="+name, fmt.Sprintf("hex %s is not the colour of keyword %s (#%s)", hex, name, std))
			return
		}
		// through the minifier: keyword, hex and rgb() spellings must keep the colour
		for _, spelling := range []string{name, strings.ToUpper(name), hex, strings.ToUpper(hex), fmt.Sprintf("rgb(%d,%d,%d)", r1, g1, b1), fmt.Sprintf("rgb(%d %d %d)", r1, g1, b1), "#" + std, "#" + std + "ff"} {
			run.Eval()
			in := "a{color:" + spelling + "}"
			out, err, pan := minifyBytes(cm, "text/css", []byte(in))
			if err != nil || pan != "" {
				viol(table, hex+"="+name, fmt.Sprintf("css minifier failed on %q", in))
				continue
			}
			val := strings.TrimSuffix(strings.TrimPrefix(string(out), "a{color:"), "}")
			if !c17SameColor(val, r1, g1, b1) {
				viol(table, hex+"="+name, fmt.Sprintf("through the CSS minifier: %q -> %q is not rgb(%d,%d,%d)", in, out, r1, g1, b1))
			}
			in2 := `<svg xmlns="http://www.w3.org/2000/svg"><rect fill="` + spelling + `"/></svg>`
			out2, err, pan := minifyBytes(cm, "image/svg+xml", []byte(in2))
			if err != nil || pan != "" {
				viol(table, hex+"="+name, fmt.Sprintf("svg minifier failed on %q", in2))
				continue
			}
			evs, terr := xmlTokenize(string(out2))
			if terr != nil {
				viol(table, hex+"="+name, fmt.Sprintf("svg output not well-formed: %q", out2))
				continue
			}
			found := false
			for _, e := range evs {
				if e.Kind == 'S' && e.Name == "rect" {
					for _, a := range e.Attrs {
						if a.Name == "fill" {
							found = true
							if !c17SameColor(a.Raw, r1, g1, b1) {
								viol(table, hex+"="+name, fmt.Sprintf("through the SVG minifier: fill=%q -> %q is not rgb(%d,%d,%d)", spelling, a.Raw, r1, g1, b1))
							}
						}
					}
				}
			}
			if !found {
				viol(table, hex+"="+name, fmt.Sprintf("through the SVG minifier: fill attribute lost: %q", out2))
			}
		}
	}
	// the same colours with an alpha channel that is not fully opaque must not come out as the (opaque) keyword or hex
	checkAlpha := func(table, hex, name string) {
		std := strings.TrimPrefix(strings.ToLower(hex), "#")
		if len(std) == 3 {
			std = string([]byte{std[0], std[0], std[1], std[1], std[2], std[2]})
		}
		if len(std) != 6 {
			return
		}
		for _, alpha := range []string{"f0", "fe", "0f", "7f", "80", "fc"} {
			run.Eval()
			in := "a{color:#" + std + alpha + "}"
			out, err, pan := minifyBytes(cm, "text/css", []byte(in))
			if err != nil || pan != "" {
				viol(table, hex+"="+name, fmt.Sprintf("css minifier failed on %q", in))
				continue
			}
			val := strings.ToLower(strings.TrimSuffix(strings.TrimPrefix(string(out), "a{color:"), "}"))
			ok := false
			switch {
			case val == "#"+std+alpha:
				ok = true
			case len(val) == 5 && val[0] == '#' && std[0] == std[1] && std[2] == std[3] && std[4] == std[5] && alpha[0] == alpha[1] &&
				val[1] == std[0] && val[2] == std[2] && val[3] == std[4] && val[4] == alpha[0]:
				ok = true
			case strings.HasPrefix(val, "rgba(") || strings.HasPrefix(val, "rgb(") && strings.Contains(val, "/"):
				ok = true // another notation with an alpha component: its value is C04's subject
			}
			if !ok {
				viol(table, hex+"="+name, fmt.Sprintf("through the CSS minifier: translucent %q -> %q lost or changed its alpha channel", in, out))
			}
		}
	}
	for hex, name := range mcss.ShortenColorHex {
		checkColor("css.ShortenColorHex", hex, string(name))
		checkAlpha("css.ShortenColorHex", hex, string(name))
	}
	for name, hex := range mcss.ShortenColorName {
		checkColor("css.ShortenColorName", string(hex), name.String())
	}
	// ---- 4. trait tables
	tags := mhtml.VerifTagTraits()
	for tag, traits := range tags {
		for _, t := range traits {
			entry := tag + ":" + t
			ev("html.tagMap", entry, true)
			if known[core.Key("table=html.tagMap", []byte(entry))] {
				// still reported through run.Violation (suppressed there by key)
			}
			switch t {
			case "raw":
				if !stdRawElems[tag] {
					viol("html.tagMap", entry, "treated as raw text but is neither a raw-text/escapable-raw-text element nor a foreign-content root")
				}
			case "block":
				if !stdBreakElems[tag] {
					viol("html.tagMap", entry, "whitespace is dropped next to this element but its default display is not block/list-item/table-*/none and it is not a line break")
				}
			case "omitP":
				if !stdOmitPBefore[tag] {
					viol("html.tagMap", entry, "p end tag omitted before this element, which the HTML Standard does not allow")
				}
			}
		}
	}
	// behavioural probe for every element that is not a break element: the words around and inside it stay apart
	// (fallback content that ends in white space, inline content before the end tag)
	{
		voids := voidsC17
		// elements that are laid out as one inline box (replaced content, form controls): white space inside them does
		// not separate the words outside
		atomic := setOf("audio", "video", "canvas", "object", "embed", "img", "input", "progress", "meter")
		outerText := func(doc, tag string) string {
			z := xhtml.NewTokenizer(strings.NewReader(doc))
			var words []string
			depth, inTitle := 0, false
			for {
				tt := z.Next()
				if tt == xhtml.ErrorToken {
					break
				}
				switch tt {
				case xhtml.StartTagToken, xhtml.SelfClosingTagToken:
					n, _ := z.TagName()
					switch {
					case string(n) == "title":
						inTitle = true
					case string(n) == tag:
						if depth == 0 {
							words = append(words, "\u25a2")
						}
						if tt == xhtml.StartTagToken && !voidsC17[tag] {
							depth++
						}
					}
				case xhtml.EndTagToken:
					n, _ := z.TagName()
					if string(n) == "title" {
						inTitle = false
					} else if string(n) == tag && depth > 0 {
						depth--
					}
				case xhtml.TextToken:
					if depth == 0 && !inTitle {
						words = append(words, string(z.Text()))
					}
				}
			}
			return strings.Join(strings.Fields(strings.Join(words, "")), " ")
		}
		visibleText := func(doc string) string {
			z := xhtml.NewTokenizer(strings.NewReader(doc))
			var words []string
			skip := ""
			for {
				tt := z.Next()
				if tt == xhtml.ErrorToken {
					break
				}
				switch tt {
				case xhtml.StartTagToken:
					n, _ := z.TagName()
					if string(n) == "title" {
						skip = "title"
					}
				case xhtml.EndTagToken:
					n, _ := z.TagName()
					if string(n) == skip {
						skip = ""
					}
				case xhtml.TextToken:
					if skip == "" {
						words = append(words, string(z.Text()))
					}
				}
			}
			return strings.Join(strings.Fields(strings.Join(words, "")), " ")
		}
		for tag := range tags {
			if stdBreakElems[tag] || stdRawElems[tag] || tag == "a" || tag == "select" || tag == "button" || tag == "rt" || tag == "ruby" || tag == "rb" || tag == "rtc" {
				continue // (a, select, button: nesting rules of their own; ruby parts: see C03)
			}
			entry := tag + ":words-stay-apart"
			ev("html.tagMap", entry, true)
			in := "<!doctype html><title>t</title><p>a <" + tag + "> x </" + tag + "> b <" + tag + "><i>y</i> </" + tag + "> c</p>"
			if voids[tag] {
				in = "<!doctype html><title>t</title><p>a <" + tag + "> b<" + tag + "> c</p>"
			}
			out, err, _ := minifyBytes(hm, "text/html", []byte(in))
			a, b := visibleText(in), visibleText(string(out))
			if atomic[tag] {
				a, b = outerText(in, tag), outerText(string(out), tag)
			}
			if err != nil || a != b {
				viol("html.tagMap", entry, fmt.Sprintf("words are joined or split next to <%s>: %q -> %q (text %q -> %q)", tag, in, out, a, b))
			}
		}
	}
	for p := range stdKeepPParents {
		ev("html.tagMap", p+":keepP(required)", true)
		has := false
		for _, t := range tags[p] {
			if t == "keepP" {
				has = true
			}
		}
		if !has {
			viol("html.tagMap", p+":keepP(required)", "the p end tag must not be omitted at the end of this parent, but the element lacks the keepP trait")
		}
	}
	for attr, traits := range mhtml.VerifAttrTraits() {
		for _, t := range traits {
			entry := attr + ":" + t
			ev("html.attrMap", entry, true)
			switch t {
			case "boolean":
				if !stdBooleanAttrs[attr] {
					viol("html.attrMap", entry, "treated as boolean (value dropped) but the HTML Standard does not define it as a boolean attribute")
				} else {
					// behavioural probe: presence must be preserved
					in := "<!doctype html><title>t</title><input " + attr + "=\"" + attr + "\"><video " + attr + "=''></video>"
					out, err, _ := minifyBytes(hm, "text/html", []byte(in))
					eo, _ := htmlEvents(string(out))
					if _, ok := htmlFirstAttr(eo, "input", attr); !ok || err != nil {
						viol("html.attrMap", entry, fmt.Sprintf("boolean attribute lost: %q -> %q", in, out))
					}
				}
			case "url":
				if !stdURLAttrs[attr] {
					viol("html.attrMap", entry, "treated as URL-valued but the HTML Standard does not define it so")
				}
			}
		}
	}
	// non-boolean enumerated attributes must keep their value
	for _, probe := range [][2]string{{"hidden", "until-found"}, {"contenteditable", "plaintext-only"}, {"draggable", "false"}, {"spellcheck", "false"}, {"translate", "no"}, {"autocomplete", "off"}, {"popover", "manual"}, {"loading", "lazy"}, {"download", "x.txt"}, {"title", "title"}, {"value", "value"}, {"alt", "alt"}} {
		ev("html.attrMap", probe[0]+"=probe", true)
		in := "<!doctype html><title>t</title><div " + probe[0] + "=\"" + probe[1] + "\">x</div>"
		out, _, _ := minifyBytes(hm, "text/html", []byte(in))
		eo, _ := htmlEvents(string(out))
		if v, ok := htmlFirstAttr(eo, "div", probe[0]); !ok || v != probe[1] {
			viol("html.attrMap", probe[0]+"=probe", fmt.Sprintf("attribute value lost: %q -> %q", in, out))
		}
	}
	// attributes that the standard does not define as URL-valued are not rewritten as URLs: a value that merely
	// looks like a data URI (and could be re-encoded shorter) is text
	{
		probeAttrs := map[string]bool{"value": true, "title": true, "alt": true, "placeholder": true, "content": true, "label": true, "data-src": true, "name": true, "aria-label": true, "abbr": true, "pattern": true}
		for attr := range mhtml.VerifAttrTraits() {
			probeAttrs[attr] = true
		}
		const lookalike = "data:text/plain;base64,SGVsbG8sIFdvcmxkIQ=="
		for attr := range probeAttrs {
			if stdURLAttrs[attr] || attr == "style" || strings.HasPrefix(attr, "on") || stdBooleanAttrs[attr] {
				continue
			}
			for _, el := range []string{"div", "input", "option", "meta", "img"} {
				entry := el + "@" + attr + "=data-uri-lookalike"
				ev("html.attrMap", entry, true)
				in := "<!doctype html><title>t</title><p><" + el + " " + attr + "=\"" + lookalike + "\"></p>"
				out, err, _ := minifyBytes(hm, "text/html", []byte(in))
				eo, _ := htmlEvents(string(out))
				if v, ok := htmlFirstAttr(eo, el, attr); err != nil || !ok || !strings.EqualFold(v, lookalike) { // (enumerated attributes may be lower-cased)
					viol("html.attrMap", entry, fmt.Sprintf("a non-URL attribute was rewritten like a URL: %q -> %q", in, out))
				}
			}
		}
	}
	for _, mt := range mhtml.VerifJSMimetypes() {
		ev("html.jsMimetypes", mt, true)
		if !stdJSMimes[mt] {
			viol("html.jsMimetypes", mt, "not a JavaScript MIME type essence")
		}
	}
	for _, u := range mcss.VerifOptionalZeroDimension() {
		ev("css.optionalZeroDimension", u, true)
		if !stdZeroUnits[u] {
			viol("css.optionalZeroDimension", u, "unit is neither a length nor an angle unit")
		}
	}
	for _, a := range msvg.VerifColorAttrs() {
		ev("svg.colorAttrMap", a, true)
		if !stdSVGColorAttrs[a] {
			viol("svg.colorAttrMap", a, "not an SVG colour/paint attribute")
		}
	}
	// ---- 5. perfect-hash tables
	nearMiss := run.N(100000, 1000000)
	hashTables := []struct {
		name  string
		names []string
		to    func([]byte) string
	}{
		{"html/hash.go", mhtml.VerifHashNames(), func(b []byte) string { return mhtml.ToHash(b).String() }},
		{"css/hash.go", mcss.VerifHashNames(), func(b []byte) string { return mcss.ToHash(b).String() }},
		{"svg/hash.go", msvg.VerifHashNames(), func(b []byte) string { return msvg.ToHash(b).String() }},
	}
	for _, ht := range hashTables {
		set := map[string]bool{}
		for _, n := range ht.names {
			set[n] = true
		}
		for _, n := range ht.names {
			ev(ht.name, n, true)
			if got := ht.to([]byte(n)); got != n {
				viol(ht.name, n, fmt.Sprintf("ToHash(%q).String() = %q", n, got))
			}
		}
		sort.Strings(ht.names)
		for i := 0; i < nearMiss/len(hashTables); i++ {
			r := core.Stream(uint64(run.Seed), "c17", ht.name, fmt.Sprint(i))
			b := []byte(ht.names[r.Intn(len(ht.names))])
			switch r.Intn(4) {
			case 0:
				if len(b) > 0 {
					b[r.Intn(len(b))] = r.Char("abcdefghijklmnopqrstuvwxyz-0123456789")
				}
			case 1:
				if len(b) > 1 {
					k := r.Intn(len(b))
					b = append(b[:k], b[k+1:]...)
				}
			case 2:
				k := r.Intn(len(b) + 1)
				b = append(b[:k], append([]byte{r.Char("abcdefghijklmnopqrstuvwxyz-")}, b[k:]...)...)
			default:
				if len(b) > 1 {
					k := r.Intn(len(b) - 1)
					b[k], b[k+1] = b[k+1], b[k]
				}
			}
			run.Eval()
			got := ht.to(b)
			if set[string(b)] {
				if got != string(b) {
					viol(ht.name, string(b), fmt.Sprintf("ToHash(%q).String() = %q", b, got))
				}
			} else if got != "" {
				viol(ht.name, string(b), fmt.Sprintf("near-miss %q is hashed to the name %q", b, got))
			}
		}
	}
	run.Set("table_entries", entries)
	run.Set("html_entities", len(names))
	run.Set("exhaustive", true)
	run.Sample(map[string]string{"table": "html.EntitiesMap", "entry": names[len(names)/2], "replacement": string(mhtml.EntitiesMap[names[len(names)/2]]), "probes": "text, attr-dq, attr-sq, attr-unq, attr-url x followed by '', x, ;, #, =, 1"})
	run.Sample(map[string]string{"table": "css.ShortenColorHex", "entry": "#f0ffff=azure", "probes": "keyword/hex/rgb() spellings through the CSS and SVG minifiers"})
	run.Finish("every entry of html.EntitiesMap/TextRevEntitiesMap, xml.EntitiesMap/TextRevEntitiesMap/AttrRevEntitiesMap, css.ShortenColorHex/ShortenColorName, html tagMap/attrMap/jsMimetypes, css optionalZeroDimension, svg colorAttrMap and the three perfect-hash tables, enumerated from the live package values (exhaustive); entities and colours additionally exercised through the public minifiers and re-parsed; hash tables probed with one-edit near-misses; a case is (table, entry); every entry counts as non-trivial",
		[]string{"Go stdlib html.UnescapeString (HTML5 entity table) and golang.org/x/net/html are the entity oracles", "CSS named colours, boolean/URL attribute lists, raw-text elements, break-boundary elements, p-omission lists and unit lists are my transcriptions of the HTML Standard and CSS specifications"}, 1000, true)
}

// c17EntryFails is only used to decide whether a recorded table finding still exists.
func c17EntryFails(table, entry string) bool {
	switch table {
	case "html.tagMap":
		parts := strings.SplitN(entry, ":", 2)
		if len(parts) != 2 {
			return false
		}
		for _, t := range mhtml.VerifTagTraits()[parts[0]] {
			if t == parts[1] {
				switch t {
				case "block":
					return !stdBreakElems[parts[0]]
				case "raw":
					return !stdRawElems[parts[0]]
				case "omitP":
					return !stdOmitPBefore[parts[0]]
				}
			}
		}
	}
	return false
}

// c17SameColor: does the CSS colour value denote opaque rgb(r,g,b)?
func c17SameColor(val string, r, g, b int) bool {
	v := strings.ToLower(strings.TrimSpace(val))
	if std, ok := cssNamedColors[v]; ok {
		r2, g2, b2, _, _ := cssHexToRGBA(std)
		return r2 == r && g2 == g && b2 == b
	}
	if strings.HasPrefix(v, "#") {
		r2, g2, b2, a2, ok := cssHexToRGBA(v[1:])
		return ok && r2 == r && g2 == g && b2 == b && a2 == 255
	}
	var r2, g2, b2 int
	if n, _ := fmt.Sscanf(v, "rgb(%d,%d,%d)", &r2, &g2, &b2); n == 3 {
		return r2 == r && g2 == g && b2 == b
	}
	if n, _ := fmt.Sscanf(v, "rgb(%d %d %d)", &r2, &g2, &b2); n == 3 {
		return r2 == r && g2 == g && b2 == b
	}
	return false
}

var _ = bytes.Equal

func collapseHTMLWS(s string) string {
	return strings.Join(strings.FieldsFunc(s, func(r rune) bool { return r == ' ' || r == '\t' || r == '\n' || r == '\r' || r == '\f' }), " ")
}
