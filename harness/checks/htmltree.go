package checks

// O-htmltree: flatten the DOM built by golang.org/x/net/html (an HTML5 tree builder
// independent of tdewolff/parse) into an event stream.

import (
	"sort"
	"strings"

	xhtml "golang.org/x/net/html"
)

type hAttr struct{ Key, Val string }

type hEvent struct {
	Kind  byte   // 'O' open, 'C' close, 'T' text, 'M' comment, 'D' doctype
	Name  string // ns-qualified element name ("svg:path")
	Attrs []hAttr
	Data  string
}

func hName(n *xhtml.Node) string {
	if n.Namespace != "" {
		return n.Namespace + ":" + n.Data
	}
	return n.Data
}

// htmlEvents parses a full document.
func htmlEvents(doc string) ([]hEvent, error) {
	root, err := xhtml.Parse(strings.NewReader(doc))
	if err != nil {
		return nil, err
	}
	var evs []hEvent
	var walk func(n *xhtml.Node)
	walk = func(n *xhtml.Node) {
		switch n.Type {
		case xhtml.ElementNode:
			ev := hEvent{Kind: 'O', Name: hName(n)}
			for _, a := range n.Attr {
				k := a.Key
				if a.Namespace != "" {
					k = a.Namespace + ":" + k
				}
				ev.Attrs = append(ev.Attrs, hAttr{k, a.Val})
			}
			sort.SliceStable(ev.Attrs, func(i, j int) bool { return ev.Attrs[i].Key < ev.Attrs[j].Key })
			evs = append(evs, ev)
			for c := n.FirstChild; c != nil; c = c.NextSibling {
				walk(c)
			}
			evs = append(evs, hEvent{Kind: 'C', Name: hName(n)})
			return
		case xhtml.TextNode:
			if len(evs) > 0 && evs[len(evs)-1].Kind == 'T' {
				evs[len(evs)-1].Data += n.Data
			} else {
				evs = append(evs, hEvent{Kind: 'T', Data: n.Data})
			}
		case xhtml.CommentNode:
			evs = append(evs, hEvent{Kind: 'M', Data: n.Data})
		case xhtml.DoctypeNode:
			evs = append(evs, hEvent{Kind: 'D', Data: n.Data})
		}
		for c := n.FirstChild; c != nil; c = c.NextSibling {
			walk(c)
		}
	}
	walk(root)
	return evs, nil
}

// htmlAttr returns the value of attribute key on the first element called name.
func htmlFirstAttr(evs []hEvent, name, key string) (string, bool) {
	for _, e := range evs {
		if e.Kind == 'O' && e.Name == name {
			for _, a := range e.Attrs {
				if a.Key == key {
					return a.Val, true
				}
			}
			return "", false
		}
	}
	return "", false
}

// htmlAllText concatenates all text nodes.
func htmlAllText(evs []hEvent) string {
	var sb strings.Builder
	for _, e := range evs {
		if e.Kind == 'T' {
			sb.WriteString(e.Data)
		}
	}
	return sb.String()
}
