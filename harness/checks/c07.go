package checks

// C07 — JSON minification preserves the value.
// Oracle: my own RFC 8259 lexer over input and output (lexeme streams), exact
// decimal comparison of numbers, encoding/json acceptance of the output.

import (
	"bytes"
	stdjson "encoding/json"
	"fmt"
	"os"
	"path/filepath"
	"strings"

	"github.com/tdewolff/minify/v2"
	mjson "github.com/tdewolff/minify/v2/json"
	"verif/harness/core"
)

type jtok struct {
	kind byte // { } [ ] : , s(tring) n(umber) l(iteral)
	lex  []byte
}

// jsonLex splits an RFC 8259 text into tokens; ok=false on a lexical error.
func jsonLex(b []byte) ([]jtok, bool) {
	var toks []jtok
	i, n := 0, len(b)
	for i < n {
		c := b[i]
		switch {
		case c == ' ' || c == '\t' || c == '\n' || c == '\r':
			i++
		case c == '{' || c == '}' || c == '[' || c == ']' || c == ':' || c == ',':
			toks = append(toks, jtok{c, b[i : i+1]})
			i++
		case c == '"':
			j := i + 1
			for {
				if j >= n {
					return nil, false
				}
				if b[j] == '"' {
					break
				}
				if b[j] < 0x20 {
					return nil, false
				}
				if b[j] == '\\' {
					j++
					if j >= n {
						return nil, false
					}
					switch b[j] {
					case '"', '\\', '/', 'b', 'f', 'n', 'r', 't':
					case 'u':
						if j+4 >= n {
							return nil, false
						}
						for k := 1; k <= 4; k++ {
							h := b[j+k]
							if !(h >= '0' && h <= '9' || h >= 'a' && h <= 'f' || h >= 'A' && h <= 'F') {
								return nil, false
							}
						}
						j += 4
					default:
						return nil, false
					}
				}
				j++
			}
			toks = append(toks, jtok{'s', b[i : j+1]})
			i = j + 1
		case c == '-' || c >= '0' && c <= '9':
			j := i
			if b[j] == '-' {
				j++
			}
			if j >= n {
				return nil, false
			}
			if b[j] == '0' {
				j++
			} else if b[j] >= '1' && b[j] <= '9' {
				for j < n && b[j] >= '0' && b[j] <= '9' {
					j++
				}
			} else {
				return nil, false
			}
			if j < n && b[j] == '.' {
				j++
				s := j
				for j < n && b[j] >= '0' && b[j] <= '9' {
					j++
				}
				if s == j {
					return nil, false
				}
			}
			if j < n && (b[j] == 'e' || b[j] == 'E') {
				j++
				if j < n && (b[j] == '+' || b[j] == '-') {
					j++
				}
				s := j
				for j < n && b[j] >= '0' && b[j] <= '9' {
					j++
				}
				if s == j {
					return nil, false
				}
			}
			toks = append(toks, jtok{'n', b[i:j]})
			i = j
		default:
			ok := false
			for _, l := range []string{"true", "false", "null"} {
				if bytes.HasPrefix(b[i:], []byte(l)) {
					toks = append(toks, jtok{'l', b[i : i+len(l)]})
					i += len(l)
					ok = true
					break
				}
			}
			if !ok {
				return nil, false
			}
		}
	}
	return toks, true
}

// c07Compare returns "" when output is an acceptable minification of input.
func c07Compare(in, out []byte, keepNumbers bool, exact bool) string {
	ti, ok := jsonLex(in)
	if !ok {
		return "INCONCLUSIVE"
	}
	if !stdjson.Valid(in) {
		return "INCONCLUSIVE"
	}
	if !stdjson.Valid(out) {
		return "output rejected by encoding/json"
	}
	to, ok := jsonLex(out)
	if !ok {
		return "output rejected by RFC 8259 lexer"
	}
	if len(out) > len(in) {
		return fmt.Sprintf("output longer than input (%d > %d)", len(out), len(in))
	}
	if len(ti) != len(to) {
		return fmt.Sprintf("token count differs (%d vs %d)", len(ti), len(to))
	}
	for k := range ti {
		a, b := ti[k], to[k]
		if a.kind != b.kind {
			return fmt.Sprintf("token %d kind differs (%c vs %c)", k, a.kind, b.kind)
		}
		switch a.kind {
		case 'n':
			if keepNumbers {
				if !bytes.Equal(a.lex, b.lex) {
					return fmt.Sprintf("KeepNumbers: number lexeme changed %q -> %q", a.lex, b.lex)
				}
				continue
			}
			da, ok1 := parseNumberLexeme(a.lex, true)
			db, ok2 := parseNumberLexeme(b.lex, true)
			if !ok1 || !ok2 {
				return "number not parseable"
			}
			if exact && !decEqual(da, db) {
				return fmt.Sprintf("number value changed %q -> %q", a.lex, b.lex)
			}
		default:
			if !bytes.Equal(a.lex, b.lex) {
				return fmt.Sprintf("token %d changed %q -> %q", k, core.Trunc(string(a.lex), 60), core.Trunc(string(b.lex), 60))
			}
		}
	}
	return ""
}

// ---- generator

func genJSONNumber(r *core.Rand) []byte {
	var b []byte
	if r.Chance(1, 3) {
		b = append(b, '-')
	}
	digs := func(n int, mode int) {
		for i := 0; i < n; i++ {
			switch mode {
			case 0:
				b = append(b, byte('0'+r.Intn(10)))
			case 1:
				b = append(b, c08Digits[r.Intn(5)])
			case 2:
				if r.Chance(1, 7) {
					b = append(b, byte('0'+r.Intn(10)))
				} else {
					b = append(b, '9')
				}
			default:
				if r.Chance(1, 5) {
					b = append(b, byte('1'+r.Intn(9)))
				} else {
					b = append(b, '0')
				}
			}
		}
	}
	mode := r.Intn(4)
	long := r.Chance(1, 12)
	ln := func() int {
		if long {
			return r.Intn(400)
		}
		return r.Intn(9)
	}
	if r.Chance(1, 3) {
		b = append(b, '0')
	} else {
		b = append(b, byte('1'+r.Intn(9)))
		digs(ln(), mode)
	}
	if r.Chance(1, 2) {
		b = append(b, '.')
		digs(1+ln(), mode)
	}
	if r.Chance(2, 5) {
		b = append(b, "eE"[r.Intn(2)])
		switch r.Intn(3) {
		case 0:
			b = append(b, '+')
		case 1:
			b = append(b, '-')
		}
		switch r.Intn(8) {
		case 0:
			b = append(b, "9223372036854775807"...)
		case 1:
			b = append(b, "9223372036854775808"...)
		case 2:
			b = append(b, "922337203685477580"...)
			digs(1, 0)
		case 3:
			digs(1+r.Intn(24), 0)
		default:
			digs(1+r.Intn(3), 0)
		}
	}
	return b
}

var jsonWS = []string{"", "", "", " ", "\t", "\n", "\r", "  ", "\r\n", " \t \n"}

func genJSONString(r *core.Rand) []byte {
	b := []byte{'"'}
	n := r.Intn(10)
	if r.Chance(1, 8) {
		// strings that look like other tokens
		b = append(b, r.Pick([]string{"123", "-1.0e5", "0.50", "true", "null", "{", "}", "[1,2]", ":", ",", " ", "1e3", ".5", "-.5", "\\\\", "\\\"", "a\\\"b:c,d", "/*x*/", "//"})...)
		return append(b, '"')
	}
	for i := 0; i < n; i++ {
		switch r.Intn(12) {
		case 0:
			b = append(b, '\\', "\"\\/bfnrt"[r.Intn(8)])
		case 1:
			b = append(b, fmt.Sprintf("\\u%04x", r.Intn(0x10000))...)
		case 2:
			b = append(b, fmt.Sprintf("\\u%04X", 0xD800+r.Intn(0x400))...)
			b = append(b, fmt.Sprintf("\\u%04X", 0xDC00+r.Intn(0x400))...)
		case 3:
			b = append(b, []byte(string(rune(0x80+r.Intn(0x2000))))...)
		case 4:
			b = append(b, ' ')
		case 5:
			b = append(b, "0123456789-+.eE"[r.Intn(15)])
		case 6:
			b = append(b, "{}[]:,"[r.Intn(6)])
		case 7:
			b = append(b, 0x7f)
		default:
			b = append(b, byte('a'+r.Intn(26)))
		}
	}
	return append(b, '"')
}

func genJSONValue(r *core.Rand, depth int, w *bytes.Buffer) {
	ws := func() { w.WriteString(jsonWS[r.Intn(len(jsonWS))]) }
	k := r.Intn(10)
	if depth <= 0 && k >= 6 {
		k = r.Intn(6)
	}
	switch {
	case k < 3:
		w.Write(genJSONNumber(r))
	case k < 5:
		w.Write(genJSONString(r))
	case k < 6:
		w.WriteString(r.Pick([]string{"true", "false", "null"}))
	case k < 8:
		w.WriteByte('[')
		ws()
		n := r.Intn(5)
		for i := 0; i < n; i++ {
			if i > 0 {
				w.WriteByte(',')
				ws()
			}
			genJSONValue(r, depth-1, w)
			ws()
		}
		w.WriteByte(']')
	default:
		w.WriteByte('{')
		ws()
		n := r.Intn(5)
		var keys [][]byte
		for i := 0; i < n; i++ {
			if i > 0 {
				w.WriteByte(',')
				ws()
			}
			var key []byte
			if len(keys) > 0 && r.Chance(1, 4) {
				key = keys[r.Intn(len(keys))] // duplicate key
			} else {
				key = genJSONString(r)
				keys = append(keys, key)
			}
			w.Write(key)
			ws()
			w.WriteByte(':')
			ws()
			genJSONValue(r, depth-1, w)
			ws()
		}
		w.WriteByte('}')
	}
}

func genJSONText(r *core.Rand) []byte {
	var w bytes.Buffer
	w.WriteString(jsonWS[r.Intn(len(jsonWS))])
	if r.Chance(1, 40) {
		// deep nesting, built iteratively
		d := 10 + r.Intn(3000)
		open := make([]byte, 0, d)
		for i := 0; i < d; i++ {
			if r.Bool() {
				w.WriteString("[")
				open = append(open, ']')
			} else {
				w.WriteString(`{"k":`)
				open = append(open, '}')
			}
		}
		w.Write(genJSONNumber(r))
		for i := d - 1; i >= 0; i-- {
			w.WriteByte(open[i])
		}
	} else {
		genJSONValue(r, 1+r.Intn(5), &w)
	}
	w.WriteString(jsonWS[r.Intn(len(jsonWS))])
	return w.Bytes()
}

func isJSONNumber(b []byte) bool {
	t, ok := jsonLex(b)
	return ok && len(t) == 1 && t[0].kind == 'n' && len(t[0].lex) == len(b)
}

var c07Shared = [2]*mjson.Minifier{{KeepNumbers: false}, {KeepNumbers: true}}

func c07Minify(in []byte, keep bool) ([]byte, error, string) {
	var out bytes.Buffer
	var err error
	pan := ""
	func() {
		defer func() {
			if r := recover(); r != nil {
				pan = fmt.Sprint(r)
			}
		}()
		o := &mjson.Minifier{KeepNumbers: keep}
		if len(in)%2 == 0 {
			// one Minifier value serving every call from every worker, the way a registry holds it
			o = c07Shared[0]
			if keep {
				o = c07Shared[1]
			}
		}
		err = o.Minify(minify.New(), &out, bytes.NewReader(in), nil)
	}()
	return out.Bytes(), err, pan
}

func repoDir() string {
	if d := os.Getenv("VERIF_REPO"); d != "" {
		return d
	}
	return "/repo"
}

func c07Case(run *core.Run, label string, in []byte, keep bool) {
	run.Eval()
	cfg := fmt.Sprintf("json keepnumbers=%v", keep)
	out, err, pan := c07Minify(append([]byte{}, in...), keep)
	wit := map[string]interface{}{"config": cfg, "source": label, "input": core.Trunc(string(in), 4000)}
	if pan != "" {
		run.Violation(core.Key(cfg, in), "panic: "+pan, wit)
		return
	}
	if err != nil {
		if stdjson.Valid(in) {
			run.Violation(core.Key(cfg, in), "valid JSON rejected: "+err.Error(), wit)
		} else {
			run.Inconclusive()
		}
		return
	}
	res := c07Compare(in, out, keep, true)
	if res == "INCONCLUSIVE" {
		run.Inconclusive()
		return
	}
	if res != "" {
		wit["output"] = core.Trunc(string(out), 4000)
		run.Violation(core.Key(cfg, in), res+" | in="+core.Trunc(string(in), 120)+" out="+core.Trunc(string(out), 120), wit)
		return
	}
	if !bytes.Equal(in, out) {
		run.NonTrivial([]byte(cfg), in)
	}
}

func C07(run *core.Run) {
	run.ReplayWitnesses(func(f core.Finding, w core.Witness) (bool, string) {
		keep := w.Extra["keepnumbers"] == "true"
		in := []byte(w.Input)
		out, err, pan := c07Minify(append([]byte{}, in...), keep)
		if pan != "" || err != nil {
			return true, "panic/error"
		}
		res := c07Compare(in, out, keep, true)
		return res != "" && res != "INCONCLUSIVE", res
	})

	// 1. exhaustive: every JSON number lexeme up to length L in three contexts
	L := run.N(6, 8)
	var lexemes [][]byte
	enumLexemes(L, func(b []byte) {
		if isJSONNumber(b) {
			lexemes = append(lexemes, append([]byte{}, b...))
		}
	})
	run.Set("exhaustive_number_lexemes", len(lexemes))
	run.Set("exhaustive_length_bound", L)
	core.ParallelFor(len(lexemes), 0, func(i int) {
		lx := lexemes[i]
		for _, keep := range []bool{false, true} {
			c07Case(run, "enum-top", lx, keep)
			c07Case(run, "enum-array", []byte("[ "+string(lx)+" , "+string(lx)+"]"), keep)
			c07Case(run, "enum-object", []byte(`{"a" : `+string(lx)+` }`), keep)
		}
	})
	// 2. generated texts
	n := run.N(30000, 1500000)
	core.ParallelFor(n, 0, func(i int) {
		r := run.CaseRand("gen", i, n*3/5)
		in := genJSONText(r)
		keep := r.Chance(1, 3)
		if i < 4 {
			run.Sample(map[string]interface{}{"source": "generated", "keepnumbers": keep, "input": core.Trunc(string(in), 300)})
		}
		c07Case(run, "gen", in, keep)
	})
	// 3. corpus files from the repository tree (inputs only)
	var files []string
	for _, pat := range []string{"_benchmarks/*.json", "tests/json/corpus/*", "json/*.json"} {
		m, _ := filepath.Glob(filepath.Join(repoDir(), pat))
		files = append(files, m...)
	}
	nfiles := 0
	for _, f := range files {
		b, err := os.ReadFile(f)
		if err != nil || len(b) == 0 || len(b) > 8<<20 {
			continue
		}
		nfiles++
		for _, keep := range []bool{false, true} {
			c07Case(run, "file:"+strings.TrimPrefix(f, repoDir()+"/"), b, keep)
		}
	}
	run.Set("corpus_files", nfiles)
	run.Finish("JSON texts: every RFC 8259 number lexeme up to the length bound over digits {0,1,4,5,9} in top-level/array/object context (exhaustive) + seeded generated texts (nesting to 3000, duplicate keys, all escapes, all four whitespace kinds, extreme numbers) + repository JSON files; both KeepNumbers values, precision 0; a case is (config,input); non-trivial = accepted by the oracle's lexer and encoding/json and the minifier changed the bytes",
		[]string{"encoding/json.Valid decides validity of the output", "my RFC 8259 lexer yields the lexeme streams that are compared", "math/big decides numeric equality"}, 1000, false)
}
