package checks

// C16 — options only restrict minification and are honoured.
//
// Monitors (post-conditions observed on real minifier runs, per option):
//   js   Version      : acorn edition probe — smallest edition accepting the output <= max(Version, smallest edition
//                       accepting the input)
//   js   KeepVarNames : scope analysis of input vs output (C02's static monitor) under every Version
//   html Keep*        : raw tag-level scan of input vs output (end tags, document tags, quotes) + the DOM relation of
//                       C03, applied to the document and recursively to the bodies of kept conditional comments
//   json/css/svg Precision, json KeepNumbers, css KeepCSS2, svg KeepComments : lexeme level post-conditions
//   CLI flags         : the built command with one flag == the library with the corresponding option

import (
	"bytes"
	"fmt"
	"os"
	"os/exec"
	"regexp"
	"sort"
	"strings"

	"github.com/tdewolff/minify/v2"
	mcss "github.com/tdewolff/minify/v2/css"
	mhtml "github.com/tdewolff/minify/v2/html"
	mjson "github.com/tdewolff/minify/v2/json"
	msvg "github.com/tdewolff/minify/v2/svg"
	"verif/harness/core"
)

// ---------------------------------------------------------------- JS version gate

var c16Bait = []string{
	"x=a==null?undefined:a.b", "x=a!=null?a[0]:void 0", "x=a===null||a===undefined?undefined:a()", "x=a==null?b:a",
	"x=a===undefined||a===null?b:a", "x=a!==null&&a!==undefined?a:b", "x=a==null?void 0:a.b.c(d)", "x=a!=null?a:b()",
	"x=(a===null||a===void 0)?void 0:a[b]", "var v;x=v==null?undefined:v.p", "x=a==null?undefined:a`t`",
	"function f(x){try{g()}catch(e){return x}}h(f(1))", "function f(a,b){try{g(a)}catch(t){return a+b}return b}h(f(1,2))",
	"try{f()}catch(e){}", "try{f()}catch(e){g()}", "try{f()}catch(e){g(e)}", "try{f()}catch(e){}finally{h()}", "try{f()}catch({message}){}",
	"x=\"a\\nb\"", "x='\"\\''", "x=\"a\"+b+\"c\"", "x='it\\'s \"q\"'", "x=\"line1\\nline2\\nline3\\n\"", "x='\\n\\n\\n\\n'", "x=\"${a}\"",
	"x=Math.pow(a,2)", "x=a*a", "var o={a:a,b:b}", "var o={f:function(){}}", "var o={f:function(){return this}}",
	"if(a===undefined)b()", "x=typeof a===\"undefined\"", "for(var i=0;i<a.length;i++)b(a[i])", "x=a?a:b", "x=a?a.b:undefined",
	"x=a&&a.b", "x=a&&a.b&&a.b.c", "a||(a=b)", "a&&(a=b)", "a=a||b", "a=a&&b", "if(!a)a=b", "if(a==null)a=b",
	"x=1000000", "x=0.000001", "x=1e21", "x=0xff", "x=function(){return 1}", "x=function(a){return a*2}",
	"var a=1;var b=2;var c=a+b", "function f(a,b){if(a){return b}else{return a}}", "x=[a,b,c].indexOf(d)!==-1",
	"x=String(a)", "x=Boolean(a)", "x=a.b.c.d==null?undefined:a.b.c.d.e", "x=a[0]==null?undefined:a[0].b",
	// inputs that already use newer syntax ("unless the input already did")
	"a=a??b", "a??=b", "a||=b", "a=a**2", "async function f(){await g()}", "x={...a}", "x=1_000", "class A{#p=1;static{}}", "x=10n",
	"x=a?.b", "try{f()}catch{}", "x=`a${b}`", "let l=1;const c=2", "x=()=>1", "for(const v of a)b(v)", "class B extends A{constructor(){super()}}",
	"x=a?.b==null?undefined:a.b.c", "label:for(;;){break label}", "x=async()=>{for await(const v of a);}",
}

var c16Versions = []int{5, 2015, 2016, 2017, 2018, 2019, 2020, 2021, 2022}

func jsMinVer(src string) (int, error) {
	rep, err := nodePool().Call(map[string]interface{}{"op": "minver", "src": src, "kind": "script"})
	if err != nil {
		return 0, err
	}
	v, _ := rep["version"].(float64)
	return int(v), nil
}

func c16JSVersion(run *core.Run) {
	var progs []string
	progs = append(progs, c16Bait...)
	for _, c := range frozenCorpus("js") {
		progs = append(progs, c)
	}
	nGen := run.N(1500, 8000)
	for i := 0; i < nGen; i++ {
		r := run.CaseRand("c16js", i, nGen/2)
		src, _ := genJSProgram(r)
		progs = append(progs, src)
	}
	run.Set("js_programs", len(progs))
	firstGenerated := len(progs) - nGen
	core.ParallelFor(len(progs), 0, func(i int) {
		src := progs[i]
		if i >= firstGenerated || i < len(c16Bait) {
			// generated closed programs: the behaviour must also survive one target version below each gate
			// (C01's execution monitor, here under the option this property is about)
			ver := []int{2015, 2018, 2019, 2016}[i%4]
			c := jsConfig{Version: ver}
			if v := jsJudge(src, c); v.Verdict != "" && v.Verdict != "REJECTED" && !strings.HasPrefix(v.Verdict, "INCONCLUSIVE") {
				key := core.Key(c.String(), []byte(src))
				if run.IsKnown(core.Key("*", []byte(src))) {
					key = core.Key("*", []byte(src))
				}
				run.Violation(key, fmt.Sprintf("%s: %s | in=%s | out=%s", c, v.Verdict, core.Trunc(src, 300), core.Trunc(v.Out, 300)), map[string]string{"config": c.String(), "input": src, "output": v.Out})
			} else if v.Verdict == "" {
				run.Count("js_behaviour_compared_under_version")
			}
		}
		inV, err := jsMinVer(src)
		if err != nil {
			run.Inconclusive()
			return
		}
		if inV == 0 {
			run.Count("js_input_not_a_script")
			return
		}
		ia, aerr := jsAnalyze(src)
		for _, ver := range c16Versions {
			for _, keep := range []bool{false, true} {
				c := jsConfig{Version: ver, KeepVarNames: keep}
				out, merr, pan := jsMinify(src, c)
				if pan != "" {
					run.Violation(core.Key(c.String(), []byte(src)), fmt.Sprintf("%s: minifier panicked: %s | in=%s", c, pan, core.Trunc(src, 300)), map[string]string{"config": c.String(), "input": src})
					continue
				}
				if merr != nil {
					run.Count("js_rejected")
					continue
				}
				run.Eval()
				outV, err := jsMinVer(out)
				if err != nil {
					run.Inconclusive()
					continue
				}
				limit := ver
				if inV > limit {
					limit = inV
				}
				bad := ""
				switch {
				case outV == 0:
					// not valid in any edition: C09's business, not a version question
					run.Count("js_output_invalid_any_edition")
				case outV > limit:
					bad = fmt.Sprintf("output needs ES%d syntax, target is ES%d and the input needs only ES%d", outV, ver, inV)
				}
				if bad == "" && keep && aerr == nil {
					if s := c02Static(ia, out, c); s != "" {
						bad = "KeepVarNames: " + s
					}
				}
				if out != src {
					run.NonTrivial([]byte(c.String()), []byte(src))
				}
				run.Count(fmt.Sprintf("js_version_%d", ver))
				if outV > inV {
					run.Count("js_output_uses_newer_syntax_than_input_within_target")
				}
				if bad != "" {
					key := core.Key(c.String(), []byte(src))
					if run.IsKnown(core.Key("*", []byte(src))) {
						key = core.Key("*", []byte(src))
					}
					run.Violation(key, fmt.Sprintf("%s: %s | in=%s | out=%s", c, bad, core.Trunc(src, 300), core.Trunc(out, 300)), map[string]string{"config": c.String(), "input": src, "output": out})
				}
			}
		}
	})
}

// ---------------------------------------------------------------- HTML Keep*

var reAnyComment = regexp.MustCompile(`(?s)<!--.*?-->`)
var reCondComment = regexp.MustCompile(`(?s)<!--\[if [^\]]*\]>.*?<!\[endif\]-->`)

func splitCond(doc string) (rest string, conds []string) {
	conds = reCondComment.FindAllString(doc, -1)
	rest = reCondComment.ReplaceAllString(doc, "")
	return
}

func condBody(c string) (head, body string) {
	i := strings.IndexByte(c, '>') + 1
	return c[:i], c[i : len(c)-len("<![endif]-->")]
}

func countTags(tags []htmlTagInfo, end bool) map[string]int {
	m := map[string]int{}
	for _, t := range tags {
		if t.End == end {
			m[strings.ToLower(t.Name)]++
		}
	}
	return m
}

var docTagNames = map[string]bool{"html": true, "head": true, "body": true}

// htmlRawPost checks the raw-text post-conditions of the Keep* options between one input and its output.
func htmlRawPost(in, out string, o mhtml.Minifier) string {
	si, so := scanHTML(in), scanHTML(out)
	startIn, startOut := countTags(si.Tags, false), countTags(so.Tags, false)
	endIn, endOut := countTags(si.Tags, true), countTags(so.Tags, true)
	if o.KeepDocumentTags {
		for n := range docTagNames {
			if startOut[n] != startIn[n] {
				return fmt.Sprintf("KeepDocumentTags: %d <%s> start tags in the input, %d in the output", startIn[n], n, startOut[n])
			}
		}
	}
	if o.KeepEndTags {
		for n, k := range endIn {
			if docTagNames[n] && !o.KeepDocumentTags {
				continue
			}
			want := k
			if startOut[n] < startIn[n] {
				// an element that vanishes as a whole (empty script/style, attribute-less colgroup) takes its end
				// tag along; whether it may vanish is decided by the DOM relation below
				want -= startIn[n] - startOut[n]
			}
			if endOut[n] < want {
				return fmt.Sprintf("KeepEndTags: %d </%s> end tags in the input, %d in the output", k, n, endOut[n])
			}
		}
	}
	if o.KeepQuotes {
		// match start tags in order, ignoring elements that may vanish
		filter := func(tags []htmlTagInfo) []htmlTagInfo {
			var r []htmlTagInfo
			for _, t := range tags {
				n := strings.ToLower(t.Name)
				if t.End || (docTagNames[n] && !o.KeepDocumentTags) || n == "script" || n == "style" {
					continue
				}
				r = append(r, t)
			}
			return r
		}
		ti, to := filter(si.Tags), filter(so.Tags)
		same := len(ti) == len(to)
		for i := 0; same && i < len(ti); i++ {
			same = strings.EqualFold(ti[i].Name, to[i].Name)
		}
		if !same {
			return "UNMATCHED"
		}
		for i := range ti {
			quoted := map[string]bool{}
			for _, a := range ti[i].Attrs {
				if a.HasVal && a.Quote != 0 {
					quoted[strings.ToLower(a.Name)] = true
				}
			}
			// an attribute the minifier makes out of another one (meta content -> charset) has no namesake in the
			// input: where every value of the input tag was quoted, every value of the output tag is
			allQuoted, valued := true, 0
			for _, a := range ti[i].Attrs {
				if a.HasVal {
					valued++
					allQuoted = allQuoted && a.Quote != 0
				}
			}
			for _, a := range to[i].Attrs {
				if a.HasVal && a.Quote == 0 && quoted[strings.ToLower(a.Name)] {
					return fmt.Sprintf("KeepQuotes: attribute %s of <%s> was quoted in the input and is unquoted (%s) in the output", a.Name, ti[i].Name, core.Trunc(a.Value, 40))
				}
				if a.HasVal && a.Quote == 0 && allQuoted && valued > 0 {
					return fmt.Sprintf("KeepQuotes: every attribute value of <%s> was quoted in the input, %s is unquoted (%s) in the output", ti[i].Name, a.Name, core.Trunc(a.Value, 40))
				}
			}
		}
	}
	return ""
}

// c16HTMLJudge applies raw and DOM post-conditions to the document and to kept conditional comments.
func c16HTMLJudge(run *core.Run, in, out string, c c03Opts, m *minify.M, depth int) string {
	restIn, condIn := splitCond(in)
	restOut, condOut := splitCond(out)
	switch {
	case c.o.KeepComments:
		if strings.Join(condIn, "\x00") != strings.Join(condOut, "\x00") {
			return "KeepComments: a conditional comment was changed"
		}
	case c.o.KeepSpecialComments:
		if len(condIn) != len(condOut) {
			return fmt.Sprintf("KeepSpecialComments: %d conditional comments in the input, %d in the output", len(condIn), len(condOut))
		}
		for i := range condIn {
			hi, bi := condBody(condIn[i])
			ho, bo := condBody(condOut[i])
			if hi != ho {
				return fmt.Sprintf("KeepSpecialComments: conditional comment head changed %q -> %q", hi, ho)
			}
			if depth < 2 {
				run.Count("html_conditional_comment_bodies_checked")
				if s := c16HTMLJudge(run, bi, bo, c, m, depth+1); s != "" && s != "INCONCLUSIVE" {
					return "inside a kept conditional comment: " + s
				}
			}
		}
	default:
		if len(condOut) != 0 {
			return "conditional comment kept without KeepComments/KeepSpecialComments"
		}
	}
	switch s := htmlRawPost(restIn, restOut, c.o); s {
	case "":
	case "UNMATCHED":
		run.Count("html_quotes_tags_unmatched")
	default:
		return s
	}
	if depth > 0 {
		// the body of a conditional comment is minified as a document of its own
		restIn, restOut = "<!doctype html>"+restIn, "<!doctype html>"+restOut
	}
	return compareHTML(restIn, restOut, c, m)
}

func genCondDoc(r *core.Rand) string {
	doc := genHTMLDoc(r, false)
	n := r.Range(1, 2)
	for i := 0; i < n; i++ {
		inner := genHTMLDoc(r, false)
		inner = strings.TrimPrefix(inner, "<!doctype html>")
		inner = reAnyComment.ReplaceAllString(inner, "") // a comment cannot contain comments: the first --> ends it
		if strings.Contains(inner, "<![endif]") || strings.Contains(inner, "<!--[if") || strings.Contains(inner, "-->") || strings.Contains(inner, "--!>") {
			continue // would end the comment early
		}
		cc := "<!--[if " + r.Pick([]string{"lt IE 9", "IE", "gte IE 8", "(IE 6)|(IE 7)"}) + "]>" + inner + "<![endif]-->"
		if r.Bool() {
			doc = doc + cc
		} else if strings.HasPrefix(doc, "<!doctype html>") {
			doc = "<!doctype html>" + cc + doc[len("<!doctype html>"):]
		} else {
			doc = cc + doc
		}
	}
	return doc
}

func c16HTML(run *core.Run) {
	fixed := []string{
		"<!doctype html><html><head><title>t</title></head><body><ul><li>a</li><li>b</li></ul><p class=\"x\">p</p></body></html><!--[if lt IE 9]><ul><li>a</li><li>b</li></ul><![endif]-->",
		"<!doctype html><title>t</title><p>x</p><!--[if IE]><html><head><title>u</title></head><body><a href=\"x.html\" class=\"c d\">l</a> <i>i</i> <b>b</b></body></html><![endif]-->",
		"<!doctype html><title>t</title><!--[if gte IE 8]><form method=\"get\"><input type=\"text\" value=\"v\"></form><table><tr><td>1</td><td>2</td></tr></table><![endif]--><p>x</p>",
		"<!doctype html><title>t</title><p>x <!-- plain --> y</p><!--#include virtual=\"f\" --><!--[if IE]><p>a</p> <p>b</p><![endif]-->",
	}
	n := run.N(3000, 120000)
	core.ParallelFor(n+len(fixed)*128, 0, func(i int) {
		var doc string
		var c c03Opts
		if i < len(fixed)*128 {
			doc = fixed[i/128]
			bits := i % 128
			c.o = mhtml.Minifier{KeepComments: bits&1 != 0, KeepSpecialComments: bits&2 != 0, KeepDefaultAttrVals: bits&4 != 0, KeepDocumentTags: bits&8 != 0, KeepEndTags: bits&16 != 0, KeepQuotes: bits&32 != 0, KeepWhitespace: bits&64 != 0}
		} else {
			r := run.CaseRand("c16html", i, len(fixed)*128+n/2)
			bits := r.Intn(128)
			if r.Chance(1, 2) {
				bits |= 2 // favour kept conditional comments
			}
			c.o = mhtml.Minifier{KeepComments: bits&1 != 0, KeepSpecialComments: bits&2 != 0, KeepDefaultAttrVals: bits&4 != 0, KeepDocumentTags: bits&8 != 0, KeepEndTags: bits&16 != 0, KeepQuotes: bits&32 != 0, KeepWhitespace: bits&64 != 0}
			doc = genCondDoc(r)
		}
		m := c.registry()
		outB, err, pan := minifyBytes(m, "text/html", []byte(doc))
		if pan != "" {
			run.Violation(core.Key(c.String(), []byte(doc)), c.String()+": minifier panicked: "+pan, map[string]string{"config": c.String(), "input": doc})
			return
		}
		if err != nil {
			run.Count("html_rejected")
			return
		}
		out := string(outB)
		run.Eval()
		v := c16HTMLJudge(run, doc, out, c, m, 0)
		switch {
		case v == "":
			run.NonTrivial([]byte(c.String()), []byte(doc))
			run.Count("html_option_cases")
		case v == "INCONCLUSIVE":
			run.Inconclusive()
		case strings.HasPrefix(v, "COMMENTMOVE:") && run.KnownSignature("html-kept-comment-reparented"):
			// (C03's finding: a kept comment in front of an omitted tag ends up in the neighbouring element)
		default:
			key := core.Key(c.String(), []byte(doc))
			if run.IsKnown(core.Key("*", []byte(doc))) {
				key = core.Key("*", []byte(doc))
			}
			run.Violation(key, fmt.Sprintf("%s: %s | in=%s | out=%s", c, v, core.Trunc(doc, 400), core.Trunc(out, 400)), map[string]string{"config": c.String(), "input": doc, "output": out})
		}
	})
}

// ---------------------------------------------------------------- numbers: Precision / KeepNumbers / KeepCSS2

var reNumber = regexp.MustCompile(`[+-]?(?:[0-9]+\.?[0-9]*|\.[0-9]+)(?:[eE][+-]?[0-9]+)?`)

func numberHonoursPrecision(in, out string, p int) string {
	a, ok1 := parseNumberLexeme([]byte(in), true)
	b, ok2 := parseNumberLexeme([]byte(out), true)
	if !ok1 || !ok2 {
		return "UNPARSED"
	}
	if decEqual(a, b) {
		return ""
	}
	if p <= 0 {
		return fmt.Sprintf("%s became %s at precision 0", in, out)
	}
	if a.m.Sign() == 0 {
		return fmt.Sprintf("zero %s became %s", in, out)
	}
	if !withinHalfUnit(a, b, unitExponent(a, p)) {
		return fmt.Sprintf("%s became %s: further than half a unit of significant digit %d", in, out, p)
	}
	return ""
}

func genPlainNumber(r *core.Rand) string {
	var b strings.Builder
	if r.Chance(1, 4) {
		b.WriteByte('-')
	}
	ni := r.Intn(7)
	for i := 0; i < ni; i++ {
		b.WriteByte(r.Char("0123456789"))
	}
	nf := r.Intn(9)
	if r.Chance(1, 6) {
		nf = 9 + r.Intn(10) // more significant digits than a double holds: Precision 0 still means "as written"
	}
	if ni == 0 && nf == 0 {
		nf = 1
	}
	if nf > 0 {
		b.WriteByte('.')
		for i := 0; i < nf; i++ {
			b.WriteByte(r.Char("0123456789"))
		}
	}
	s := b.String()
	// JSON wants an integer part
	return s
}

func c16Numbers(run *core.Run) {
	n := run.N(4000, 80000)
	core.ParallelFor(n, 0, func(i int) {
		r := run.CaseRand("c16num", i, n/2)
		p := r.Intn(18)
		k := r.Range(1, 6)
		nums := make([]string, k)
		for j := range nums {
			nums[j] = genPlainNumber(r)
		}
		check := func(lang string, in string, out []byte, err error, extract func(string) []string, inNums []string) {
			if err != nil {
				run.Count(lang + "_rejected")
				return
			}
			run.Eval()
			outNums := extract(string(out))
			if len(outNums) != len(inNums) {
				run.Count(lang + "_precision_numbers_not_aligned")
				return
			}
			for j := range inNums {
				if s := numberHonoursPrecision(inNums[j], outNums[j], p); s != "" && s != "UNPARSED" {
					cfg := fmt.Sprintf("%s precision=%d", lang, p)
					run.Violation(core.Key(cfg, []byte(in)), fmt.Sprintf("%s: %s | in=%s | out=%s", cfg, s, core.Trunc(in, 200), core.Trunc(string(out), 200)), map[string]string{"config": cfg, "input": in, "output": string(out)})
					return
				}
			}
			run.Count(lang + "_precision_cases")
			run.NonTrivial([]byte(lang), []byte(in), []byte{byte(p)})
		}
		// JSON
		{
			var js []string
			for _, s := range nums {
				t := s
				neg := strings.HasPrefix(t, "-")
				t = strings.TrimPrefix(t, "-")
				if strings.HasPrefix(t, ".") {
					t = "0" + t
				}
				if strings.HasSuffix(t, ".") {
					t += "0"
				}
				if len(t) > 1 && t[0] == '0' && t[1] != '.' {
					t = strings.TrimLeft(t, "0")
					if t == "" || t[0] == '.' {
						t = "0" + t
					}
				}
				if neg {
					t = "-" + t
				}
				js = append(js, t)
			}
			in := "[" + strings.Join(js, " , ") + "]"
			mm := minify.New()
			mm.Add("application/json", &mjson.Minifier{Precision: p})
			out, err, _ := minifyBytes(mm, "application/json", []byte(in))
			check("json", in, out, err, func(s string) []string { return reNumber.FindAllString(s, -1) }, js)
			// KeepNumbers: lexemes stay as they are whatever the precision
			mk := minify.New()
			mk.Add("application/json", &mjson.Minifier{Precision: p, KeepNumbers: true})
			outK, errK, _ := minifyBytes(mk, "application/json", []byte(in))
			if errK == nil {
				run.Eval()
				if got := reNumber.FindAllString(string(outK), -1); strings.Join(got, ",") != strings.Join(js, ",") {
					cfg := fmt.Sprintf("json keepnumbers precision=%d", p)
					run.Violation(core.Key(cfg, []byte(in)), fmt.Sprintf("%s: number lexemes changed | in=%s | out=%s", cfg, in, outK), map[string]string{"config": cfg, "input": in, "output": string(outK)})
				}
				run.Count("json_keepnumbers_cases")
			}
		}
		// CSS: one simple length property per number
		{
			props := []string{"width", "height", "top", "left", "line-height", "opacity", "z-index", "flex-grow"}
			var sb strings.Builder
			sb.WriteString("a{")
			var used []string
			for j, s := range nums {
				prop := props[(j+i)%len(props)]
				v := s
				unit := ""
				switch prop {
				case "width", "height", "top", "left":
					unit = r.Pick([]string{"px", "em", "%", "rem"})
				case "z-index":
					v = strings.SplitN(strings.TrimPrefix(s, "."), ".", 2)[0]
					if v == "" || v == "-" {
						v = "1"
					}
				}
				used = append(used, v)
				fmt.Fprintf(&sb, "%s:%s%s;", prop, v, unit)
			}
			// numbers that are shorter with an exponent, also inside the arguments of functions (the option holds at
			// every depth of a value)
			for k := 0; k < 3; k++ {
				big := r.Pick([]string{"5000", "20000", "1000000", "30000", "0.0001", ".00002", "7000"})
				fn := r.Pick([]string{"clip:rect(%spx,%spx,0,0);", "transform:translate(%spx,%spx);", "margin-left:max(%spx,%spx);", "left:calc(%spx + %spx);", "background-position:%spx %spx;"})
				used = append(used, big)
				fmt.Fprintf(&sb, fn, big, r.Pick([]string{"40000", "9000", "1"}))
			}
			sb.WriteString("}")
			in := sb.String()
			for _, css2 := range []bool{false, true} {
				mm := minify.New()
				mm.Add("text/css", &mcss.Minifier{Precision: p, KeepCSS2: css2})
				out, err, _ := minifyBytes(mm, "text/css", []byte(in))
				extract := func(s string) []string {
					var res []string
					for _, decl := range strings.Split(strings.Trim(s[strings.IndexByte(s, '{')+1:], "}"), ";") {
						if k := strings.IndexByte(decl, ':'); k >= 0 {
							res = append(res, reNumber.FindString(decl[k+1:]))
						}
					}
					return res
				}
				if err == nil && !strings.Contains(string(out), "{") {
					continue
				}
				check("css", in, out, err, extract, used)
				if css2 && err == nil && regexp.MustCompile(`[0-9.][eE][+-]?[0-9]`).Match(out) {
					cfg := fmt.Sprintf("css keepcss2 precision=%d", p)
					run.Violation(core.Key(cfg, []byte(in)), fmt.Sprintf("%s: exponent notation in the output although CSS2 syntax is to be kept | in=%s | out=%s", cfg, in, out), map[string]string{"config": cfg, "input": in, "output": string(out)})
				}
			}
		}
		// SVG: plain numeric attributes
		{
			attrs := []string{"x", "y", "width", "height", "rx", "ry"}
			var sb strings.Builder
			sb.WriteString(`<svg xmlns="http://www.w3.org/2000/svg"><rect`)
			var used []string
			for j, s := range nums {
				if j >= len(attrs) {
					break
				}
				used = append(used, s)
				fmt.Fprintf(&sb, ` %s="%s"`, attrs[j], s)
			}
			// comments in several positions: after an element, as the only content of an element, between siblings,
			// inside text, before the root's first child
			sb.WriteString(`/>` + r.Pick([]string{`<!-- note -->`, `<g id="icons"><!-- note --></g>`, `<g> <!-- note --> </g><rect/>`, `<g><rect/><!-- note --><rect/></g>`, `<text>a<!-- note -->b</text>`, `<defs><!-- note --></defs><g/>`, `<g><!-- note --><!-- second --></g>`}) + `</svg>`)
			in := sb.String()
			for _, keepC := range []bool{false, true} {
				mm := minify.New()
				mm.Add("image/svg+xml", &msvg.Minifier{Precision: p, KeepComments: keepC})
				out, err, _ := minifyBytes(mm, "image/svg+xml", []byte(in))
				extract := func(s string) []string {
					var res []string
					for _, a := range attrs[:len(used)] {
						m := regexp.MustCompile(` ` + a + `="?([^" />]*)`).FindStringSubmatch(s)
						if m == nil {
							res = append(res, "0") // zero-valued attributes may be dropped
						} else {
							res = append(res, m[1])
						}
					}
					return res
				}
				check("svg", in, out, err, extract, used)
				if err == nil && (keepC != strings.Contains(string(out), "<!-- note -->") || keepC && strings.Count(string(out), "<!--") != strings.Count(in, "<!--")) {
					cfg := fmt.Sprintf("svg keepcomments=%v", keepC)
					run.Violation(core.Key(cfg, []byte(in)), fmt.Sprintf("%s: comment handling does not follow the option | in=%s | out=%s", cfg, in, out), map[string]string{"config": cfg, "input": in, "output": string(out)})
				}
			}
		}
	})
}

// ---------------------------------------------------------------- CLI flags

type c16Flag struct {
	flag, typ, probe string
}

var c16Flags = []c16Flag{
	{"--css-precision=3", "css", "a{width:1.23456px;height:0.000123456em}"},
	{"--html-keep-comments", "html", "<p>a<!-- c -->b</p>"},
	{"--html-keep-conditional-comments", "html", "<p>a</p><!--[if IE]><p>b</p><![endif]-->"},
	{"--html-keep-special-comments", "html", "<p>a</p><!--[if IE]><p>b</p><![endif]--><!--#include virtual=\"x\" -->"},
	{"--html-keep-default-attrvals", "html", "<form method=get><input type=text></form>"},
	{"--html-keep-document-tags", "html", "<html><head><title>t</title></head><body><p>x</p></body></html>"},
	{"--html-keep-end-tags", "html", "<ul><li>a</li><li>b</li></ul><p>x</p>"},
	{"--html-keep-whitespace", "html", "<p>a <b>b</b>  <i>c</i> </p> <p> d </p>"},
	{"--html-keep-quotes", "html", "<a href=\"x\" class=\"c\">l</a>"},
	{"--js-precision=3", "js", "x=1.23456;y=0.000123456"},
	{"--js-keep-var-names", "js", "function f(alpha,beta){var gamma=alpha+beta;return gamma*gamma}"},
	{"--js-version=2015", "js", "x=a==null?b:a;try{f()}catch(e){}"},
	{"--js-version=2019", "js", "x=a==null?b:a;try{f()}catch(e){}"},
	{"--json-precision=3", "json", "[1.23456,0.000123456]"},
	{"--json-keep-numbers", "json", "[1.0,2e3,0.10]"},
	{"--svg-keep-comments", "svg", "<svg xmlns=\"http://www.w3.org/2000/svg\"><!-- c --><path d=\"M0 0L10 10\"/></svg>"},
	{"--svg-precision=3", "svg", "<svg xmlns=\"http://www.w3.org/2000/svg\"><rect x=\"1.23456\" width=\"10.98765\"/></svg>"},
	{"--xml-keep-whitespace", "xml", "<a>  <b> x </b>  </a>"},
	// options of an embedded language reach every place of a document where that language occurs
	{"--js-keep-var-names", "html", "<script type=\"module\">function f(alpha,beta){var gamma=alpha+beta;return gamma*gamma}f(1,2)</script><script>function g(delta){var eps=delta*2;return eps}g(1)</script><script type=\"text/javascript\">function k(eta){var theta=eta+1;return theta}</script><p onclick=\"var zeta=1;h(zeta)\">x</p>"},
	{"--js-version=2015", "html", "<script type=\"module\">x=a==null?b:a;try{f()}catch(e){}</script><script>y=c==null?d:c;try{g()}catch(e){}</script>"},
	{"--js-precision=3", "html", "<script type=\"module\">x=1.23456</script><script>y=0.000123456</script>"},
	{"--css-precision=3", "html", "<style>a{width:1.23456px}</style><p style=\"height:0.000123456em\">x</p><style type=\"text/css\">b{width:9.87654px}</style>"},
	{"--svg-precision=3", "html", "<p>x</p><svg><rect x=\"1.23456\" width=\"10.98765\"/></svg>"},
	{"--json-precision=3", "html", "<script type=\"application/ld+json\">[1.23456,0.000123456]</script><script type=\"application/json\">[9.87654]</script>"},
	{"--css-precision=3", "svg", "<svg xmlns=\"http://www.w3.org/2000/svg\"><style>a{width:1.23456px}</style><rect style=\"stroke-width:1.23456px\" width=\"1\"/></svg>"},
}

func c16CLI(run *core.Run) {
	bin := os.Getenv("MINIFY_BIN")
	if bin == "" {
		run.Inconclusive()
		return
	}
	sorted := append([]c16Flag{}, c16Flags...)
	for _, f := range c16Flags {
		// the template dialects share the HTML options
		if f.typ == "html" {
			for _, t := range []string{"php", "asp", "tmpl", "mustache", "handlebars", "ejs", "gohtml"} {
				sorted = append(sorted, c16Flag{f.flag, t, f.probe})
			}
		}
	}
	sort.Slice(sorted, func(i, j int) bool {
		if sorted[i].flag != sorted[j].flag {
			return sorted[i].flag < sorted[j].flag
		}
		return sorted[i].typ < sorted[j].typ
	})
	for _, f := range sorted {
		run1 := func(flags ...string) ([]byte, error) {
			cmd := exec.Command(bin, append([]string{"--type=" + f.typ}, flags...)...)
			cmd.Stdin = strings.NewReader(f.probe)
			var so, se bytes.Buffer
			cmd.Stdout, cmd.Stderr = &so, &se
			err := cmd.Run()
			return so.Bytes(), err
		}
		got, err := run1(f.flag)
		def, err2 := run1()
		// the library announces deprecated options with a line on standard output
		if bytes.HasPrefix(got, []byte("DEPRECATED:")) {
			run.Count("cli_deprecation_notice_on_stdout")
			got = got[bytes.IndexByte(got, '\n')+1:]
		}
		if err != nil || err2 != nil {
			run.Inconclusive()
			run.Count("cli_flag_run_failed")
			continue
		}
		lib := func(flags []string) []byte {
			m, err := cliRegistry(flags)
			if err != nil {
				return nil
			}
			out, _, _ := minifyBytes(m, cliExtMap[f.typ], []byte(f.probe))
			return out
		}
		run.Eval()
		want, wantDef := lib([]string{f.flag}), lib(nil)
		if bytes.Equal(want, wantDef) {
			run.Inconclusive() // the probe does not distinguish the option: it decides nothing
			run.Count("cli_flag_probe_insensitive:" + f.flag + ":" + f.typ)
			continue
		}
		run.Count("cli_flags_checked")
		run.NonTrivial([]byte(f.flag), []byte(f.typ), []byte(f.probe))
		if !bytes.Equal(got, want) || !bytes.Equal(def, wantDef) {
			cfg := "cli --type=" + f.typ + " " + f.flag
			run.Violation(core.Key(cfg, []byte(f.probe)), fmt.Sprintf("%s: command printed %q (default %q), the library with the option gives %q (default %q)", cfg, got, def, want, wantDef), map[string]string{"config": cfg, "input": f.probe, "output": string(got)})
		}
	}
}

// ---------------------------------------------------------------- XML KeepWhitespace, JS Precision

// c16XML: with KeepWhitespace the C06 relation in its strict form (no white space run disappears, runs only
// collapse) must hold on generated documents and on the neighbour matrix around a white space run.
func c16XML(run *core.Run) {
	var docs [][]byte
	kinds := []string{"t", " ", "<![CDATA[c]]>", "<!--m-->", "<?pi a=\"1\"?>", "<b>", "</b>", "<e/>", "<e a=\"1\"/>"}
	for _, x := range kinds {
		for _, y := range kinds {
			for _, z := range kinds {
				for _, ws := range []string{" ", "\n  "} {
					d := "<r>" + x + ws + y + ws + z + "</r>"
					if strings.Count(d, "<b>") == strings.Count(d, "</b>") && !strings.Contains(d, "</b>"+ws+"<b>x") {
						docs = append(docs, []byte(balance(d)))
					}
				}
			}
		}
	}
	n := run.N(400, 6000)
	for i := 0; i < n; i++ {
		docs = append(docs, []byte(genXMLDoc(run.CaseRand("c16xml", i, n/2), map[string]int{})))
	}
	core.ParallelFor(len(docs), 0, func(i int) {
		in := docs[i]
		run.Eval()
		res, out := c06Judge(in, true)
		switch {
		case res == "":
			run.Count("xml_keepwhitespace_cases")
			run.NonTrivial([]byte("xml keepwhitespace"), in)
		case res == "INCONCLUSIVE":
			run.Inconclusive()
		case strings.HasPrefix(res, "GUARD:"):
			run.Count("guarded_out:" + res[6:])
		default:
			cfg := "xml keepwhitespace=true"
			run.Violation(core.Key(cfg, in), fmt.Sprintf("%s: %s | in=%q out=%q", cfg, res, core.Trunc(string(in), 300), core.Trunc(string(out), 300)), map[string]string{"config": cfg, "input": string(in), "output": string(out)})
		}
	})
}

// c16JSPrecision: Precision rounds number literals and nothing else.  The programs contain no number literal with
// more than one digit, only numeric-looking strings as property keys and values, so every Precision must leave
// their behaviour unchanged (C01's execution monitor).
func c16JSPrecision(run *core.Run) {
	n := run.N(150, 2500)
	core.ParallelFor(n, 8, func(i int) {
		r := run.CaseRand("c16jsprec", i, n/2)
		numStr := func() string {
			switch r.Intn(6) {
			case 0:
				return fmt.Sprint(10000 + r.Intn(90000))
			case 1:
				return fmt.Sprintf("%d.%d", 1+r.Intn(99), 1000+r.Intn(9000))
			case 2:
				return fmt.Sprint(100000000 + r.Intn(900000000))
			case 3:
				return fmt.Sprintf("0.%d", 10000+r.Intn(90000))
			case 4:
				return fmt.Sprintf("%de%d", 1000+r.Intn(9000), 1+r.Intn(3))
			}
			return fmt.Sprint(100 + r.Intn(900))
		}
		k := r.Range(2, 5)
		var keys []string
		for j := 0; j < k; j++ {
			keys = append(keys, numStr())
		}
		// canonical: the string is what the number prints as.  Only those may stand as literal keys of an object or
		// class (known finding js-string-key-noncanonical-number: the parser of the dependency turns every
		// decimal-looking string key into a number token); all of them may be used as computed string indices
		canonical := func(k string) bool {
			return !strings.ContainsAny(k, "e") && !(strings.Contains(k, ".") && (strings.HasSuffix(k, "0") || strings.HasPrefix(k, "0")))
		}
		var sb strings.Builder
		sb.WriteString("var o={};")
		for j, key := range keys {
			fmt.Fprintf(&sb, "o[%q]=%q;", key, "v"+fmt.Sprint(j))
		}
		for j, key := range keys {
			switch c := r.Intn(4); {
			case c == 0:
				fmt.Fprintf(&sb, "h(%d,o[%q]);", j+1, key)
			case c == 1:
				fmt.Fprintf(&sb, "h(%d,o[%q],%q in o);", j+1, key, key)
			case c == 2 || !canonical(key):
				fmt.Fprintf(&sb, "o[%q]+=%q;h(%d,o[%q]);", key, key, j+1, key)
			default:
				fmt.Fprintf(&sb, "h(%d,{%q:%d}[%q],class{static %q=%d}[%q]);", j+1, key, j, key, key, j, key)
			}
		}
		sb.WriteString("h(9,Object.keys(o).join());")
		src := sb.String()
		c := jsConfig{Precision: 1 + r.Intn(6), KeepVarNames: r.Bool()}
		run.Eval()
		v := jsJudge(src, c)
		switch {
		case v.Verdict == "":
			run.Count("js_precision_key_programs")
			run.NonTrivial([]byte(c.String()), []byte(src))
		case v.Verdict == "REJECTED" || strings.HasPrefix(v.Verdict, "INCONCLUSIVE"):
			run.Inconclusive()
		default:
			run.Violation(core.Key(c.String(), []byte(src)), fmt.Sprintf("%s: Precision changed a program without number literals: %s | in=%s | out=%s", c, v.Verdict, core.Trunc(src, 300), core.Trunc(v.Out, 300)), map[string]string{"config": c.String(), "input": src, "output": v.Out})
		}
	})
}

func C16(run *core.Run) {
	run.ReplayWitnesses(func(f core.Finding, w core.Witness) (bool, string) {
		// recorded C16 witnesses are JS programs: replay the edition probe at every target version
		inV, err := jsMinVer(w.Input)
		if err != nil || inV == 0 {
			return false, ""
		}
		for _, ver := range c16Versions {
			out, merr, _ := jsMinify(w.Input, jsConfig{Version: ver})
			if merr != nil {
				continue
			}
			outV, err := jsMinVer(out)
			if err == nil && outV != 0 && outV > ver && outV > inV {
				return true, fmt.Sprintf("version=%d: output %q needs ES%d", ver, core.Trunc(out, 80), outV)
			}
		}
		return false, ""
	})
	c16JSVersion(run)
	c16HTML(run)
	c16Numbers(run)
	c16XML(run)
	c16JSPrecision(run)
	c16CLI(run)
	run.Finish("js: smallest acorn edition accepting the output <= max(Version, smallest edition accepting the input), for Version in {5,2015..2022} x KeepVarNames, plus C02's scope monitor under KeepVarNames; html: Keep* post-conditions on raw tags (end tags, document tags, quotes) and the C03 relation, on the document and inside kept conditional comments, over all 128 option sets; numbers: every output lexeme within half a unit of the Precision-th significant digit of its input lexeme (json/css/svg), unchanged under KeepNumbers, no exponents under KeepCSS2, comments per svg KeepComments; xml: the C06 relation in its KeepWhitespace form (no white space run disappears) on a neighbour matrix and generated documents; js Precision: programs whose only numbers are strings (property keys, values) behave the same at every Precision; CLI: command with one flag == library with the option, on probes that distinguish the option",
		[]string{"acorn's edition switch defines which syntax belongs to which ECMAScript version", "x/net/html and my raw tag scanner parse both texts; conditional comments are recognised textually (generator controlled form)",
			"the semantic guarantees under option combinations are decided by C01-C07, whose workloads randomise the same options"}, 1000, false)
}
