package checks

// C10 — minifiers are total: no panic, no hang, input handed back on error.
// Monitors: child-process isolation with pre-call logging (fatal errors attribute
// to the logged case), panic recovery, allocation monitor (TotalAlloc delta),
// CPU-time scaling monitor over amplifier families, original-preserved monitor.

import (
	"bytes"
	"encoding/gob"
	"errors"
	"fmt"
	"io"
	"net/http"
	"net/http/httptest"
	"os"
	"os/exec"
	"path/filepath"
	"runtime"
	"runtime/debug"
	"strings"
	"sync"
	"syscall"
	"time"

	"github.com/tdewolff/minify/v2"
	mcss "github.com/tdewolff/minify/v2/css"
	mhtml "github.com/tdewolff/minify/v2/html"
	mjs "github.com/tdewolff/minify/v2/js"
	mjson "github.com/tdewolff/minify/v2/json"
	msvg "github.com/tdewolff/minify/v2/svg"
	mxml "github.com/tdewolff/minify/v2/xml"
	"verif/harness/core"
)

type C10Case struct {
	Kind   string // minify | bytes | string | reader | writer | Number | Decimal | Mediatype | DataURI
	MT     string
	Cfg    int
	Prec   int
	Input  []byte
	Label  string
	Family string // amplifier family (scaling monitor) or ""
	Size   int    // amplifier size step 0,1,2
}

var c10Precs = []int{-1, 0, 1, 17, 1000000000, -9223372036854775808}

func c10Registry(cfg int) *minify.M {
	p := c10Precs[cfg%len(c10Precs)]
	o := &Opts{}
	switch cfg % 4 {
	case 1:
		o.HTML = mhtml.Minifier{KeepComments: true, KeepDefaultAttrVals: true, KeepDocumentTags: true, KeepEndTags: true, KeepQuotes: true, KeepWhitespace: true, KeepSpecialComments: true}
		o.CSS = mcss.Minifier{KeepCSS2: true, Precision: p}
		o.JS = mjs.Minifier{KeepVarNames: true, Version: 2015, Precision: p}
		o.JSON = mjson.Minifier{KeepNumbers: true, Precision: p}
		o.SVG = msvg.Minifier{KeepComments: true, Precision: p}
		o.XML = mxml.Minifier{KeepWhitespace: true}
	case 2:
		o.HTML = mhtml.Minifier{TemplateDelims: [2]string{"{{", "}}"}, KeepSpecialComments: true}
		o.CSS = mcss.Minifier{Precision: p}
		o.JS = mjs.Minifier{Version: 5, Precision: p}
		o.JSON = mjson.Minifier{Precision: p}
		o.SVG = msvg.Minifier{Precision: p}
	case 3:
		o.CSS = mcss.Minifier{Inline: true, Precision: p}
		o.HTML = mhtml.Minifier{TemplateDelims: [2]string{"<?", "?>"}}
		o.JS = mjs.Minifier{Version: 2022}
	}
	return newM(o)
}

// c10Exec runs one case under the in-process monitors; returns "" or a description.
func c10Exec(c C10Case) (bad string, cpu time.Duration, alloc uint64) {
	var ms0, ms1 runtime.MemStats
	runtime.ReadMemStats(&ms0)
	t0 := threadCPU()
	defer func() {
		cpu = threadCPU() - t0
		runtime.ReadMemStats(&ms1)
		alloc = ms1.TotalAlloc - ms0.TotalAlloc
		if r := recover(); r != nil {
			bad = fmt.Sprintf("panic: %v\n%s", r, core.Trunc(string(debug.Stack()), 1500))
		}
	}()
	in := append([]byte{}, c.Input...)
	switch c.Kind {
	case "Number":
		minify.Number(in, c.Prec)
	case "Decimal":
		minify.Decimal(in, c.Prec)
	case "Mediatype":
		minify.Mediatype(in)
	case "DataURI":
		minify.DataURI(c10Registry(c.Cfg), in)
	case "minify":
		var out bytes.Buffer
		c10Registry(c.Cfg).Minify(c.MT, &out, bytes.NewReader(in))
	case "bytes":
		// the caller's slice, with spare capacity and a canary behind it
		buf := make([]byte, len(in)+8)
		copy(buf, in)
		for i := len(in); i < len(buf); i++ {
			buf[i] = 0xA5
		}
		v := buf[:len(in)]
		out, err := c10Registry(c.Cfg).Bytes(c.MT, v)
		if err != nil && !bytes.Equal(out, c.Input) {
			return fmt.Sprintf("Bytes returned an error (%v) together with data that differs from the caller's original", err), 0, 0
		}
		if !bytes.Equal(v, c.Input) {
			return "Bytes modified the caller's slice", 0, 0
		}
		for i := len(in); i < len(buf); i++ {
			if buf[i] != 0xA5 {
				return "Bytes wrote behind the caller's slice (within its capacity)", 0, 0
			}
		}
	case "string":
		out, err := c10Registry(c.Cfg).String(c.MT, string(in))
		if err != nil && out != string(c.Input) {
			return "String returned an error together with a string that differs from the original", 0, 0
		}
	case "reader":
		io.Copy(io.Discard, c10Registry(c.Cfg).Reader(c.MT, bytes.NewReader(in)))
	case "writer":
		w := c10Registry(c.Cfg).Writer(c.MT, io.Discard)
		w.Write(in)
		w.Close()
	case "respwriter", "middleware":
		// the HTTP wrappers, also with minifiers that give up before they read anything (the handler's Write and the
		// wrapper's Close must still return)
		m := c10Registry(c.Cfg)
		m.AddFunc("text/x-failfast", func(_ *minify.M, _ io.Writer, _ io.Reader, _ map[string]string) error {
			return errors.New("c10: not today")
		})
		m.AddFunc("text/x-halfread", func(_ *minify.M, w io.Writer, r io.Reader, _ map[string]string) error {
			b := make([]byte, 3)
			r.Read(b)
			w.Write(b)
			return errors.New("c10: lost interest")
		})
		handler := http.HandlerFunc(func(w http.ResponseWriter, _ *http.Request) {
			w.Header().Set("Content-Type", c.MT)
			for p := 0; p < len(in); p += 4096 {
				e := p + 4096
				if e > len(in) {
					e = len(in)
				}
				w.Write(in[p:e])
			}
			if len(in) == 0 {
				w.Write(nil)
			}
		})
		req := httptest.NewRequest("GET", "http://example.com/x", nil)
		rec := httptest.NewRecorder()
		if c.Kind == "respwriter" {
			mw := m.ResponseWriter(rec, req)
			handler.ServeHTTP(mw, req)
			mw.Close()
		} else {
			m.Middleware(handler).ServeHTTP(rec, req)
		}
	}
	return "", 0, 0
}

func c10CaseMarker(f func()) { f() }

func processCPU() time.Duration {
	var ru syscall.Rusage
	if err := syscall.Getrusage(0 /* RUSAGE_SELF */, &ru); err != nil {
		return 0
	}
	return time.Duration(ru.Utime.Sec+ru.Stime.Sec)*time.Second + time.Duration(ru.Utime.Usec+ru.Stime.Usec)*time.Microsecond
}

func threadCPU() time.Duration {
	var ru syscall.Rusage
	if err := syscall.Getrusage(1 /* RUSAGE_THREAD */, &ru); err != nil {
		return 0
	}
	return time.Duration(ru.Utime.Sec+ru.Stime.Sec)*time.Second + time.Duration(ru.Utime.Usec+ru.Stime.Usec)*time.Microsecond
}

// ---------------- child

func init() {
	Children["c10child"] = func(args []string) {
		debug.SetMaxStack(256 << 20)
		debug.SetMemoryLimit(6 << 30)
		f, err := os.Open(args[0])
		if err != nil {
			fmt.Println(err)
			os.Exit(3)
		}
		var cases []C10Case
		if err := gob.NewDecoder(f).Decode(&cases); err != nil {
			fmt.Println(err)
			os.Exit(3)
		}
		f.Close()
		log, _ := os.OpenFile(args[1], os.O_CREATE|os.O_WRONLY|os.O_APPEND, 0o644)
		runtime.LockOSThread()
		start := 0
		if len(args) > 2 {
			fmt.Sscan(args[2], &start)
		}
		for i := start; i < len(cases); i++ {
			c := cases[i]
			fmt.Fprintf(log, "START %d\n", i)
			reps := 1
			if c.Family != "" {
				reps = 3
			}
			var best time.Duration = -1
			bad := ""
			var alloc uint64
			for k := 0; k < reps; k++ {
				done := make(chan struct{})
				var b string
				var cpu time.Duration
				var al uint64
				cpu0 := processCPU()
				go c10CaseMarker(func() {
					runtime.LockOSThread()
					b, cpu, al = c10Exec(c)
					close(done)
				})
				select {
				case <-done:
				case <-time.After(25 * time.Second):
					// what the watchdog saw: a case that is parked in a blocking primitive (hang), one that has burnt
					// CPU all the time (does not terminate), or one that simply did not get the processor (undecided)
					kind := "starved"
					if ok, _ := blockedForever("checks.c10CaseMarker"); ok {
						kind = "blocked"
					} else if processCPU()-cpu0 >= 15*time.Second {
						kind = "busy"
					}
					fmt.Fprintf(log, "TIMEOUT %d %s\n", i, kind)
					log.Sync()
					os.Exit(4)
				}
				if b != "" {
					bad = b
				}
				if best < 0 || cpu < best {
					best = cpu
				}
				alloc = al
			}
			fmt.Fprintf(log, "END %d cpu=%d alloc=%d bad=%s\n", i, best.Microseconds(), alloc, strings.ReplaceAll(core.Trunc(bad, 1500), "\n", "\\n"))
		}
		fmt.Fprintf(log, "DONE\n")
	}
}

// ---------------- workload

func amplify(family string, n int) (string, []byte) {
	rep := func(s string, k int) string { return strings.Repeat(s, k) }
	switch family {
	case "js-parens":
		return "application/javascript", []byte("x=" + rep("(", n) + "1" + rep(")", n))
	case "js-arrays":
		return "application/javascript", []byte("x=" + rep("[", n) + rep("]", n))
	case "js-blocks":
		return "application/javascript", []byte(rep("{", n) + rep("}", n))
	case "js-cond":
		return "application/javascript", []byte("x=" + rep("a?", n) + "b" + rep(":c", n))
	case "js-not":
		return "application/javascript", []byte("x=" + rep("!", n) + "a")
	case "js-add":
		return "application/javascript", []byte("x=a" + rep("+a", n))
	case "js-strcat":
		return "application/javascript", []byte("x='y'" + rep("+'y'", n))
	case "js-vars":
		return "application/javascript", []byte(rep("var a=1;", n))
	case "js-manyvars":
		var sb strings.Builder
		sb.WriteString("function f(){")
		for i := 0; i < n; i++ {
			fmt.Fprintf(&sb, "var v%d=%d;", i, i)
		}
		sb.WriteString("}")
		return "application/javascript", []byte(sb.String())
	case "js-funcs":
		return "application/javascript", []byte(rep("function f(){", n) + rep("}", n))
	case "js-template":
		return "application/javascript", []byte("x=" + rep("`${", n) + "1" + rep("}`", n))
	case "js-ifelse":
		return "application/javascript", []byte(rep("if(a)b();else ", n) + "c()")
	case "html-nest":
		return "text/html", []byte(rep("<a>", n) + "x" + rep("</a>", n))
	case "html-divs":
		return "text/html", []byte(rep("<div>", n))
	case "html-attrs":
		var sb strings.Builder
		sb.WriteString("<p")
		for i := 0; i < n; i++ {
			fmt.Fprintf(&sb, " a%d=\"v\"", i)
		}
		sb.WriteString(">")
		return "text/html", []byte(sb.String())
	case "html-ps":
		return "text/html", []byte(rep("<p>a</p> ", n))
	case "html-text":
		return "text/html", []byte(rep("a &amp; b  ", n))
	case "html-comments":
		return "text/html", []byte(rep("<!-- c -->", n))
	case "html-space-comments":
		return "text/html", []byte("<p>items: " + rep("<!--item-->", n))
	case "html-space-inline":
		return "text/html", []byte("<p>items: " + rep("<i></i>", n) + "x")
	case "html-endtags":
		return "text/html", []byte("a" + rep(" </b>", n))
	case "html-inline-ws":
		return "text/html", []byte(rep("<i>x</i> ", n))
	case "css-decls":
		return "text/css", []byte("a{" + rep("margin:0px 0px 0px 0px;", n) + "}")
	case "css-rules":
		return "text/css", []byte(rep("a{b:c}", n))
	case "css-calc":
		return "text/css", []byte("a{width:" + rep("calc(", n) + "1px" + rep(")", n) + "}")
	case "css-values":
		return "text/css", []byte("a{b:" + rep("1px ", n) + "}")
	case "css-selectors":
		return "text/css", []byte(rep("a,", n) + "b{c:d}")
	case "css-blocks":
		return "text/css", []byte(rep("@media x{", n) + rep("}", n))
	case "svg-path":
		return "image/svg+xml", []byte(`<svg><path d="M0 0` + rep(" L1 1", n) + `"/></svg>`)
	case "svg-nest":
		return "image/svg+xml", []byte(rep("<g>", n) + rep("</g>", n))
	case "svg-arcs":
		return "image/svg+xml", []byte(`<svg><path d="M0 0` + rep("a1 1 0 0 1 2 2", n) + `"/></svg>`)
	case "xml-nest":
		return "text/xml", []byte(rep("<a>", n) + rep("</a>", n))
	case "xml-text":
		return "text/xml", []byte("<a>" + rep("x  <!--c--> ", n) + "</a>")
	case "xml-attrs":
		return "text/xml", []byte("<a" + rep(` b="&quot;c'"`, 1) + ">" + rep(`<b c="d &amp; e"/>`, n) + "</a>")
	case "json-nest":
		return "application/json", []byte(rep("[", n) + rep("]", n))
	case "json-numbers":
		return "application/json", []byte("[" + rep("1.50e+3,", n) + "0]")
	case "json-objects":
		return "application/json", []byte(rep(`{"a":`, n) + "1" + rep("}", n))
	}
	return "", nil
}

var c10Families = []string{"js-parens", "js-arrays", "js-blocks", "js-cond", "js-not", "js-add", "js-strcat", "js-vars", "js-manyvars", "js-funcs", "js-template", "js-ifelse",
	"html-nest", "html-divs", "html-attrs", "html-ps", "html-text", "html-comments", "html-space-comments", "html-space-inline", "html-endtags", "html-inline-ws", "css-decls", "css-rules", "css-calc", "css-values", "css-selectors", "css-blocks",
	"svg-path", "svg-nest", "svg-arcs", "xml-nest", "xml-text", "xml-attrs", "json-nest", "json-numbers", "json-objects"}

func c10BuildCases(run *core.Run) []C10Case {
	var cases []C10Case
	langOf := map[string]string{"text/html": "html", "text/css": "css", "application/javascript": "js", "application/json": "json", "image/svg+xml": "svg", "text/xml": "xml"}
	// 1. corpus, truncations, mutations, random bytes per media type
	for _, mt := range sixTypes {
		var pool []corpusFile
		for i, s := range smallInputs[mt] {
			pool = append(pool, corpusFile{fmt.Sprintf("small#%d", i), []byte(s)})
		}
		for i, s := range frozenCorpus(langOf[mt]) {
			pool = append(pool, corpusFile{fmt.Sprintf("test-table#%d", i), []byte(s)})
		}
		pool = append(pool, repoCorpus(mt, run.N(150000, 4<<20))...)
		nmut := run.N(3, 40)
		for fi, f := range pool {
			cases = append(cases, C10Case{Kind: "minify", MT: mt, Cfg: fi % 4, Input: f.Data, Label: f.Name})
			if fi%5 == 0 {
				cases = append(cases, C10Case{Kind: []string{"bytes", "string", "reader", "writer"}[fi/5%4], MT: mt, Cfg: fi % 4, Input: f.Data, Label: f.Name})
			}
			// truncations
			ntr := run.N(8, 64)
			if len(f.Data) > 100000 {
				ntr = 4
			}
			for k := 1; k <= ntr; k++ {
				cut := len(f.Data) * k / (ntr + 1)
				cases = append(cases, C10Case{Kind: "minify", MT: mt, Cfg: k % 4, Input: f.Data[:cut], Label: fmt.Sprintf("trunc(%s,%d)", f.Name, cut)})
				if k%4 == 0 {
					cases = append(cases, C10Case{Kind: "bytes", MT: mt, Cfg: k % 4, Input: f.Data[:cut], Label: fmt.Sprintf("trunc(%s,%d)", f.Name, cut)})
				}
			}
			if len(f.Data) > 100000 {
				continue
			}
			for j := 0; j < nmut; j++ {
				r := run.CaseRand("mut-"+mt, fi*1000+j, 1<<30)
				if j >= nmut*3/5 {
					r = core.Stream(uint64(run.Seed), "c10mut", mt, fmt.Sprint(fi), fmt.Sprint(j))
				}
				other := pool[r.Intn(len(pool))].Data
				in := mutate(r, langOf[mt], f.Data, other)
				kind := "minify"
				if j%6 == 5 {
					kind = "bytes"
				}
				cases = append(cases, C10Case{Kind: kind, MT: mt, Cfg: r.Intn(6), Input: in, Label: fmt.Sprintf("mut(%s)#%d", f.Name, j)})
			}
		}
		// random bytes / non-UTF-8
		nr := run.N(150, 4000)
		for i := 0; i < nr; i++ {
			r := run.CaseRand("rand-"+mt, i, nr/2)
			n := r.Intn(200)
			b := make([]byte, n)
			mode := r.Intn(3)
			for k := range b {
				switch mode {
				case 0:
					b[k] = byte(r.Intn(256))
				case 1:
					b[k] = r.Char("<>/=\"'&;:{}()[]!-?#%@\\ \n\tabc019\x00\xff\xc3\xe2")
				default:
					d := mutDict[langOf[mt]]
					tok := d[r.Intn(len(d))]
					b = append(b[:k], tok...)
					if len(b) > n {
						b = b[:n]
					}
					if k >= len(b) {
						break
					}
				}
			}
			cases = append(cases, C10Case{Kind: []string{"minify", "minify", "minify", "bytes", "string"}[i%5], MT: mt, Cfg: i % 6, Input: b, Label: fmt.Sprintf("random#%d", i)})
		}
	}
	// 1b. every prefix of small hostile inputs (escapes, line continuations and percent escapes cut in the middle),
	// alone and embedded where the helper functions are reached from
	hostile := map[string][]string{
		"text/css":               {"a{content:\"x\\\ny\\\rz\\\r\nw\";b:url(data:,a%2f%41%)}", "a{b:url('data:image/gif,GIF89a%0A%');c:'q\\\r", "@import \"a\\\nb\\\r\";a{b:c\\\r}"},
		"text/html":              {"<style>a{content:\"x\\\ny\\\r\"}</style><p style=\"content:'a\\\n\\\r\">", "<a href=\"data:text/plain,a%2f%4\">x</a>"},
		"application/javascript": {"x=\"a\\\nb\\\r\";y=`c\\\r${1}\\\r`;z='\\u{41}\\x4"},
		"image/svg+xml": {"<svg><path d=\"M1e1 2e-1L.5.5z\" style=\"a:'b\\\n\\\r\"/></svg>",
			// constructs the minifier looks ahead from (empty containers, raw content, view boxes of every arity)
			"<svg viewBox=\"0 0 100\"><defs/><defs></defs><g><defs><path d=\"M0 0\"/></defs></g><g></g><style>a{b:c}</style><![CDATA[x]]><text> a <tspan>b</tspan> </text><svg viewBox=\"100\"/><svg viewBox=\"0.0,0.0\"/><metadata><a/><b></b></metadata></svg>"},
		"text/xml":         {"<a b=\"&#1\">&#x1;&am</a>"},
		"application/json": {"{\"a\":\"\\u00\",\"b\":1.5e-}"},
	}
	hostile["text/css"] = append(hostile["text/css"], "a{margin:0;color:!important;fill:!important;margin:!important}b{color: !important ;background:! important;c:}", "a{b:;c: ;d:!important;e:,;f:/;g:();h:url()}")
	hostile["text/html"] = append(hostile["text/html"], "<p>x<svg viewBox=\"0 0 100\"><defs/><g><defs></defs></g><defs", "<ul><li>a<li>b</ul><table><tr><td>c<td>d</table><select><option>e<option>f</select><p>g<p>h")
	for _, mt := range sixTypes {
		// ... and of the small everyday inputs of the type
		for _, sm := range smallInputs[mt] {
			if len(sm) <= 300 {
				hostile[mt] = append(hostile[mt], sm)
			}
		}
		for hi, h := range hostile[mt] {
			for cut := 0; cut <= len(h); cut++ {
				cases = append(cases, C10Case{Kind: []string{"minify", "bytes"}[cut%2], MT: mt, Cfg: cut % 6, Input: []byte(h[:cut]), Label: fmt.Sprintf("prefix(hostile#%d,%d)", hi, cut)})
			}
		}
	}
	for ui, u := range []string{"data:image/gif,GIF89a%0A%41%", "data:,a%2f%", "data:text/plain;charset=utf-8;base64,aGk=%", "data:;base64,aGk%3D"} {
		for cut := 5; cut <= len(u); cut++ {
			pre := u[:cut]
			cases = append(cases, C10Case{Kind: "DataURI", Cfg: cut % 6, Input: []byte(pre), Label: fmt.Sprintf("prefix(uri#%d,%d)", ui, cut)})
			cases = append(cases, C10Case{Kind: "minify", MT: "text/css", Cfg: cut % 6, Input: []byte("a{b:url(" + pre + ")}c{d:url(\"" + pre + "\")}"), Label: fmt.Sprintf("css-prefix(uri#%d,%d)", ui, cut)})
			cases = append(cases, C10Case{Kind: "minify", MT: "text/html", Cfg: cut % 6, Input: []byte("<img src=\"" + pre + "\"><a href='" + pre + "'>x</a>"), Label: fmt.Sprintf("html-prefix(uri#%d,%d)", ui, cut)})
		}
	}
	// 1d. degenerate tokens in every value position of the declarations that have a handler of their own: each value
	// token in turn is repeated, replaced by, and preceded by, an empty string / an unterminated string / an empty function / a
	// lone sign or delimiter.  Property handlers index into their tokens; an empty token is what makes them overrun.
	cssDecls := []string{"font:italic bold 12px/normal \"a b\",serif", "font-family:\"a b\",'c',serif", "font-weight:bold", "font:12px a",
		"background:url(a.png) no-repeat 0 0 / auto padding-box border-box #fff", "background:url(a) padding-box border-box", "background:red content-box padding-box,url(b) border-box", "background-position:right 10% bottom 20%", "background-size:auto auto",
		"margin:1px 2px 3px 4px", "padding:0 0 0 0", "border:1px solid #000", "border-radius:1px 2px / 3px 4px", "outline:none 0 red", "box-shadow:0 0 0 0 #000,inset 1px 1px red",
		"transition:all 1s ease 0s", "animation:x 1s infinite", "transform:translate(1px,2px) rotate(45deg)", "flex:1 1 0%", "flex-flow:row nowrap",
		"color:rgb(1,2,3)", "color:hsl(1,2%,3%)", "color:rgba(1 2 3 / 50%)", "fill:#ff0000", "width:calc(1px + 2px)", "content:\"a\" attr(x)", "quotes:\"a\" \"b\"",
		"grid-template-areas:\"a b\" \"c d\"", "unicode-range:U+0-10,U+5-8", "src:local(\"a\"),url(b) format(\"c\")", "filter:alpha(opacity=50)", "text-decoration:none underline",
		"z-index:1", "will-change:transform", "list-style:none inside url(a)", "white-space:nowrap", "text-shadow:0 0 1px red", "columns:1 auto"}
	degenerate := []string{"\"\"", "''", "\"", "'", "()", "url()", "url(\"\")", "local()", "-", "+", ".", "#", ",", "/", "!", "\\", "0", "-0", "%", "e", "U+", "var(--)"}
	nd := 0
	for di, d := range cssDecls {
		colon := strings.IndexByte(d, ':')
		prop, toks := d[:colon], strings.Split(d[colon+1:], " ")
		for ti := range toks {
			for gi, g := range degenerate {
				for mode := 0; mode < 3; mode++ {
					vals := append([]string{}, toks...)
					switch mode {
					case 0:
						vals[ti] = g
					case 1:
						vals[ti] = g + " " + vals[ti]
					default: // the token itself repeated (once per token is enough)
						if gi > 0 {
							continue
						}
						vals[ti] = vals[ti] + " " + vals[ti]
					}
					decl := prop + ":" + strings.Join(vals, " ")
					mt, in := "text/css", "a{"+decl+"}"
					switch (di + ti + gi + mode) % 4 {
					case 1:
						mt, in = "text/css;inline=1", decl
					case 2:
						in = "a{" + decl // end of input right after the value
					}
					cases = append(cases, C10Case{Kind: []string{"minify", "bytes"}[nd%2], MT: mt, Cfg: nd % 6, Input: []byte(in), Label: fmt.Sprintf("degenerate(%s,tok%d,%q,%d)", prop, ti, g, mode)})
					nd++
				}
			}
		}
	}
	// 1c. HTTP wrappers: ordinary bodies and minifiers that fail early
	for i, mt := range []string{"text/x-failfast", "text/x-halfread", "text/html", "text/css", "application/json", "text/x-failfast; a=b", "text/unknown"} {
		for j, body := range [][]byte{[]byte("x"), bytes.Repeat([]byte("<p>some body text</p>\n"), 600), nil, bytes.Repeat([]byte("{\"a\":1} "), 20000)} {
			for _, kind := range []string{"respwriter", "middleware"} {
				cases = append(cases, C10Case{Kind: kind, MT: mt, Cfg: (i + j) % 4, Input: body, Label: fmt.Sprintf("http(%s,body#%d)", mt, j)})
			}
		}
	}
	// 2. helpers on hostile input
	nh := run.N(2000, 60000)
	for i := 0; i < nh; i++ {
		r := run.CaseRand("helper", i, nh/2)
		var in []byte
		if r.Bool() {
			in = c08RandomLexeme(r)
		} else {
			n := r.Intn(30)
			in = make([]byte, n)
			for k := range in {
				in[k] = r.Char("0123456789+-.eE \x00x,;:\"=/abcdata%")
			}
		}
		kind := []string{"Number", "Decimal", "Mediatype", "DataURI"}[i%4]
		if kind == "DataURI" && r.Bool() {
			in, _ = c18GenURI(r)
			in = mutate(r, "css", in, []byte("data:;base64,%zz,\"\x00"))
		}
		if kind == "Mediatype" && r.Bool() {
			in = mutate(r, "css", c18GenMediatype(r), []byte("\"\\\" ;="))
		}
		precs := []int{-1, 0, 1, 2, 17, 1000000000, -9223372036854775808, 9223372036854775807}
		cases = append(cases, C10Case{Kind: kind, Prec: precs[r.Intn(len(precs))], Cfg: r.Intn(6), Input: in, Label: fmt.Sprintf("helper#%d", i)})
	}
	// 3. amplifiers at n, 4n, 16n
	base := run.N(1500, 12000)
	for _, fam := range c10Families {
		for step := 0; step < 3; step++ {
			n := base
			for k := 0; k < step; k++ {
				n *= 4
			}
			mt, in := amplify(fam, n)
			cases = append(cases, C10Case{Kind: "minify", MT: mt, Cfg: 0, Input: in, Label: fmt.Sprintf("amplifier %s n=%d", fam, n), Family: fam, Size: step})
		}
	}
	return cases
}

type c10Result struct {
	cpu   time.Duration
	alloc uint64
	bad   string
	state string // "", "crash", "timeout"
}

// c10RunBatch runs cases[lo:hi) in child processes, restarting after a crash.
func c10RunBatch(scratch string, id int, cases []C10Case) []c10Result {
	res := make([]c10Result, len(cases))
	path := filepath.Join(scratch, fmt.Sprintf("batch-%d.gob", id))
	f, _ := os.Create(path)
	gob.NewEncoder(f).Encode(cases)
	f.Close()
	logPath := filepath.Join(scratch, fmt.Sprintf("batch-%d.log", id))
	start := 0
	expiries := 0
	for start < len(cases) {
		if expiries >= 4 {
			// four cases of this batch did not return: the rest is not waited for (each costs a full watchdog);
			// what was seen decides the run
			for i := start; i < len(cases); i++ {
				res[i].state = "skipped"
			}
			break
		}
		os.Remove(logPath)
		cmd := exec.Command(os.Args[0], "c10child", path, logPath, fmt.Sprint(start))
		stderr := &bytes.Buffer{}
		cmd.Stderr = stderr
		cmd.Stdout = stderr
		err := cmd.Run()
		b, _ := os.ReadFile(logPath)
		last := -1
		done := false
		for _, l := range strings.Split(string(b), "\n") {
			var i int
			switch {
			case strings.HasPrefix(l, "START "):
				fmt.Sscanf(l, "START %d", &i)
				last = i
			case strings.HasPrefix(l, "END "):
				var cpu int64
				var alloc uint64
				fmt.Sscanf(l, "END %d cpu=%d alloc=%d", &i, &cpu, &alloc)
				bad := ""
				if k := strings.Index(l, " bad="); k >= 0 {
					bad = strings.ReplaceAll(l[k+5:], "\\n", "\n")
				}
				res[i] = c10Result{cpu: time.Duration(cpu) * time.Microsecond, alloc: alloc, bad: bad}
				if i == last {
					last = -1
				}
			case strings.HasPrefix(l, "TIMEOUT "):
				kind := ""
				fmt.Sscanf(l, "TIMEOUT %d %s", &i, &kind)
				res[i].state = "timeout"
				res[i].bad = kind
				last = -1
				start = i + 1
				expiries++
			case l == "DONE":
				done = true
			}
		}
		if done {
			break
		}
		if last >= 0 {
			// the child died inside case `last`
			res[last].state = "crash"
			res[last].bad = core.Trunc(stderr.String(), 3000)
			start = last + 1
		} else if err != nil && start <= 0 && len(b) == 0 {
			// could not even start
			for i := range res {
				res[i].state = "timeout"
			}
			break
		} else if start < len(cases) && !done {
			// timeout handled above (start advanced); otherwise avoid spinning
			if !strings.Contains(string(b), "TIMEOUT") {
				break
			}
		}
	}
	os.Remove(path)
	os.Remove(logPath)
	return res
}

func C10(run *core.Run) {
	scratch := core.Scratch("c10")
	defer os.RemoveAll(scratch)
	cases := c10BuildCases(run)
	// interleave so that every batch has a mix
	nb := 16
	batches := make([][]C10Case, nb)
	index := make([][]int, nb)
	for i, c := range cases {
		k := i % nb
		if c.Family != "" {
			k = (i / 3) % nb // keep the three sizes of a family in one child (same machine state)
		}
		batches[k] = append(batches[k], c)
		index[k] = append(index[k], i)
	}
	results := make([]c10Result, len(cases))
	var wg sync.WaitGroup
	for k := 0; k < nb; k++ {
		wg.Add(1)
		go func(k int) {
			defer wg.Done()
			rs := c10RunBatch(scratch, k, batches[k])
			for j, r := range rs {
				results[index[k][j]] = r
			}
		}(k)
	}
	wg.Wait()
	report := func(c C10Case, what string) {
		cfg := fmt.Sprintf("%s %s cfg=%d prec=%d", c.Kind, c.MT, c.Cfg, c.Prec)
		run.Violation(core.Key(cfg, c.Input), fmt.Sprintf("%s [%s, %d bytes]: %s", cfg, c.Label, len(c.Input), what), map[string]interface{}{"case": cfg, "source": c.Label, "input_b64": c.Input, "input_preview": core.Trunc(string(c.Input), 400)})
	}
	fam := map[string][3]time.Duration{}
	confirmedHangs := 0
	for i, c := range cases {
		r := results[i]
		run.Eval()
		switch {
		case r.state == "crash":
			report(c, "the process died (fatal error): "+r.bad)
		case r.state == "skipped":
			run.Count("cases_skipped_after_four_expiries_in_their_batch")
		case r.state == "timeout" && confirmedHangs >= 4 && c.Family == "":
			run.Count("expiries_not_confirmed_individually_after_four_confirmed_hangs")
		case r.state == "timeout":
			// confirm alone in a fresh child with a fresh watchdog; a repeated expiry with the CPU actually burnt is a hang
			rs := c10RunBatch(scratch, 1000+i, []C10Case{c})
			if rs[0].state == "timeout" && rs[0].bad != "starved" && c.Family == "" {
				confirmedHangs++
			}
			if rs[0].state == "timeout" && (c.Family == "js-vars" || c.Family == "js-manyvars") && run.KnownSignature("js-var-declarations-quadratic") {
				continue
			}
			if rs[0].state == "timeout" && c.Family == "html-text" && run.KnownSignature("html-text-entities-quadratic") {
				continue
			}
			if rs[0].state == "timeout" && c.Family == "html-endtags" && run.KnownSignature("html-trailing-space-lookahead-quadratic") {
				continue
			}
			if rs[0].state == "timeout" && rs[0].bad == "starved" {
				run.Inconclusive() // the case never got 15 s of processor time in 25 s of wall time and is not parked either
				run.Count("watchdog_on_a_starved_case")
			} else if rs[0].state == "timeout" {
				report(c, "does not return: watchdog (25 s) expired twice, the second time alone in a fresh process ("+map[string]string{"blocked": "every goroutine of the case is parked in a blocking primitive with an unchanging stack", "busy": "the process burnt at least 15 s of CPU meanwhile", "": "state unknown"}[rs[0].bad]+")")
			} else if rs[0].state == "crash" {
				report(c, "the process died (fatal error): "+rs[0].bad)
			} else if rs[0].state == "" && rs[0].bad != "" {
				report(c, rs[0].bad)
			} else if rs[0].state == "" && c.Family != "" {
				// an amplifier that expired next to its batch mates but returns alone: its CPU time, measured alone, still
				// feeds the scaling monitor (a slow 16n step is exactly what that monitor is for)
				t := fam[c.Family]
				t[c.Size] = rs[0].cpu
				fam[c.Family] = t
				run.Count("amplifier_measured_alone_after_an_expiry")
			} else {
				run.Inconclusive()
			}
		case r.bad != "":
			report(c, r.bad)
		default:
			if limit := uint64(3000*len(c.Input)) + 256<<20; r.alloc > limit && c.Family == "" {
				report(c, fmt.Sprintf("allocated %d bytes for an input of %d bytes (limit %d)", r.alloc, len(c.Input), limit))
			}
			run.NonTrivial([]byte(c.Kind+c.MT), c.Input, []byte{byte(c.Cfg)})
			if c.Family != "" {
				t := fam[c.Family]
				t[c.Size] = r.cpu
				fam[c.Family] = t
			}
		}
	}
	// scaling monitor
	scaling := map[string]string{}
	for f, t := range fam {
		scaling[f] = fmt.Sprintf("%v %v %v", t[0], t[1], t[2])
		lo, hi := 1, 2
		if t[2] == 0 && t[0] >= 4*time.Millisecond {
			// the largest size gave no measurement (its watchdog expired and the confirmation was starved or undecided):
			// the step from n to 4n is judged instead, by the same rule
			lo, hi = 0, 1
			run.Count("scaling_judged_on_the_first_step")
		}
		if t[hi] < 8*time.Millisecond || t[lo] == 0 || (lo == 1 && t[1] < 8*time.Millisecond) {
			continue // too fast to measure
		}
		ratio := float64(t[hi]) / float64(t[lo])
		if ratio > 10 {
			// confirm in a fresh process
			var cs []C10Case
			for _, c := range cases {
				if c.Family == f {
					cs = append(cs, c)
				}
			}
			if lo == 0 {
				cs = cs[:2] // without the size that does not come back in time
			}
			rs := c10RunBatch(scratch, 5000+len(scaling), cs)
			if len(rs) == len(cs) && len(rs) > hi && rs[hi].cpu >= 8*time.Millisecond && rs[lo].cpu > 0 && float64(rs[hi].cpu)/float64(rs[lo].cpu) > 10 {
				if (f == "js-vars" || f == "js-manyvars") && run.KnownSignature("js-var-declarations-quadratic") {
					continue
				}
				if f == "html-text" && run.KnownSignature("html-text-entities-quadratic") {
					continue
				}
				if f == "html-endtags" && run.KnownSignature("html-trailing-space-lookahead-quadratic") {
					continue
				}
				last := rs[len(rs)-1].cpu
				report(cs[len(cs)-1], fmt.Sprintf("super-linear cost: CPU time %v, %v, %v for sizes n, 4n, 16n (confirmed in a fresh process: %v, %v, %v; judged on the step %d->%d)", t[0], t[1], t[2], rs[0].cpu, rs[1].cpu, last, lo, hi))
			} else {
				run.Inconclusive()
			}
		}
	}
	run.Set("amplifier_cpu_time_n_4n_16n", scaling)
	run.Set("cases", len(cases))
	for _, i := range []int{0, len(cases) / 2, len(cases) - 40} {
		run.Sample(map[string]interface{}{"kind": cases[i].Kind, "mediatype": cases[i].MT, "source": cases[i].Label, "input": core.Trunc(string(cases[i].Input), 200)})
	}
	run.Finish("hostile inputs for all six media types and the exported helpers: hand-written, test-table, fuzz-corpus and benchmark inputs, truncations of each at up to 64 positions, seeded mutations and splices, random and non-UTF-8 byte strings, 35 amplifier families (deep nesting and long repetition) at sizes n, 4n, 16n; option sets incl. extreme precisions (-1, 0, 1, 17, 1e9, MinInt) and template delimiters; entry points Minify, Bytes, String, Reader, Writer, Number, Decimal, Mediatype, DataURI; a case is (entry point, media type, options, input); non-trivial = the call returned under all monitors",
		[]string{"every case runs in a child process that logs the case before calling; a dead child attributes the fatal error to the logged case", "CPU time is per-thread (getrusage), minimum of 3 repetitions; a super-linear verdict needs ratio > 10 per 4x step and confirmation in a fresh process", "a watchdog expiry is inconclusive unless it repeats alone in a fresh process"}, 1000, false)
}
