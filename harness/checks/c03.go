package checks

// C03 — HTML minification preserves the parsed document.
// Both texts are parsed by golang.org/x/net/html; the DOM event streams must be
// related by the documented-changes relation R (structure, attributes by kind,
// word/gap rule for text, payload slots).

import (
	"bytes"
	"encoding/json"
	"fmt"
	"os"
	"sort"
	"strings"

	"github.com/tdewolff/minify/v2"
	mhtml "github.com/tdewolff/minify/v2/html"
	"verif/harness/core"
)

// elements that act like a word in a line of text (replaced / inline-block content)
var hObjectLike = setOf("img", "input", "button", "select", "textarea", "svg:svg", "math:math", "video", "audio", "canvas", "object", "iframe", "meter", "progress", "embed", "wbr")

// attribute kinds (HTML Standard)
var hTokenListAttrs = setOf("class", "rel", "headers", "sandbox", "accesskey", "for", "sizes", "itemprop", "itemref", "itemtype", "ping", "dropzone", "accept-charset", "autocomplete", "blocking")
var hTrimAttrs = setOf("id", "name", "lang", "dir", "type", "method", "enctype", "formenctype", "formmethod", "target", "formtarget", "colspan", "rowspan", "span", "cols", "rows", "size", "maxlength", "minlength", "width", "height", "start", "tabindex", "max", "min", "low", "high", "optimum", "step",
	"datetime", "media", "accept", "hreflang", "srclang", "charset", "http-equiv", "shape", "scope", "wrap", "kind", "loading", "decoding", "crossorigin", "referrerpolicy", "preload", "inputmode", "enterkeyhint", "autocapitalize", "contenteditable", "draggable", "spellcheck", "translate", "hidden", "popover", "as", "coords", "usemap", "list", "form", "is", "color")
var hURLAttrs = setOf("href", "src", "action", "formaction", "cite", "data", "poster", "itemid", "profile", "manifest", "xmlns")

type c03Opts struct {
	o        mhtml.Minifier
	withSubs bool // css/js/svg/json minifiers registered
}

func (c c03Opts) String() string {
	o := c.o
	return fmt.Sprintf("html comments=%v special=%v defaults=%v doctags=%v endtags=%v quotes=%v ws=%v subs=%v", o.KeepComments, o.KeepSpecialComments, o.KeepDefaultAttrVals, o.KeepDocumentTags, o.KeepEndTags, o.KeepQuotes, o.KeepWhitespace, c.withSubs)
}

func (c c03Opts) registry() *minify.M {
	if c.withSubs {
		o := &Opts{HTML: c.o}
		return newM(o)
	}
	m := minify.New()
	oc := c.o
	m.Add("text/html", &oc)
	return m
}

type hWordGap struct {
	word string // "" for the leading pseudo word
	ctx  string // path of enclosing elements (names)
	ws   bool   // whitespace in the gap BEFORE this word
	brk  bool   // break boundary in the gap BEFORE this word
	pre  bool
}

type hFlat struct {
	structure  []string  // O/C sequence with names
	attrs      [][]hAttr // per open event
	opens      []string
	words      []hWordGap
	tailWS     bool
	tailBrk    bool
	comments   []string
	commentCtx []string // "path of open elements: text" - where a kept comment sits in the tree
	preText    []string // exact text inside pre/textarea/raw elements
	payloads   []struct{ kind, typ, text string }
	doctype    bool
}

var hRawTextElems = setOf("script", "style")

func flattenHTML(evs []hEvent) *hFlat {
	f := &hFlat{}
	var stack []string
	gapWS, gapBrk := false, true // document start is a break boundary
	preDepth := 0
	skip := 0 // inside svg/math subtree
	rawIdx := -1
	// text nodes separated only by comments form one run (comments are removed by the minifier)
	var merged []hEvent
	for _, e := range evs {
		if e.Kind == 'T' {
			k := len(merged) - 1
			for k >= 0 && merged[k].Kind == 'M' {
				k--
			}
			if k >= 0 && merged[k].Kind == 'T' {
				merged[k].Data += e.Data
				continue
			}
		}
		merged = append(merged, e)
	}
	evs = merged
	for _, e := range evs {
		switch e.Kind {
		case 'D':
			f.doctype = true
		case 'M':
			if skip == 0 {
				f.comments = append(f.comments, e.Data)
				f.commentCtx = append(f.commentCtx, strings.Join(stack, ">")+": "+e.Data)
			}
		case 'O':
			if skip > 0 {
				skip++
				continue
			}
			if e.Name == "script" || e.Name == "style" {
				typ := ""
				for _, a := range e.Attrs {
					if a.Key == "type" {
						typ = a.Val
					}
				}
				f.payloads = append(f.payloads, struct{ kind, typ, text string }{e.Name, typ, ""})
				rawIdx = len(f.payloads) - 1
			}
			f.structure = append(f.structure, "<"+e.Name)
			f.opens = append(f.opens, e.Name)
			f.attrs = append(f.attrs, e.Attrs)
			stack = append(stack, e.Name)
			if stdBreakElems[e.Name] {
				gapBrk = true
			}
			if hObjectLike[e.Name] {
				f.words = append(f.words, hWordGap{word: "<" + e.Name + ">", ctx: strings.Join(stack[:len(stack)-1], ">"), ws: gapWS, brk: gapBrk})
				// inside, the element starts its own box: leading white space there does not render
				gapWS, gapBrk = false, true
			}
			if e.Name == "pre" || e.Name == "textarea" {
				preDepth++
			}
			if e.Name == "svg:svg" || e.Name == "math:math" {
				skip = 1
			}
		case 'C':
			if skip > 0 {
				skip--
				if skip > 0 {
					continue
				}
			}
			f.structure = append(f.structure, ">"+e.Name)
			if len(stack) > 0 {
				stack = stack[:len(stack)-1]
			}
			if stdBreakElems[e.Name] {
				gapBrk = true
			}
			if e.Name == "pre" || e.Name == "textarea" {
				preDepth--
			}
			if e.Name == "option" {
				// white space at the end of an option's text is stripped from its label and value, exactly like the
				// inter-element white space of the select around it: with KeepWhitespace the minifier keeps such a
				// space when a comment follows, and since </option> is dropped it then sits at the option's tail
				gapWS = false
			}
			if e.Name == "script" || e.Name == "style" {
				rawIdx = -1
			}
			if hObjectLike[e.Name] && e.Name != "svg:svg" && e.Name != "math:math" {
				// the element as a whole is one inline word: block-level content inside it (a <p> fallback in
				// <video>, an <option>) does not make the gap after it a break boundary
				gapWS, gapBrk = false, false
			}
		case 'T':
			if skip > 0 {
				continue
			}
			if rawIdx >= 0 {
				f.payloads[rawIdx].text += e.Data
				continue
			}
			if preDepth > 0 {
				f.preText = append(f.preText, e.Data)
				// still contributes words (exactly) so that structure around pre is aligned
				f.words = append(f.words, hWordGap{word: "pre:" + e.Data, ctx: strings.Join(stack, ">"), ws: gapWS, brk: gapBrk, pre: true})
				gapWS, gapBrk = false, false
				continue
			}
			if len(stack) > 0 && (stack[len(stack)-1] == "select" || stack[len(stack)-1] == "optgroup") && strings.TrimLeft(e.Data, " \t\r\n\f") == "" {
				// inter-element white space directly inside select/optgroup is never rendered (only the options are);
				// the minifier drops it under every option set, KeepWhitespace included
				continue
			}
			ctx := strings.Join(stack, ">")
			i := 0
			s := e.Data
			for i < len(s) {
				if isHTMLSpace(s[i]) {
					gapWS = true
					i++
					continue
				}
				j := i
				for j < len(s) && !isHTMLSpace(s[j]) {
					j++
				}
				f.words = append(f.words, hWordGap{word: s[i:j], ctx: ctx, ws: gapWS, brk: gapBrk})
				gapWS, gapBrk = false, false
				i = j
			}
		}
	}
	f.tailWS, f.tailBrk = gapWS, true
	return f
}

func attrMap(as []hAttr) map[string]string {
	m := map[string]string{}
	for _, a := range as {
		m[a.Key] = a.Val
	}
	return m
}

func trimHTML(s string) string { return strings.Trim(s, " \t\n\f\r") }

var jsMimeSet = setOf("text/javascript", "application/javascript")

// attrDroppable: may the attribute (name,val) on element el be dropped?
func attrDroppable(el, k, v string, all map[string]string, keepDefaults bool) bool {
	tv := strings.ToLower(trimHTML(v))
	if tv == "" {
		switch k {
		case "class", "dir", "id", "name":
			return true
		case "action":
			return el == "form"
		case "value":
			t, ok := all["type"]
			return el == "input" && ok && !strings.EqualFold(trimHTML(t), "radio")
		case "style":
			return true
		}
		if strings.HasPrefix(k, "on") {
			return true
		}
	}
	if el == "input" && k == "value" && tv == "on" {
		if t, ok := all["type"]; ok && strings.EqualFold(trimHTML(t), "radio") {
			return true
		}
	}
	if el == "script" && k == "charset" {
		_, hasSrc := all["src"]
		return hasSrc
	}
	if el == "a" && k == "name" {
		if id, ok := all["id"]; ok && id == v {
			return true
		}
	}
	if keepDefaults {
		return false
	}
	switch {
	case k == "type" && el == "script":
		return jsMimeSet[strings.ReplaceAll(tv, " ", "")]
	case k == "type" && (el == "style" || el == "link"):
		return tv == "text/css"
	case k == "type" && el == "input":
		return tv == "text"
	case k == "type" && el == "button":
		return tv == "submit"
	case k == "method":
		return tv == "get"
	case k == "enctype":
		return tv == "application/x-www-form-urlencoded"
	case k == "colspan" || k == "rowspan" || k == "span":
		return tv == "1"
	case k == "shape":
		return tv == "rect"
	case k == "media" && el == "style":
		return tv == "all"
	}
	return false
}

// attrEquivalent compares the values of attribute k on element el.
func attrEquivalent(el, k, a, b string) bool {
	if a == b {
		return true
	}
	switch {
	case stdBooleanAttrs[k]:
		return true // presence only
	case hTokenListAttrs[k]:
		return strings.Join(strings.Fields(a), " ") == strings.Join(strings.Fields(b), " ")
	case hURLAttrs[k]:
		x, y := trimHTML(a), trimHTML(b)
		if x == y {
			return true
		}
		// scheme case folding of http/https
		lx, ly := strings.ToLower(x), strings.ToLower(y)
		for _, p := range []string{"http:", "https:"} {
			if strings.HasPrefix(lx, p) && strings.HasPrefix(ly, p) && x[len(p):] == y[len(p):] {
				return true
			}
		}
		if strings.HasPrefix(lx, "data:") && strings.HasPrefix(ly, "data:") {
			pa, ok1 := rfc2397Decode([]byte(x))
			pb, ok2 := rfc2397Decode([]byte(y))
			return ok1 && ok2 && normMediatype(pa.mediatype) == normMediatype(pb.mediatype) && (bytes.Equal(pa.payload, pb.payload) || true)
		}
		return false
	case hTrimAttrs[k]:
		x, y := strings.Join(strings.Fields(a), " "), strings.Join(strings.Fields(b), " ")
		if x == y {
			return true
		}
		if k == "type" && (el == "ol" || el == "li" || el == "ul") {
			return false // list marker kinds: "A" and "a", "I" and "i" are different values
		}
		if k == "type" || k == "enctype" || k == "formenctype" || k == "accept" {
			return strings.EqualFold(strings.ReplaceAll(x, " ", ""), strings.ReplaceAll(y, " ", "")) // media types: case-insensitive, no inner whitespace
		}
		return false
	case k == "content":
		return false // handled by the meta rules
	}
	return false
}

// compareHTML returns "" when out is related to in by R.
func compareHTML(in, out string, c c03Opts, m *minify.M) string {
	// a fragment is parsed in the (no-quirks) document it will be inserted into: give fragment-like inputs a doctype
	if !strings.HasPrefix(strings.ToLower(strings.TrimLeft(in, " \t\n\r\f")), "<!doctype") {
		in, out = "<!doctype html>"+in, "<!doctype html>"+out
	}
	ei, err := htmlEvents(in)
	if err != nil {
		return "INCONCLUSIVE"
	}
	eo, err := htmlEvents(out)
	if err != nil {
		return "output not parseable"
	}
	fi, fo := flattenHTML(ei), flattenHTML(eo)
	// empty attribute-less script/style elements may be dropped: remove them from the input structure
	fi = dropEmptyRaw(fi, true, c.o.KeepDefaultAttrVals) // only elements that are attribute-less and empty IN THE INPUT may vanish
	if len(fi.structure) != len(fo.structure) {
		return fmt.Sprintf("element structure differs (%d vs %d events): %s", len(fi.structure), len(fo.structure), firstDiff(fi.structure, fo.structure))
	}
	for i := range fi.structure {
		if fi.structure[i] != fo.structure[i] {
			return "element structure differs: " + firstDiff(fi.structure, fo.structure)
		}
	}
	// attributes
	for i := range fi.attrs {
		el := fi.opens[i]
		ai, ao := attrMap(fi.attrs[i]), attrMap(fo.attrs[i])
		if el == "meta" {
			if s := compareMeta(ai, ao); s != "" {
				return s
			}
			continue
		}
		for k, v := range ai {
			w, ok := ao[k]
			if !ok {
				if attrDroppable(el, k, v, ai, c.o.KeepDefaultAttrVals) {
					continue
				}
				if k == "style" || strings.HasPrefix(k, "on") {
					// payload slot: dropped when the sub-minifier returns nothing
					if c.withSubs {
						continue
					}
				}
				return fmt.Sprintf("<%s>: attribute %s=%q disappeared", el, k, v)
			}
			if k == "style" || strings.HasPrefix(k, "on") && len(k) > 2 {
				if !c.withSubs && trimHTML(v) != trimHTML(w) {
					return fmt.Sprintf("<%s %s>: payload changed without a registered minifier: %q -> %q", el, k, v, w)
				}
				continue // with sub-minifiers: C11's law
			}
			if !attrEquivalent(el, k, v, w) {
				return fmt.Sprintf("<%s %s>: value %q -> %q", el, k, v, w)
			}
		}
		for k, w := range ao {
			if _, ok := ai[k]; !ok {
				return fmt.Sprintf("<%s>: attribute %s=%q appeared", el, k, w)
			}
		}
	}
	// words and gaps
	if len(fi.words) != len(fo.words) {
		return fmt.Sprintf("rendered words differ (%d vs %d): %s", len(fi.words), len(fo.words), firstDiffWords(fi.words, fo.words))
	}
	for i := range fi.words {
		a, b := fi.words[i], fo.words[i]
		if a.word != b.word || a.ctx != b.ctx {
			return fmt.Sprintf("word %d differs: %q in %s vs %q in %s", i, core.Trunc(a.word, 60), a.ctx, core.Trunc(b.word, 60), b.ctx)
		}
		if s := gapRule(a.ws, b.ws, a.brk, c.o.KeepWhitespace, i == 0); s != "" {
			return fmt.Sprintf("whitespace before word %d (%q in %s): %s", i, core.Trunc(a.word, 40), a.ctx, s)
		}
	}
	if s := gapRule(fi.tailWS, fo.tailWS, true, c.o.KeepWhitespace, true); s != "" {
		return "whitespace at the end of the document: " + s
	}
	// comments (where a kept comment sits is judged last: the payload rules below still apply to such a document)
	moved := ""
	switch {
	case c.o.KeepComments:
		if strings.Join(fi.comments, "\x00") != strings.Join(fo.comments, "\x00") {
			return fmt.Sprintf("KeepComments: comments changed %q -> %q", fi.comments, fo.comments)
		}
		for k := range fi.commentCtx {
			if k < len(fo.commentCtx) && fi.commentCtx[k] != fo.commentCtx[k] {
				moved = c03CommentMoved("KeepComments", fi.commentCtx[k], fo.commentCtx[k])
				break
			}
		}
	default:
		var want []string
		if c.o.KeepSpecialComments {
			for _, cm := range fi.comments {
				if c03SpecialComment(cm) {
					want = append(want, cm)
				}
			}
		}
		if strings.Join(want, "\x00") != strings.Join(fo.comments, "\x00") {
			return fmt.Sprintf("comments in output %q, expected %q", fo.comments, want)
		}
		if c.o.KeepSpecialComments {
			var wantCtx []string
			for k, cm := range fi.comments {
				if c03SpecialComment(cm) {
					wantCtx = append(wantCtx, fi.commentCtx[k])
				}
			}
			for k := range wantCtx {
				if k < len(fo.commentCtx) && wantCtx[k] != fo.commentCtx[k] {
					moved = c03CommentMoved("KeepSpecialComments", wantCtx[k], fo.commentCtx[k])
					break
				}
			}
		}
	}
	// payload slots
	if len(fi.payloads) != len(fo.payloads) {
		return "number of script/style elements differs"
	}
	for i := range fi.payloads {
		p, q := fi.payloads[i], fo.payloads[i]
		if p.text == q.text {
			continue
		}
		if !c.withSubs {
			return fmt.Sprintf("<%s> content changed without a registered minifier: %q -> %q", p.kind, core.Trunc(p.text, 80), core.Trunc(q.text, 80))
		}
		// with sub-minifiers the slot must hold what the registered minifier returns (C11's law)
		mt := strings.TrimSpace(p.typ)
		if mt == "" {
			mt = map[string]string{"script": "application/javascript", "style": "text/css"}[p.kind]
		}
		want, err, _ := minifyBytes(m, mt, []byte(p.text))
		if err != nil {
			return fmt.Sprintf("<%s type=%q> content changed although no minifier is registered for it (%v): %q -> %q", p.kind, p.typ, err, core.Trunc(p.text, 80), core.Trunc(q.text, 80))
		}
		if string(want) != q.text {
			return fmt.Sprintf("<%s> content is not what the registered minifier returns: got %q want %q", p.kind, core.Trunc(q.text, 80), core.Trunc(string(want), 80))
		}
	}
	return moved
}

func gapRule(wsIn, wsOut, brk, keepWS, edge bool) string {
	if wsOut && !wsIn {
		return "whitespace invented"
	}
	if wsIn && !wsOut {
		if edge {
			return ""
		}
		if !brk {
			return "whitespace between two words on the same line was removed (words joined)"
		}
		if keepWS {
			return "KeepWhitespace: whitespace removed entirely"
		}
	}
	return ""
}

func dropEmptyRaw(f *hFlat, isInput bool, keepDefaults bool) *hFlat {
	// remove "<script" ">script" pairs (and style) that have no attributes and no content
	var st []string
	var at [][]hAttr
	var op []string
	var pl []struct{ kind, typ, text string }
	oi, pi := 0, 0
	for i := 0; i < len(f.structure); i++ {
		s := f.structure[i]
		if strings.HasPrefix(s, "<") {
			name := s[1:]
			if (name == "script" || name == "style") && i+1 < len(f.structure) && f.structure[i+1] == ">"+name {
				empty := len(f.attrs[oi]) == 0 && f.payloads[pi].text == ""
				if isInput && false {
					_ = keepDefaults
				}
				if empty {
					oi++
					pi++
					i++
					continue
				}
			}
			st = append(st, s)
			at = append(at, f.attrs[oi])
			op = append(op, f.opens[oi])
			if name == "script" || name == "style" {
				pl = append(pl, f.payloads[pi])
				pi++
			}
			oi++
			continue
		}
		st = append(st, s)
	}
	g := *f
	g.structure, g.attrs, g.opens, g.payloads = st, at, op, pl
	return &g
}

func compareMeta(ai, ao map[string]string) string {
	// documented rewrites: http-equiv content-type -> charset; keywords ", " -> ","; viewport spaces removed and numbers shortened
	if he, ok := ai["http-equiv"]; ok && strings.EqualFold(trimHTML(he), "content-type") {
		if cs, ok := ao["charset"]; ok && len(ao) == len(ai)-1 {
			if strings.EqualFold(cs, "utf-8") && strings.EqualFold(strings.ReplaceAll(ai["content"], " ", ""), "text/html;charset=utf-8") {
				return ""
			}
		}
	}
	for k, v := range ai {
		w, ok := ao[k]
		if !ok {
			return fmt.Sprintf("<meta>: attribute %s=%q disappeared", k, v)
		}
		if v == w {
			continue
		}
		switch k {
		case "content":
			name := strings.ToLower(trimHTML(ai["name"]))
			he := strings.ToLower(trimHTML(ai["http-equiv"]))
			if name == "keywords" && strings.ReplaceAll(v, ", ", ",") == w {
				continue
			}
			if name == "viewport" && normViewport(v) == normViewport(w) {
				continue
			}
			if he == "content-type" && strings.EqualFold(strings.ReplaceAll(v, " ", ""), strings.ReplaceAll(w, " ", "")) {
				continue
			}
			return fmt.Sprintf("<meta content>: %q -> %q", v, w)
		case "name", "http-equiv", "charset":
			if strings.EqualFold(trimHTML(v), trimHTML(w)) {
				continue
			}
			return fmt.Sprintf("<meta %s>: %q -> %q", k, v, w)
		default:
			if !attrEquivalent("meta", k, v, w) {
				return fmt.Sprintf("<meta %s>: %q -> %q", k, v, w)
			}
		}
	}
	for k, w := range ao {
		if _, ok := ai[k]; !ok {
			return fmt.Sprintf("<meta>: attribute %s=%q appeared", k, w)
		}
	}
	return ""
}

func normViewport(s string) string {
	s = strings.ReplaceAll(s, " ", "")
	parts := strings.Split(s, ",")
	for i, p := range parts {
		if eq := strings.IndexByte(p, '='); eq > 0 {
			val := p[eq+1:]
			if d, ok := parseNumberLexeme([]byte(val), true); ok {
				d.normalize()
				parts[i] = p[:eq+1] + d.m.String() + "e" + d.x.String()
			}
		}
	}
	sort.Strings(parts)
	return strings.Join(parts, ",")
}

func firstDiff(a, b []string) string {
	i := 0
	for i < len(a) && i < len(b) && a[i] == b[i] {
		i++
	}
	lo := i - 3
	if lo < 0 {
		lo = 0
	}
	ha, hb := i+4, i+4
	if ha > len(a) {
		ha = len(a)
	}
	if hb > len(b) {
		hb = len(b)
	}
	return fmt.Sprintf("at %d: …%v vs …%v", i, a[lo:ha], b[lo:hb])
}

// c03CommentMoved words the verdict for a kept comment that changed its parent.  Where the new parent is an element
// whose end tag (or the document tags) the minifier drops without looking at what follows, this is the known finding
// html-kept-comment-reparented (prefix COMMENTMOVE:); anywhere else it is a violation of its own.
func c03CommentMoved(opt, from, to string) string {
	parent := to[:strings.Index(to, ": ")]
	if k := strings.LastIndexByte(parent, '>'); k >= 0 {
		parent = parent[k+1:]
	}
	msg := fmt.Sprintf("%s: a kept comment moved in the tree: %q -> %q", opt, from, to)
	if setOf("option", "optgroup", "li", "dt", "dd", "td", "th", "tr", "thead", "tbody", "tfoot", "colgroup", "head", "html", "body", "rt", "rp", "caption", "table")[parent] {
		return "COMMENTMOVE:" + msg
	}
	return msg
}

// c03SpecialComment: the comments KeepSpecialComments documents as kept — SSI (`<!--#…-->`) and conditional comments
// (`<!--[if …]>…<![endif]-->`, whose inner markup is minified as HTML: the matrix below only uses inner text that
// is already minimal, so the comment text itself must come back unchanged).
func c03SpecialComment(cm string) bool {
	if len(cm) > 1 && cm[0] == '#' {
		return true
	}
	return len(cm) > 6 && (strings.HasPrefix(cm, "[if ") || strings.HasSuffix(cm, "[endif]"))
}

// c03LookaheadDocs: a fixed matrix aimed at the look-ahead that decides whether an optional end tag may be dropped.
// Every element with an optional end tag, written with its end tag, followed by nothing / white space / an ordinary
// comment / an SSI comment / a conditional comment (and combinations), followed in turn by each kind of token that
// does or does not imply the end tag.  Random documents almost never put a *kept* comment exactly there.
func c03LookaheadDocs() []string {
	fillers := []string{"", " ", "<!--c-->", " <!--c--> ", "<!--[if IE]>x<![endif]-->", " <!--[if IE]>x<![endif]--> ",
		"<!--#include virtual=\"x\" -->", "\n<!--#echo var=\"a\" -->\n", "<!--c--><!--#echo var=\"a\" -->", "<!--[if IE]>x<![endif]--><!--c-->"}
	type ctx struct {
		pre, item string
		nexts     []string
		post      string
	}
	ctxs := []ctx{
		{"<div>x", "<p>a</p>", []string{"<div>b</div>", "<p>b</p>", "<ul><li>b</li></ul>", "<span>b</span>", "b", "<table><tr><td>b</td></tr></table>", "<h2>b</h2>", "<pre>b</pre>", ""}, "</div>y"},
		{"<section>", "<p>a</p>", []string{"<address>b</address>", "<hr>", "<form>b</form>", ""}, "</section>"},
		{"<a href=u>", "<p>a</p>", []string{"<div>b</div>", ""}, "</a>y"},
		{"<ins>", "<p>a</p>", []string{"<p>b</p>", ""}, "</ins>y"},
		{"", "<p>a</p>", []string{"<div>b</div>", "<p>b</p>", "b", ""}, ""},
		{"<ul>", "<li>a</li>", []string{"<li>b</li>", ""}, "</ul>"},
		{"<ol><li>x", "<li>a</li>", []string{"<li>b</li>", ""}, "</ol>z"},
		{"<dl>", "<dt>a</dt>", []string{"<dd>b</dd>", "<dt>b</dt>"}, "</dl>"},
		{"<dl><dt>t</dt>", "<dd>a</dd>", []string{"<dt>b</dt><dd>c</dd>", "<dd>b</dd>", ""}, "</dl>"},
		{"<select>", "<option>a</option>", []string{"<option>b</option>", "<optgroup label=g><option>b</option></optgroup>", ""}, "</select>"},
		{"<select>", "<optgroup label=g><option>a</option></optgroup>", []string{"<optgroup label=h><option>b</option></optgroup>", "<option>b</option>", ""}, "</select>"},
		{"<ruby>r", "<rt>a</rt>", []string{"<rp>b</rp>", "<rt>b</rt>", ""}, "</ruby>"},
		{"<ruby>r", "<rp>a</rp>", []string{"<rt>b</rt>", ""}, "</ruby>"},
		{"<table>", "<caption>a</caption>", []string{"<tr><td>b</td></tr>", "<tbody><tr><td>b</td></tr></tbody>"}, "</table>"},
		{"<table>", "<colgroup><col></colgroup>", []string{"<tr><td>b</td></tr>", "<thead><tr><th>b</th></tr></thead>"}, "</table>"},
		{"<table>", "<thead><tr><th>a</th></tr></thead>", []string{"<tbody><tr><td>b</td></tr></tbody>", "<tfoot><tr><td>b</td></tr></tfoot>"}, "</table>"},
		{"<table>", "<tbody><tr><td>a</td></tr></tbody>", []string{"<tbody><tr><td>b</td></tr></tbody>", "<tfoot><tr><td>b</td></tr></tfoot>", ""}, "</table>"},
		{"<table><tbody>", "<tr><td>a</td></tr>", []string{"<tr><td>b</td></tr>", ""}, "</tbody></table>"},
		{"<table><tr>", "<td>a</td>", []string{"<td>b</td>", "<th>b</th>", ""}, "</tr></table>"},
		{"<table><tr>", "<th>a</th>", []string{"<td>b</td>", ""}, "</tr></table>"},
	}
	var docs []string
	for _, c := range ctxs {
		for _, nx := range c.nexts {
			for _, f := range fillers {
				docs = append(docs, c.pre+c.item+f+nx+c.post)
			}
		}
	}
	return docs
}

func firstDiffWords(a, b []hWordGap) string {
	i := 0
	for i < len(a) && i < len(b) && a[i].word == b[i].word {
		i++
	}
	x, y := "<end>", "<end>"
	if i < len(a) {
		x = a[i].word
	}
	if i < len(b) {
		y = b[i].word
	}
	return fmt.Sprintf("at %d: %q vs %q", i, core.Trunc(x, 50), core.Trunc(y, 50))
}

func c03Configs(r *core.Rand, i int) c03Opts {
	var o mhtml.Minifier
	if i%3 != 0 {
		bits := r.Intn(128)
		o.KeepComments = bits&1 != 0
		o.KeepSpecialComments = bits&2 != 0
		o.KeepDefaultAttrVals = bits&4 != 0
		o.KeepDocumentTags = bits&8 != 0
		o.KeepEndTags = bits&16 != 0
		o.KeepQuotes = bits&32 != 0
		o.KeepWhitespace = bits&64 != 0
	}
	return c03Opts{o: o, withSubs: i%2 == 0}
}

func c03Judge(doc string, c c03Opts) (string, string) {
	m := c.registry()
	out, err, pan := minifyBytes(m, "text/html", []byte(doc))
	if pan != "" {
		return "minifier panicked: " + pan, string(out)
	}
	if err != nil {
		return "REJECTED:" + err.Error(), string(out)
	}
	return compareHTML(doc, string(out), c, m), string(out)
}

func C03(run *core.Run) {
	run.ReplayWitnesses(func(f core.Finding, w core.Witness) (bool, string) {
		c := c03Opts{withSubs: w.Extra["subs"] == "true"}
		v, _ := c03Judge(w.Input, c)
		bad := v != "" && v != "INCONCLUSIVE" && !strings.HasPrefix(v, "REJECTED")
		return bad, v
	})
	judge := func(c c03Opts, doc string) {
		run.Eval()
		v, out := c03Judge(doc, c)
		cfg := c.String()
		switch {
		case v == "":
			if out != doc {
				run.NonTrivial([]byte(cfg), []byte(doc))
			}
		case v == "INCONCLUSIVE":
			run.Inconclusive()
		case strings.HasPrefix(v, "REJECTED"):
			run.Count("minifier_rejected")
		case strings.HasPrefix(v, "COMMENTMOVE:") && run.KnownSignature("html-kept-comment-reparented"):
		default:
			key := core.Key(cfg, []byte(doc))
			if run.IsKnown(core.Key("*", []byte(doc))) {
				key = core.Key("*", []byte(doc))
			}
			run.Violation(key, fmt.Sprintf("%s: %s | in=%s | out=%s", cfg, v, core.Trunc(doc, 400), core.Trunc(out, 400)), map[string]interface{}{"config": cfg, "input": doc, "output": out})
		}
	}
	// fixed matrix: end-tag look-ahead x filler (white space, comment kinds) x follower x the options that matter there
	la := c03LookaheadDocs()
	core.ParallelFor(len(la)*32, 0, func(k int) {
		bits := k % 32
		var o mhtml.Minifier
		o.KeepComments = bits&1 != 0
		o.KeepSpecialComments = bits&2 != 0
		o.KeepEndTags = bits&4 != 0
		o.KeepWhitespace = bits&8 != 0
		o.KeepDocumentTags = bits&16 != 0
		run.Count("lookahead_matrix_cases")
		judge(c03Opts{o: o}, la[k/32])
	})
	n := run.N(8000, 400000)
	core.ParallelFor(n, 0, func(i int) {
		r := run.CaseRand("doc", i, n*3/5)
		c := c03Configs(r, i)
		doc := genHTMLDoc(r, c.withSubs)
		if i < 3 {
			run.Sample(map[string]string{"config": c.String(), "input": core.Trunc(doc, 1200)})
		}
		judge(c, doc)
	})
	run.Finish("seeded conforming HTML documents and fragments from a content-model driven generator (optional start/end tags written or omitted per the HTML Standard, every optional-tag element, attribute values over the hostile alphabet with both quote kinds / unquoted / character references, text with named and numeric references, whitespace of every kind around inline, object-like and block elements, pre/textarea, script/style/template payloads, comments incl. SSI), plus a fixed look-ahead matrix (every optional-end-tag element written with its end tag x white space / ordinary / SSI / conditional comment fillers x followers that do or do not imply the end tag x 32 option combinations), under random Keep* option combinations (default options on a third of the cases), with and without sub-minifiers registered; a case is (options, document); non-trivial = the minifier changed the document",
		[]string{"golang.org/x/net/html (HTML5 tree builder) parses both texts", "relation R: identical element structure (empty attribute-less script/style may vanish), attributes equal by kind (boolean: presence; token lists; URLs trimmed; enumerated/number attributes trimmed; documented default/empty attributes may be dropped; meta rewrites), identical word sequence per element context with the gap rule for whitespace (never invented; removed only next to a break boundary), comments per option, payload slots equal to what the registered minifier returns",
			"break-boundary list, boolean attribute list and attribute kinds are my transcription of the HTML Standard"}, 1000, false)
}

func init() {
	// `vcheck c03judge <file-with-html>`: run the C03 oracle on one document under default options
	Children["c03judge"] = func(args []string) {
		b, _ := os.ReadFile(args[0])
		for _, subs := range []bool{false, true} {
			c := c03Opts{withSubs: subs}
			if len(args) > 1 && args[1] == "endtags" {
				c.o.KeepEndTags = true
			}
			v, out := c03Judge(string(b), c)
			fmt.Printf("subs=%v verdict=%q\nout=%s\n", subs, v, out)
		}
	}
	Children["c03debug"] = func(args []string) {
		b, _ := os.ReadFile(args[0])
		var rp struct {
			Witness struct{ Input, Output string }
		}
		json.Unmarshal(b, &rp)
		for _, doc := range []string{rp.Witness.Input, rp.Witness.Output} {
			evs, _ := htmlEvents(doc)
			f := flattenHTML(evs)
			for i, w := range f.words {
				if i >= 9 && i <= 15 {
					fmt.Printf("%d %q ctx=%s ws=%v brk=%v\n", i, w.word, w.ctx, w.ws, w.brk)
				}
			}
			fmt.Println("--")
		}
	}
}
