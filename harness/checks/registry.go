package checks

import "verif/harness/core"

type Check struct {
	Level string
	Fn    func(*core.Run)
}

// Registry maps property ids to checks.
var Registry = map[string]Check{}

// Children are helper sub-commands run in child processes.
var Children = map[string]func(args []string){}

func register(id, level string, fn func(*core.Run)) { Registry[id] = Check{level, fn} }

func init() {
	register("C08", "exploration", C08)
	register("C07", "exploration", C07)
	register("C15", "exploration", C15)
	register("C14", "fault_enumeration", C14)
	register("C18", "exploration", C18)
	register("C06", "exploration", C06)
	register("C17", "exploration", C17)
	register("C01", "exploration", C01)
	register("C02", "exploration", C02)
	register("C09", "exploration", C09)
	register("C03", "exploration", C03)
	register("C12", "exploration", C12)
	register("C13", "exploration", C13)
	register("C10", "exploration", C10)
	register("C20", "fault_enumeration", C20)
	register("C19", "exploration", C19)
	register("C16", "exploration", C16)
	register("C11", "exploration", C11)
	register("C05", "exploration", C05)
	register("C04", "exploration", C04)
}
