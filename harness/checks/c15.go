package checks

// C15 — media type dispatch follows the documented matching rules.
// Monitor: recording stub minifiers (unique id per registration) + a small
// reference model of the documented rules; histories enumerated exhaustively
// up to a length bound over a reduced alphabet and sampled beyond.

import (
	"bytes"
	"errors"
	"fmt"
	"io"
	"net/http/httptest"
	"os"
	"os/exec"
	"reflect"
	"regexp"
	"sort"
	"strings"
	"sync"
	"sync/atomic"

	"github.com/tdewolff/minify/v2"
	"verif/harness/core"
)

type c15Op struct {
	kind    string // "lit" | "litfunc" | "pat" | "patfunc"
	literal string
	pattern string
}

var c15Alphabet = []c15Op{
	{kind: "lit", literal: "text/html"},
	{kind: "litfunc", literal: "text/css"},
	{kind: "pat", pattern: `^text/.+$`},
	{kind: "patfunc", pattern: `[/+]json$`},
	{kind: "pat", pattern: `^.+/.+$`},
	{kind: "patfunc", pattern: `text/(x-)?foo`},
	{kind: "pat", pattern: `^text/html$`},
	{kind: "pat", pattern: `.`},
	// beyond the reduced alphabet (random histories only)
	{kind: "lit", literal: "application/json"},
	{kind: "litfunc", literal: "text/x-foo"},
	{kind: "lit", literal: "image/svg+xml"},
	{kind: "litfunc", literal: "text/html"},
	{kind: "pat", pattern: `^$a`},
	{kind: "patfunc", pattern: `xml$`},
	{kind: "pat", pattern: `^TEXT/`},
	{kind: "lit", literal: "*/*"},
	{kind: "lit", literal: "text/*"},
	// registered strings are taken literally: these are not registrations for text/html or text/css
	{kind: "litfunc", literal: "text/html; charset=utf-8"},
	{kind: "lit", literal: "text/html;charset=utf-8"},
	{kind: "lit", literal: "Text/HTML"},
	{kind: "litfunc", literal: " text/css"},
	// a long type (71 bytes)
	{kind: "lit", literal: "application/vnd.openxmlformats-officedocument.wordprocessingml.document"},
}

const c15Reduced = 8

var c15Patterns = map[string]*regexp.Regexp{}

func init() {
	for _, op := range c15Alphabet {
		if op.pattern != "" {
			c15Patterns[op.pattern] = regexp.MustCompile(op.pattern)
		}
	}
}

type c15Call struct {
	id     int
	params map[string]string
	input  string
}

type c15Log struct {
	mu    sync.Mutex
	calls []c15Call
}

func (l *c15Log) take() []c15Call {
	l.mu.Lock()
	defer l.mu.Unlock()
	c := l.calls
	l.calls = nil
	return c
}

type c15Stub struct {
	id  int
	log *c15Log
}

func (s *c15Stub) Minify(_ *minify.M, w io.Writer, r io.Reader, params map[string]string) error {
	b, _ := io.ReadAll(r)
	var cp map[string]string
	if params != nil {
		cp = map[string]string{}
		for k, v := range params {
			cp[k] = v
		}
	}
	s.log.mu.Lock()
	s.log.calls = append(s.log.calls, c15Call{s.id, cp, string(b)})
	s.log.mu.Unlock()
	fmt.Fprintf(w, "<%d>%s", s.id, b)
	return nil
}

// model
type c15Model struct {
	literal  map[string]int
	patterns []struct {
		src string
		id  int
	}
}

func (m *c15Model) lookup(mt string) (id int, key string, ok bool) {
	if id, ok := m.literal[mt]; ok {
		return id, mt, true
	}
	for _, p := range m.patterns {
		if c15Patterns[p.src].MatchString(mt) {
			return p.id, p.src, true
		}
	}
	return 0, mt, false
}

func c15Apply(m *minify.M, model *c15Model, log *c15Log, i, k int) {
	op := c15Alphabet[k]
	st := &c15Stub{id: i + 1, log: log}
	switch op.kind {
	case "lit":
		m.Add(op.literal, st)
		model.literal[op.literal] = st.id
	case "litfunc":
		m.AddFunc(op.literal, st.Minify)
		model.literal[op.literal] = st.id
	case "pat":
		m.AddRegexp(c15Patterns[op.pattern], st)
		model.patterns = append(model.patterns, struct {
			src string
			id  int
		}{op.pattern, st.id})
	case "patfunc":
		m.AddFuncRegexp(c15Patterns[op.pattern], st.Minify)
		model.patterns = append(model.patterns, struct {
			src string
			id  int
		}{op.pattern, st.id})
	}
}

type c15Query struct {
	s      string
	wf     bool // well-formed: the model predicts type and params
	mt     string
	params map[string]string
}

func wfq(s, mt string, kv ...string) c15Query {
	var p map[string]string
	if len(kv) > 0 {
		p = map[string]string{}
		for i := 0; i+1 < len(kv); i += 2 {
			p[kv[i]] = kv[i+1]
		}
	}
	return c15Query{s: s, wf: true, mt: mt, params: p}
}

var c15Queries = []c15Query{
	wfq("text/html", "text/html"), wfq("text/css", "text/css"), wfq("application/json", "application/json"),
	wfq("text/x-foo", "text/x-foo"), wfq("text/foo", "text/foo"), wfq("image/svg+xml", "image/svg+xml"),
	wfq("application/ld+json", "application/ld+json"), wfq("text/plain", "text/plain"), wfq("a/b", "a/b"),
	wfq("application/xhtml+xml", "application/xhtml+xml"), wfq("TEXT/HTML", "TEXT/HTML"), wfq("text/*", "text/*"), wfq("*/*", "*/*"),
	wfq("video/mp4", "video/mp4"), wfq("nosubtype", "nosubtype"), wfq("xtext/html", "xtext/html"), wfq("text/htmlx", "text/htmlx"),
	wfq("text/html;charset=utf-8", "text/html", "charset", "utf-8"),
	wfq("text/html; charset=utf-8", "text/html", "charset", "utf-8"),
	wfq("text/html; charset=UTF-8; version=2.0", "text/html", "charset", "UTF-8", "version", "2.0"),
	wfq("text/css;x=y", "text/css", "x", "y"),
	wfq("application/json; a=1; b=2; c=3", "application/json", "a", "1", "b", "2", "c", "3"),
	wfq("text/plain; charset=utf-8", "text/plain", "charset", "utf-8"),
	wfq("text/x-foo;inline=1", "text/x-foo", "inline", "1"),
	// strings of more than 64 bytes: long types, long parameter values, parameters behind byte 64
	wfq("application/vnd.openxmlformats-officedocument.wordprocessingml.document", "application/vnd.openxmlformats-officedocument.wordprocessingml.document"),
	wfq("application/vnd.openxmlformats-officedocument.wordprocessingml.document+xml", "application/vnd.openxmlformats-officedocument.wordprocessingml.document+xml"),
	wfq("application/vnd.openxmlformats-officedocument.wordprocessingml.documentx", "application/vnd.openxmlformats-officedocument.wordprocessingml.documentx"),
	wfq("text/html; charset=utf-8; boundary=----WebKitFormBoundary7MA4YWxkTrZu0gW0123456789abcdef", "text/html", "charset", "utf-8", "boundary", "----WebKitFormBoundary7MA4YWxkTrZu0gW0123456789abcdef"),
	wfq("application/json; profile=aaaaaaaaaaaaaaaaaaaaaaaaaaaaaaaaaaaaaaaaaaaaaaaaaaaaaaaa; last=z", "application/json", "profile", "aaaaaaaaaaaaaaaaaaaaaaaaaaaaaaaaaaaaaaaaaaaaaaaaaaaaaaaa", "last", "z"),
	// agreement-only (splitting not specified for these)
	{s: " text/html"}, {s: "text/html "}, {s: "text/html ; a=b"}, {s: "text/html;"}, {s: "text/html;a"}, {s: "text/html;a="},
	{s: "text/html; a=b; a=c"}, {s: "text/html;=b"}, {s: "xx"}, {s: ""}, {s: ";"}, {s: "a;b"}, {s: "text/html;a = b"}, {s: "text/html  x"},
	{s: "text/html; charset=\"utf-8\""}, {s: "text/css;x=\"a b\""}, {s: "text/html; a=\"q;r\"; b=c"}, {s: "application/json;profile=\"http://x/y\""}, {s: "text/x-foo; q=\"\""},
	{s: "text / html"}, {s: "text/html;a=b;"}, {s: "text/html;;a=b"}, {s: "t"}, {s: "te"}, {s: "tex"}, {s: "a/b;c=d"}, {s: "ab;c=d"},
}

func paramsEq(a, b map[string]string) bool {
	if len(a) == 0 && len(b) == 0 {
		return true
	}
	return reflect.DeepEqual(a, b)
}

// c15CheckHistory runs all queries against the registry built from hist.
func c15Marked(f func()) { f() }

func c15CheckHistory(run *core.Run, hist []int, seen map[string]struct{}, seenMu *sync.Mutex) {
	m := minify.New()
	model := &c15Model{literal: map[string]int{}}
	log := &c15Log{}
	hs := fmt.Sprint(hist)
	// registrations and calls interleave on one registry: after every registration
	// a rotating subset of the queries is issued, after the last one all of them
	for step := 0; step <= len(hist); step++ {
		if step > 0 {
			c15Apply(m, model, log, step-1, hist[step-1])
		}
		c15QueryAll(run, m, model, log, hist, hs, step, step == len(hist))
	}
	if len(hist) >= 2 {
		run.NonTrivial([]byte(hs))
	}
}

func c15QueryAll(run *core.Run, m *minify.M, model *c15Model, log *c15Log, hist []int, hs string, step int, all bool) {
	report := func(q c15Query, what string) {
		var ops []string
		for _, k := range hist {
			op := c15Alphabet[k]
			ops = append(ops, op.kind+":"+op.literal+op.pattern)
		}
		run.Violation(core.Key(hs, []byte(q.s)), fmt.Sprintf("history %v after %d registrations, query %q: %s", ops, step, q.s, what),
			map[string]interface{}{"history": ops, "query": q.s, "after_registrations": step})
	}
	for qi, q := range c15Queries {
		if !all && (qi+step)%5 != 0 {
			continue
		}
		run.Eval()
		payload := "payload-" + q.s
		// Match
		pat, mparams, fn := m.Match(q.s)
		// Minify
		var out bytes.Buffer
		err := m.Minify(q.s, &out, strings.NewReader(payload))
		calls := log.take()
		if fn == nil {
			if !errors.Is(err, minify.ErrNotExist) {
				report(q, fmt.Sprintf("Match found no minifier but Minify returned err=%v", err))
				continue
			}
			if out.Len() != 0 || len(calls) != 0 {
				report(q, "not-exist case wrote bytes or ran a minifier")
				continue
			}
		} else {
			if err != nil {
				report(q, fmt.Sprintf("Match found a minifier but Minify failed: %v", err))
				continue
			}
			if len(calls) != 1 {
				report(q, fmt.Sprintf("Minify ran %d stubs", len(calls)))
				continue
			}
			var out2 bytes.Buffer
			if e2 := fn(m, &out2, strings.NewReader(payload), mparams); e2 != nil {
				report(q, "matched function failed")
				continue
			}
			calls2 := log.take()
			if len(calls2) != 1 || calls2[0].id != calls[0].id {
				report(q, fmt.Sprintf("Match answered stub %v but Minify used stub %d", calls2, calls[0].id))
				continue
			}
			if !paramsEq(calls[0].params, mparams) {
				report(q, fmt.Sprintf("Match params %v differ from the params Minify passed %v", mparams, calls[0].params))
				continue
			}
			if calls[0].input != payload || out.String() != fmt.Sprintf("<%d>%s", calls[0].id, payload) {
				report(q, "stub did not receive the payload / output not written through")
				continue
			}
		}
		// the convenience entry points resolve and call exactly like Minify, for an empty body as for any other
		for _, body := range []string{"", payload} {
			for _, entry := range []string{"Bytes", "String", "Reader", "Writer", "ResponseWriter"} {
				var eerr error
				var eout string
				if entry == "ResponseWriter" && (body == "" || strings.TrimSpace(q.s) == "") {
					continue // nothing is written for an empty body; an empty Content-Type falls back to the path
				}
				switch entry {
				case "ResponseWriter":
					rec := httptest.NewRecorder()
					// (a Content-Type that is set decides, whatever the path of the request looks like)
					mw := m.ResponseWriter(rec, httptest.NewRequest("GET", "http://example.com"+[]string{"/", "/report.html", "/data.json", "/feed.xml"}[(qi+step+len(body))%4], nil))
					mw.Header().Set("Content-Type", q.s)
					mw.Write([]byte(body))
					eerr = mw.Close()
					eout = rec.Body.String()
					if fn == nil {
						// no minifier for the type: the body passes through
						if c := log.take(); eerr != nil || eout != body || len(c) != 0 {
							report(q, fmt.Sprintf("ResponseWriter: Match finds no minifier but the body came out as %q (err %v, %d stubs ran)", eout, eerr, len(c)))
						}
						continue
					}
				case "Bytes":
					var b []byte
					b, eerr = m.Bytes(q.s, []byte(body))
					eout = string(b)
				case "String":
					eout, eerr = m.String(q.s, body)
				case "Reader":
					var b []byte
					b, eerr = io.ReadAll(m.Reader(q.s, strings.NewReader(body)))
					eout = string(b)
				default:
					var b bytes.Buffer
					w := m.Writer(q.s, &b)
					_, werr := w.Write([]byte(body))
					eerr = w.Close()
					if eerr == nil {
						eerr = werr
					}
					eout = b.String()
				}
				ecalls := log.take()
				if fn == nil {
					if !errors.Is(eerr, minify.ErrNotExist) || len(ecalls) != 0 {
						report(q, fmt.Sprintf("%s(%q): Match finds no minifier but the call returned err=%v and ran %d stubs", entry, body, eerr, len(ecalls)))
						break
					}
					continue
				}
				if eerr != nil || len(ecalls) != 1 || ecalls[0].id != calls[0].id || !paramsEq(ecalls[0].params, mparams) || ecalls[0].input != body || eout != fmt.Sprintf("<%d>%s", calls[0].id, body) {
					report(q, fmt.Sprintf("%s(%q): err=%v calls=%v output %q; Minify used stub %d with params %v", entry, body, eerr, ecalls, eout, calls[0].id, mparams))
					break
				}
			}
		}
		if q.wf {
			id, key, ok := model.lookup(q.mt)
			if ok != (fn != nil) {
				report(q, fmt.Sprintf("model says registered=%v, implementation says %v", ok, fn != nil))
				continue
			}
			if pat != key {
				report(q, fmt.Sprintf("Match returned key %q, model expects %q", pat, key))
				continue
			}
			if !paramsEq(mparams, q.params) {
				report(q, fmt.Sprintf("Match returned params %v, model expects %v", mparams, q.params))
				continue
			}
			if ok && calls[0].id != id {
				report(q, fmt.Sprintf("stub %d ran, model expects stub %d", calls[0].id, id))
				continue
			}
			// lower-level entry point with explicit params
			var out3 bytes.Buffer
			p3 := map[string]string{"k": "v"}
			err3 := m.MinifyMimetype([]byte(q.mt), &out3, strings.NewReader(payload), p3)
			c3 := log.take()
			if ok {
				if err3 != nil || len(c3) != 1 || c3[0].id != id || !paramsEq(c3[0].params, p3) {
					report(q, fmt.Sprintf("MinifyMimetype: err=%v calls=%v, model expects stub %d with params %v", err3, c3, id, p3))
					continue
				}
			} else if !errors.Is(err3, minify.ErrNotExist) || out3.Len() != 0 || len(c3) != 0 {
				report(q, "MinifyMimetype: not-exist case misbehaves")
				continue
			}
			// distinct outcome signature for coverage
			sig := fmt.Sprintf("%s|%s|%d", hs, q.s, id)
			_ = sig
		}
	}
}

func C15(run *core.Run) {
	run.ReplayWitnesses(func(f core.Finding, w core.Witness) (bool, string) {
		if w.Extra["kind"] == "cmd-args" {
			bad := c15CmdCheck(run, true)
			return bad != "", bad
		}
		return false, ""
	})
	L := run.N(4, 6)
	// exhaustive histories over the reduced alphabet
	var hists [][]int
	var rec func(cur []int)
	rec = func(cur []int) {
		hists = append(hists, append([]int{}, cur...))
		if len(cur) == L {
			return
		}
		for k := 0; k < c15Reduced; k++ {
			rec(append(cur, k))
		}
	}
	rec(nil)
	exh := len(hists)
	nr := run.N(3000, 60000)
	for i := 0; i < nr; i++ {
		r := run.CaseRand("hist", i, nr/2)
		n := 1 + r.Intn(40)
		h := make([]int, n)
		for j := range h {
			h[j] = r.Intn(len(c15Alphabet))
		}
		hists = append(hists, h)
	}
	var mu sync.Mutex
	seen := map[string]struct{}{}
	// registrations follow calls on the same registry (never concurrently): a registration that never returns -
	// every worker parked, nothing left to wake them - is reported instead of waited for
	var prog int64
	done := make(chan struct{})
	go func() {
		core.ParallelFor(len(hists), 0, func(i int) {
			c15Marked(func() { c15CheckHistory(run, hists[i], seen, &mu) })
			atomic.AddInt64(&prog, 1)
		})
		close(done)
	}()
	if d := awaitMarked(done, &prog, "checks.c15Marked"); d != "" {
		what := "a registration or call on a registry that is used by one goroutine only never returns (all workers parked with unchanging stacks):\n" + core.Trunc(d, 3000)
		run.Violation(core.Key("c15-blocked", nil), what, map[string]string{"problem": what})
		run.Finish("registration histories (stopped: a call blocked for ever)", nil, 1, false)
		return
	}
	run.Set("exhaustive_history_length_bound", L)
	run.Set("exhaustive_histories", exh)
	run.Set("random_histories", nr)
	run.Set("queries_per_history", len(c15Queries))
	run.Set("exhaustive_core", true)
	for _, i := range []int{7, 300, exh + 1} {
		if i < len(hists) {
			var ops []string
			for _, k := range hists[i] {
				op := c15Alphabet[k]
				ops = append(ops, op.kind+":"+op.literal+op.pattern)
			}
			run.Sample(map[string]interface{}{"history": ops, "queries": []string{c15Queries[0].s, c15Queries[18].s, c15Queries[26].s}})
		}
	}
	// command minifiers
	if bad := c15CmdCheck(run, false); bad != "" {
		run.Violation(core.Key("cmd", []byte(bad)), bad, map[string]string{"what": bad})
	}
	run.Finish("registration histories: every sequence up to the length bound over a reduced alphabet of 8 overlapping literal/pattern registrations (exhaustive) + seeded random histories up to length 40 over 22 registrations, each followed by all listed media type strings (well-formed ones compared with the reference model, others for Match/Minify agreement); plus AddCmd/AddCmdRegexp registries exercised sequentially and from 8 goroutines; a case is a history; non-trivial = at least two registrations",
		[]string{"reference model: literal first, then first registered matching pattern, else ErrNotExist; parameters after the first ';'", "media type splitting is only predicted for well-formed strings; for other strings Match and Minify must agree"}, 100, false)
}

// c15CmdCheck exercises AddCmd / AddCmdRegexp. Returns "" when all is well.
func c15CmdCheck(run *core.Run, replay bool) string {
	scratch := core.Scratch("c15")
	defer os.RemoveAll(scratch)
	old := os.Getenv("TMPDIR")
	os.Setenv("TMPDIR", scratch)
	defer os.Setenv("TMPDIR", old)

	m := minify.New()
	m.AddCmd("text/cat", exec.Command("cat"))
	m.AddCmdRegexp(regexp.MustCompile(`^cmd/stdin`), exec.Command("tr", "a-z", "A-Z"))
	m.AddCmd("text/inout", exec.Command("cp", "$in.txt", "$out.txt"))
	m.AddCmdRegexp(regexp.MustCompile(`^cmd/in$`), exec.Command("cat", "$in"))
	m.AddCmd("text/fail", exec.Command("sh", "-c", "echo boom >&2; exit 3"))
	type q struct{ mt, in, want string }
	var qs []q
	for i := 0; i < 6; i++ {
		p := fmt.Sprintf("payload %d abc", i)
		qs = append(qs, q{"text/cat", p, p}, q{"cmd/stdin-x", p, strings.ToUpper(p)}, q{"text/inout", p, p}, q{"cmd/in", p, p})
	}
	check := func(x q) string {
		var out bytes.Buffer
		err := m.Minify(x.mt, &out, strings.NewReader(x.in))
		if err != nil {
			return fmt.Sprintf("command minifier %s failed: %v", x.mt, err)
		}
		if out.String() != x.want {
			return fmt.Sprintf("command minifier %s: input %q gave %q, expected %q", x.mt, x.in, out.String(), x.want)
		}
		return ""
	}
	var bads []string
	for _, x := range qs {
		if !replay {
			run.Eval()
		}
		if b := check(x); b != "" {
			bads = append(bads, b)
		}
	}
	var out bytes.Buffer
	if err := m.Minify("text/fail", &out, strings.NewReader("x")); err == nil {
		bads = append(bads, "failing command reported success")
	}
	// registration order across the kinds of pattern: the first registered pattern that matches wins, whether it
	// was added as a minifier, a function or a command; literals (also command literals) beat every pattern
	{
		mark := func(tag string) minify.MinifierFunc {
			return func(_ *minify.M, w io.Writer, r io.Reader, _ map[string]string) error {
				b, _ := io.ReadAll(r)
				w.Write([]byte(tag + ":" + string(b)))
				return nil
			}
		}
		type reg struct {
			kind, pat string
		}
		upper := func() *exec.Cmd { return exec.Command("tr", "a-z", "A-Z") }
		for _, order := range [][]reg{
			{{"func", `^ord/`}, {"cmd", `^ord/x`}},
			{{"cmd", `^ord/`}, {"func", `^ord/x`}},
			{{"func", `^ord/y`}, {"cmd", `^ord/`}, {"func", `^ord/x`}},
			{{"cmd", `^ord/x`}, {"func", `.`}, {"cmdlit", `ord/x`}},
			{{"func", `.`}, {"cmdlit", `ord/x`}, {"cmd", `^ord/x`}},
		} {
			mm := minify.New()
			expect := ""
			for i, r := range order {
				tag := fmt.Sprintf("f%d", i)
				switch r.kind {
				case "func":
					mm.AddFuncRegexp(regexp.MustCompile(r.pat), mark(tag))
				case "cmd":
					mm.AddCmdRegexp(regexp.MustCompile(r.pat), upper())
					tag = "CMD"
				case "cmdlit":
					mm.AddCmd(r.pat, upper())
					tag = "CMD"
				}
				matches := r.kind == "cmdlit" || regexp.MustCompile(r.pat).MatchString("ord/x")
				if r.kind == "cmdlit" {
					expect = tag // a literal wins over every pattern
				} else if matches && expect == "" {
					expect = tag
				}
			}
			for _, o := range order {
				if o.kind == "cmdlit" {
					expect = "CMD"
				}
			}
			if !replay {
				run.Eval()
			}
			var ob bytes.Buffer
			err := mm.Minify("ord/x", &ob, strings.NewReader("payload"))
			want := expect + ":payload"
			if expect == "CMD" {
				want = "PAYLOAD"
			}
			if err != nil || ob.String() != want {
				bads = append(bads, fmt.Sprintf("registrations %v: ord/x gave %q (%v), the first registered match gives %q", order, ob.String(), err, want))
			}
		}
	}
	// a command whose program cannot be found is registered all the same: the type is served by it (and so fails
	// with the start error), not by what was registered before it or by a pattern
	{
		missing := func() *exec.Cmd { return exec.Command("/nonexistent/verif-no-such-tool", "--flag") }
		bare := func() *exec.Cmd { return exec.Command("verif-no-such-tool-on-path") }
		for ci, build := range []func(mm *minify.M, hit *int){
			func(mm *minify.M, hit *int) {
				mm.AddFunc("ord/m", func(_ *minify.M, w io.Writer, r io.Reader, _ map[string]string) error { *hit++; return nil })
				mm.AddCmd("ord/m", missing())
			},
			func(mm *minify.M, hit *int) {
				mm.AddFuncRegexp(regexp.MustCompile(`^ord/`), func(_ *minify.M, w io.Writer, r io.Reader, _ map[string]string) error { *hit++; return nil })
				mm.AddCmd("ord/m", bare())
			},
			func(mm *minify.M, hit *int) { mm.AddCmd("ord/m", bare()) },
			func(mm *minify.M, hit *int) {
				mm.AddCmdRegexp(regexp.MustCompile(`^ord/m$`), missing())
				mm.AddFuncRegexp(regexp.MustCompile(`^ord/`), func(_ *minify.M, w io.Writer, r io.Reader, _ map[string]string) error { *hit++; return nil })
			},
		} {
			mm := minify.New()
			hit := 0
			build(mm, &hit)
			if !replay {
				run.Eval()
			}
			var ob bytes.Buffer
			err := mm.Minify("ord/m", &ob, strings.NewReader("payload"))
			_, _, fn := mm.Match("ord/m")
			switch {
			case err == nil || errors.Is(err, minify.ErrNotExist):
				bads = append(bads, fmt.Sprintf("missing-program case %d: the call for the type of a registered command returned %v", ci, err))
			case hit != 0:
				bads = append(bads, fmt.Sprintf("missing-program case %d: another minifier served the type of a registered command", ci))
			case fn == nil:
				bads = append(bads, fmt.Sprintf("missing-program case %d: Match finds nothing for the type of a registered command", ci))
			}
		}
	}
	// concurrent use (per-call exec.Cmd copy)
	var wg sync.WaitGroup
	var mu sync.Mutex
	for g := 0; g < 8; g++ {
		wg.Add(1)
		go func(g int) {
			defer wg.Done()
			for i := 0; i < 4; i++ {
				p := fmt.Sprintf("g%d-i%d xyz", g, i)
				for _, x := range []q{{"text/cat", p, p}, {"text/inout", p, p}, {"cmd/in", p, p}} {
					if b := check(x); b != "" {
						mu.Lock()
						bads = append(bads, "concurrent: "+b)
						mu.Unlock()
					}
				}
			}
		}(g)
	}
	wg.Wait()
	if !replay {
		run.Set("command_minifier_calls", len(qs)+1+8*4*3)
	}
	if len(bads) == 0 {
		return ""
	}
	sort.Strings(bads)
	return bads[0]
}
