package checks

// C14 — I/O failures surface as errors, never as silent truncation or deadlock.
// Monitors: fault-injecting reader/writer doubles at every position, return
// value oracle with unique sentinel errors, call-budget progress monitor,
// goroutine-dump based blocked-forever detector, race-detector child.

import (
	"bytes"
	"context"
	"errors"
	"fmt"
	mhtml "github.com/tdewolff/minify/v2/html"
	"io"
	"net/http"
	"net/http/httptest"
	"os"
	"os/exec"
	"regexp"
	"runtime"
	"sort"
	"strings"
	"sync/atomic"
	"time"

	"github.com/tdewolff/minify/v2"
	"verif/harness/core"
)

type faultReader struct {
	data    []byte
	pos     int
	k       int // fail after k bytes (k > len(data) = never)
	variant int // 0 error on next call, 1 error with the last bytes, 2 (0,nil) stutter first
	chunk   int
	err     error
	calls   int
	budget  int
	stutter bool
	over    bool
}

func (r *faultReader) Read(p []byte) (int, error) {
	r.calls++
	if r.calls > r.budget {
		r.over = true
		return 0, errors.New("c14: reader call budget exceeded")
	}
	if len(p) == 0 {
		return 0, nil
	}
	limit := len(r.data)
	faulty := r.k <= len(r.data)
	if faulty {
		limit = r.k
	}
	if r.pos >= limit {
		if faulty {
			if r.variant == 2 && !r.stutter {
				r.stutter = true
				return 0, nil
			}
			return 0, r.err
		}
		return 0, io.EOF
	}
	n := r.chunk
	if n > len(p) {
		n = len(p)
	}
	if n > limit-r.pos {
		n = limit - r.pos
	}
	copy(p, r.data[r.pos:r.pos+n])
	r.pos += n
	if faulty && r.pos == limit && r.variant == 1 {
		return n, r.err
	}
	return n, nil
}

type faultWriter struct {
	k      int // calls with index >= k fail
	calls  int
	err    error
	buf    bytes.Buffer
	budget int
	over   bool
	fired  bool // the injected error was actually returned at least once
}

func (w *faultWriter) Write(p []byte) (int, error) {
	i := w.calls
	w.calls++
	if w.calls > w.budget {
		w.over = true
		return 0, errors.New("c14: writer call budget exceeded")
	}
	if i >= w.k {
		w.fired = true
		return 0, w.err
	}
	return w.buf.Write(p)
}

// faultBufWriter: the same destination looking like an in-memory buffer with a size cap (it has the accessor
// methods of one); what a destination can do besides Write says nothing about whether its writes fail
type faultBufWriter struct{ *faultWriter }

func (w faultBufWriter) Bytes() []byte  { return w.buf.Bytes() }
func (w faultBufWriter) Len() int       { return w.buf.Len() }
func (w faultBufWriter) String() string { return w.buf.String() }

type faultRW struct {
	hdr http.Header
	w   *faultWriter
}

func (f *faultRW) Header() http.Header         { return f.hdr }
func (f *faultRW) Write(p []byte) (int, error) { return f.w.Write(p) }
func (f *faultRW) WriteHeader(int)             {}

type c14Case struct {
	mt      string
	input   []byte
	entry   string // direct | reader | writer | respwriter
	rk      int    // reader fault position, -1 none
	rvar    int
	chunk   int
	rerr    int // kind of reader error
	wk      int // writer fault index, -1 none
	werr    int // kind of writer error
	refOut  []byte
	refW    int
	srcName string
}

func (c c14Case) String() string {
	return fmt.Sprintf("%s %s rk=%d rvar=%d rerr=%d chunk=%d wk=%d werr=%d len=%d", c.mt, c.entry, c.rk, c.rvar, c.rerr, c.chunk, c.wk, c.werr, len(c.input))
}

// reader failures come in three kinds: a plain sentinel, and errors that wrap io.EOF /
// io.ErrUnexpectedEOF (still failures: io.Reader signals a clean end only by io.EOF itself)
type c14WrapErr struct{ inner error }

func (e *c14WrapErr) Error() string { return "c14 injected reader failure: " + e.inner.Error() }
func (e *c14WrapErr) Unwrap() error { return e.inner }

var errC14R = errors.New("c14 injected reader failure")
var errC14REOF error = &c14WrapErr{io.EOF}
var errC14RUEOF error = &c14WrapErr{io.ErrUnexpectedEOF}

func c14ReaderErr(kind int) error {
	switch kind {
	case 1:
		return errC14REOF
	case 2:
		return errC14RUEOF
	}
	return errC14R
}

var errC14W = errors.New("c14 injected writer failure")

// c14Exec runs one case; returns "" if the property held, else what failed.
// c14Registry: the six real minifiers plus a streaming one that copies its input through (it returns as soon
// as the destination fails, without having consumed the rest of its input, unlike the built-in ones).
func c14Registry() *minify.M {
	m := newM(&Opts{HTML: mhtml.Minifier{KeepSpecialComments: true}})
	// history: the registry has seen failures before the cases run (documents whose embedded content does not
	// minify, inputs that are cut off); nothing of that may linger in the shared minifier values
	for _, p := range [][2]string{
		{"text/html", "<!--[if lt IE 9]><script>var = ;</script><![endif]--><p>x</p>"},
		{"text/html", "<p style=\"color:{\">x</p><script>function(</script>"},
		{"text/html", "<svg><style>a{</style><path d=\"M0 0L\"/></svg>"},
		{"text/css", "a{b:url("},
		{"application/javascript", "var = ;"},
		{"application/json", "{\"a\":"},
		{"image/svg+xml", "<svg><style>a{b:</style>"},
		{"text/xml", "<a><b"},
	} {
		func() {
			defer func() { recover() }()
			m.Minify(p[0], io.Discard, strings.NewReader(p[1]))
			m.Minify(p[0], c14FailW{}, strings.NewReader(p[1]))
		}()
	}
	m.AddFunc("text/x-copy", func(_ *minify.M, w io.Writer, r io.Reader, _ map[string]string) error {
		_, err := io.Copy(w, r)
		return err
	})
	// command minifiers: input and output through temporary files, and through the command's standard streams
	m.AddCmd("text/x-cmd-files", exec.Command("cp", "$in.txt", "$out.txt"))
	m.AddCmd("text/x-cmd-pipe", exec.Command("cat"))
	return m
}

const c14Unregistered = "text/x-nothing-registered"

// c14Streaming: minifiers that pass data on while reading, so that how many writes happen depends on the chunking
func c14Streaming(mt string) bool {
	return mt == "text/x-copy" || mt == "text/x-cmd-files" || mt == "text/x-cmd-pipe"
}

type c14FailW struct{}

func (c14FailW) Write([]byte) (int, error) { return 0, errors.New("c14: history writer fails") }

// the destination's error: a unique sentinel, or one of the errors the standard library itself produces
func c14WriterErr(kind int) error {
	switch kind {
	case 1:
		return io.ErrClosedPipe
	case 2:
		return io.ErrShortWrite
	case 3:
		return io.EOF
	case 4:
		return io.ErrUnexpectedEOF
	}
	return errC14W
}

func c14Exec(m *minify.M, c c14Case) (bad string) {
	defer func() {
		if r := recover(); r != nil {
			bad = fmt.Sprintf("panic: %v", r)
		}
	}()
	rk := c.rk
	if rk < 0 {
		rk = len(c.input) + 1
	}
	wk := c.wk
	if wk < 0 {
		wk = 1 << 30
	}
	fr := &faultReader{data: c.input, k: rk, variant: c.rvar, chunk: c.chunk, err: c14ReaderErr(c.rerr), budget: 100*(len(c.input)+2) + 1000}
	errC14R := fr.err
	errC14W := c14WriterErr(c.werr) // (shadows the sentinel: the comparisons below use this case's error)
	fw := &faultWriter{k: wk, err: errC14W, budget: 100*(c.refW+len(c.input)+2) + 1000}
	var dst io.Writer = fw
	if (len(c.input)+c.wk+c.chunk)%2 == 0 {
		dst = faultBufWriter{fw}
	}
	readerFault := c.rk >= 0
	writerFault := c.wk >= 0 && c.wk < c.refW
	judge := func(err error) string {
		if c.mt == c14Unregistered {
			if err == nil {
				return "nil error although nothing is registered for the type"
			}
			return "" // the call fails before it reads: whichever error it reports, it reports one
		}
		if c14Streaming(c.mt) {
			writerFault = fw.fired // the number of writes of a streaming minifier depends on the chunking
		}
		if fr.over || fw.over {
			return "call budget exceeded (livelock)"
		}
		switch {
		case readerFault && writerFault:
			if err == nil {
				return "nil error although reader and writer failed"
			}
			if !errors.Is(err, errC14R) && !errors.Is(err, errC14W) {
				return "error is neither the reader's nor the writer's: " + err.Error()
			}
		case readerFault:
			if err == nil {
				return "nil error although the reader failed"
			}
			if !errors.Is(err, errC14R) {
				return "error is not the reader's: " + err.Error()
			}
		case writerFault:
			if err == nil {
				return "nil error although the writer failed"
			}
			if !errors.Is(err, errC14W) {
				return "error is not the writer's: " + err.Error()
			}
		default:
			if err != nil {
				return "fault-free control run failed: " + err.Error()
			}
			if !bytes.Equal(fw.buf.Bytes(), c.refOut) {
				return "fault-free control run differs from reference output"
			}
		}
		return ""
	}
	switch c.entry {
	case "direct":
		return judge(m.Minify(c.mt, dst, fr))
	case "reader":
		// the consumer is us: only reader faults apply
		rd := m.Reader(c.mt, fr)
		out, err := io.ReadAll(rd)
		if c.mt == c14Unregistered {
			if err == nil {
				return fmt.Sprintf("Reader wrapper: nothing is registered for the type, yet Read delivered %d bytes and a clean end of stream", len(out))
			}
			return ""
		}
		if readerFault {
			if err == nil {
				return "Reader wrapper: nil error from Read although the source failed"
			}
			if !errors.Is(err, errC14R) {
				return "Reader wrapper: error is not the source's: " + err.Error()
			}
			return ""
		}
		if err != nil {
			return "Reader wrapper control run failed: " + err.Error()
		}
		if !bytes.Equal(out, c.refOut) {
			return "Reader wrapper control output differs"
		}
		return ""
	case "writer", "respwriter":
		var wc io.WriteCloser
		if c.entry == "writer" {
			wc = m.Writer(c.mt, dst)
		} else {
			req := httptest.NewRequest("GET", "/x", nil)
			rw := &faultRW{hdr: http.Header{}, w: fw}
			rw.hdr.Set("Content-Type", c.mt)
			wc = m.ResponseWriter(rw, req)
		}
		var werr error
		for p := 0; p < len(c.input); p += c.chunk {
			e := p + c.chunk
			if e > len(c.input) {
				e = len(c.input)
			}
			if _, err := wc.Write(c.input[p:e]); err != nil {
				werr = err
				break
			}
		}
		cerr := wc.Close()
		if fw.over {
			return "call budget exceeded (livelock)"
		}
		if c14Streaming(c.mt) {
			writerFault = fw.fired
		}
		if writerFault {
			if cerr == nil && werr == nil {
				return c.entry + " wrapper: neither Write nor Close returned an error although the destination failed"
			}
			if !errors.Is(cerr, errC14W) && !errors.Is(werr, errC14W) {
				return fmt.Sprintf("%s wrapper: destination error lost (Write: %v, Close: %v)", c.entry, werr, cerr)
			}
			return ""
		}
		if cerr != nil || werr != nil {
			return fmt.Sprintf("%s wrapper control run failed (Write: %v, Close: %v)", c.entry, werr, cerr)
		}
		if !bytes.Equal(fw.buf.Bytes(), c.refOut) {
			return c.entry + " wrapper control output differs"
		}
		return ""
	}
	return "unknown entry"
}

var goroutineHdr = regexp.MustCompile(`(?m)^goroutine (\d+) \[([^\]]+)\]:`)

// blockedForever inspects two goroutine dumps: the goroutines that carry marker
// in their stack must exist in both, be in a blocking state, with identical stacks.
func blockedForever(marker string) (bool, string) {
	dump := func() map[string]string {
		buf := make([]byte, 16<<20)
		n := runtime.Stack(buf, true)
		parts := strings.Split(string(buf[:n]), "\n\n")
		res := map[string]string{}
		for _, p := range parts {
			if !strings.Contains(p, marker) {
				continue
			}
			mm := goroutineHdr.FindStringSubmatch(p)
			if mm == nil {
				continue
			}
			state := mm[2]
			if i := strings.Index(state, ","); i >= 0 {
				state = state[:i]
			}
			body := p[strings.Index(p, "\n")+1:]
			res[mm[1]] = state + "\n" + body
		}
		return res
	}
	d1 := dump()
	time.Sleep(1500 * time.Millisecond)
	d2 := dump()
	if len(d1) == 0 || len(d1) != len(d2) {
		return false, ""
	}
	for id, s1 := range d1 {
		s2, ok := d2[id]
		if !ok || s1 != s2 {
			return false, ""
		}
		st := s1[:strings.Index(s1, "\n")]
		switch st {
		case "chan receive", "chan send", "select", "semacquire", "sync.Cond.Wait", "sync.WaitGroup.Wait", "sync.Mutex.Lock", "sync.RWMutex.RLock", "sync.RWMutex.Lock", "select (no cases)", "chan receive (nil chan)", "chan send (nil chan)":
		default:
			return false, ""
		}
	}
	var ids []string
	for id, s := range d1 {
		ids = append(ids, "goroutine "+id+" ["+core.Trunc(s, 700)+"]")
	}
	sort.Strings(ids)
	return true, strings.Join(ids, "\n---\n")
}

// c14RunGuarded runs the case under a watchdog. verdict: "" held, "INCONCLUSIVE", or description.
func c14RunGuarded(m *minify.M, c c14Case) string {
	done := make(chan string, 1)
	go func() { done <- c14GuardMarker(m, c) }()
	select {
	case r := <-done:
		return r
	case <-time.After(20 * time.Second):
	}
	// watchdog fired: logical check on goroutine states
	if ok, detail := blockedForever("checks.c14GuardMarker"); ok {
		return "call never returns: all goroutines of the case are blocked with unchanging stacks:\n" + detail
	}
	select {
	case r := <-done:
		return r
	case <-time.After(120 * time.Second):
	}
	if ok, detail := blockedForever("checks.c14GuardMarker"); ok {
		return "call never returns: all goroutines of the case are blocked with unchanging stacks:\n" + detail
	}
	return "INCONCLUSIVE"
}

//go:noinline
func c14GuardMarker(m *minify.M, c c14Case) string { return c14Exec(m, c) }

func positions(n int, dense int, stride int) []int {
	var ps []int
	for k := 0; k <= n; k++ {
		if k <= dense || k == n || k == n-1 || (k-dense)%stride == 0 {
			ps = append(ps, k)
		}
	}
	return ps
}

type c14Input struct {
	mt   string
	name string
	data []byte
}

func c14Inputs(run *core.Run, maxFile int) []c14Input {
	var ins []c14Input
	for _, mt := range sixTypes {
		for i, s := range smallInputs[mt] {
			ins = append(ins, c14Input{mt, fmt.Sprintf("small:%s#%d", mt, i), []byte(s)})
		}
		for _, f := range repoCorpus(mt, maxFile) {
			ins = append(ins, c14Input{mt, f.Name, f.Data})
		}
	}
	// media types with parameters: the inline modes take other paths through the minifiers
	for i, d := range []string{"color : #ff0000 ; margin : 0px 0px", "background : url( \"a b.png\" ) ; font-weight : bold", ""} {
		ins = append(ins, c14Input{"text/css;inline=1", fmt.Sprintf("inlinecss#%d", i), []byte(d)})
	}
	for i, d := range smallInputs["image/svg+xml"] {
		if i < 2 {
			ins = append(ins, c14Input{"image/svg+xml;inline=1", fmt.Sprintf("inlinesvg#%d", i), []byte(d)})
		}
	}
	// the streaming minifier: inputs of several pipe/chunk sizes
	for i, n := range []int{1, 100, 4096, 3 * 4096, 70000} {
		ins = append(ins, c14Input{"text/x-copy", fmt.Sprintf("copy#%d", i), bytes.Repeat([]byte("0123456789abcdef"), n/16+1)[:n]})
	}
	for i, n := range []int{1, 90, 5000} {
		ins = append(ins, c14Input{"text/x-cmd-files", fmt.Sprintf("cmdfiles#%d", i), bytes.Repeat([]byte("payload for cp "), n/15+1)[:n]},
			c14Input{"text/x-cmd-pipe", fmt.Sprintf("cmdpipe#%d", i), bytes.Repeat([]byte("payload for cat "), n/16+1)[:n]})
	}
	ins = append(ins, c14Input{c14Unregistered, "unregistered#0", []byte("plain text for a type that has no minifier, long enough to be read in several chunks. ")})
	// generated JSON texts
	for i := 0; i < run.N(10, 60); i++ {
		r := run.CaseRand("json", i, run.N(10, 60)/2)
		ins = append(ins, c14Input{"application/json", fmt.Sprintf("genjson#%d", i), genJSONText(r)})
	}
	return ins
}

func c14BuildCases(run *core.Run, ins []c14Input, race bool) []c14Case {
	m := c14Registry()
	var cases []c14Case
	dense, stride := 512, 61
	if race {
		dense, stride = 6, 211
	}
	for ii, in := range ins {
		// fault-free reference
		ref := &faultWriter{k: 1 << 30, budget: 1 << 30}
		err := func() (err error) {
			defer func() {
				if r := recover(); r != nil {
					err = fmt.Errorf("panic %v", r)
				}
			}()
			return m.Minify(in.mt, ref, bytes.NewReader(append([]byte{}, in.data...)))
		}()
		ok := err == nil
		r := core.Stream(uint64(ii), "c14", in.name)
		chunks := []int{1, 7, 4096}
		base := c14Case{mt: in.mt, input: in.data, rk: -1, wk: -1, refOut: append([]byte{}, ref.buf.Bytes()...), refW: ref.calls, srcName: in.name, chunk: 4096}
		// reader faults: every position (valid or not: the reader's error must win since input is read first)
		for _, k := range positions(len(in.data), dense, stride) {
			for v := 0; v < 3; v++ {
				c := base
				c.rk, c.rvar, c.chunk = k, v, chunks[r.Intn(3)]
				c.rerr = (k + v) % 3
				c.entry = "direct"
				cases = append(cases, c)
				if v == r.Intn(3) {
					c.entry = "reader"
					cases = append(cases, c)
				}
			}
		}
		if !ok {
			continue
		}
		// writer faults: every write index, plus control k == W
		for _, k := range positions(ref.calls, dense, stride) {
			for _, entry := range []string{"direct", "writer", "respwriter"} {
				if entry == "respwriter" && len(in.data) == 0 {
					continue // no Write ever reaches the response writer, so nothing is minified and nothing can fail
				}
				c := base
				c.wk, c.entry, c.chunk = k, entry, chunks[r.Intn(3)]
				if r.Chance(1, 3) {
					c.werr = 1 + r.Intn(4)
				}
				cases = append(cases, c)
			}
			// both at once (sampled)
			if r.Chance(1, 3) {
				c := base
				c.wk, c.entry = k, "direct"
				c.rk, c.rvar = r.Intn(len(in.data)+1), r.Intn(3)
				cases = append(cases, c)
			}
		}
		// every prefix of a small valid input is an input of its own ("input ends inside X"):
		// all writes fail / only the final probe fails / a seeded position
		if len(in.data) <= 700 && !race && !strings.HasPrefix(in.name, "prefix:") {
			for cut := 0; cut < len(in.data); cut++ {
				pre := in.data[:cut]
				pref := &faultWriter{k: 1 << 30, budget: 1 << 30}
				perr := func() (err error) {
					defer func() {
						if r := recover(); r != nil {
							err = fmt.Errorf("panic %v", r)
						}
					}()
					return m.Minify(in.mt, pref, bytes.NewReader(append([]byte{}, pre...)))
				}()
				if perr != nil {
					continue
				}
				pb := c14Case{mt: in.mt, input: pre, rk: -1, wk: -1, refOut: append([]byte{}, pref.buf.Bytes()...), refW: pref.calls, srcName: fmt.Sprintf("prefix:%d:%s", cut, in.name), chunk: 4096}
				for _, k := range []int{0, pref.calls - 1, r.Intn(pref.calls)} {
					c := pb
					c.wk = k
					c.entry = []string{"direct", "writer"}[r.Intn(2)]
					cases = append(cases, c)
				}
			}
		}
		// controls through the wrappers
		for _, entry := range []string{"direct", "reader", "writer", "respwriter"} {
			c := base
			c.entry, c.chunk = entry, chunks[r.Intn(3)]
			cases = append(cases, c)
		}
	}
	return cases
}

func c14RunCases(run *core.Run, cases []c14Case) {
	m := c14Registry()
	var kinds [8]int64
	core.ParallelFor(len(cases), 0, func(i int) {
		c := cases[i]
		run.Eval()
		res := c14RunGuarded(m, c)
		if res == "INCONCLUSIVE" {
			run.Inconclusive()
			return
		}
		cfg := c.String()
		if res != "" {
			run.Violation(core.Key(cfg, c.input), cfg+" ["+c.srcName+"]: "+res, map[string]interface{}{"case": cfg, "source": c.srcName, "input": core.Trunc(string(c.input), 3000)})
			return
		}
		if c.rk >= 0 || (c.wk >= 0 && c.wk < c.refW) {
			run.NonTrivial([]byte(cfg), c.input)
			j := 0
			if c.rk >= 0 {
				j |= 1
			}
			if c.wk >= 0 {
				j |= 2
			}
			atomic.AddInt64(&kinds[j], 1)
		}
	})
	run.CountN("reader_fault_cases", kinds[1])
	run.CountN("writer_fault_cases", kinds[2])
	run.CountN("both_fault_cases", kinds[3])
}

func C14(run *core.Run) {
	defer scratchTMPDIR("c14tmp")() // the command minifiers leave their temporary files behind
	ins := c14Inputs(run, run.N(6000, 65536))
	cases := c14BuildCases(run, ins, false)
	run.Set("inputs", len(ins))
	for _, i := range []int{0, len(cases) / 3, len(cases) - 1} {
		run.Sample(map[string]string{"case": cases[i].String(), "source": cases[i].srcName})
	}
	c14RunCases(run, cases)
	// race-detector child over a reduced workload
	races, raceLog, err := runRaceChild("c14race")
	run.Set("race_child_reports", races)
	if err != nil {
		run.Set("race_child_error", err.Error())
		fmt.Println("race child problem:", err)
		run.Inconclusive()
	}
	if races > 0 {
		run.Violation(core.Key("race", []byte(core.Trunc(raceLog, 2000))), "race detector reports in minify code:\n"+core.Trunc(raceLog, 3000), map[string]string{"log": core.Trunc(raceLog, 20000)})
	}
	run.Finish("for each input (hand-written, generated JSON, repository corpus files) of each of the six media types: reader fault at every byte position (three fault shapes: error on next call / with the last bytes / after a (0,nil) stutter) through Minify and the Reader wrapper, writer fault from every write index on (incl. the final probe write) through Minify, the Writer wrapper and the ResponseWriter, sampled combinations of both, plus fault-free controls; positions above 512 are sampled every 61st; a case is (media type, entry point, fault positions, chunking, input); non-trivial = a fault was actually injected",
		[]string{"sentinel errors compared with errors.Is", "blocked-forever is decided from two identical goroutine dumps of the case's goroutines, a mere watchdog expiry is inconclusive"}, 1000, false)
}

// ---- race child plumbing (shared by C12/C13/C14)

// runRaceChild runs `$VCHECK_RACE <name>` and counts race reports that involve minify frames.
func runRaceChild(name string, args ...string) (int, string, error) {
	bin := os.Getenv("VCHECK_RACE")
	if bin == "" {
		return 0, "", errors.New("VCHECK_RACE not set")
	}
	scratch := core.Scratch("race")
	defer os.RemoveAll(scratch)
	ctx, cancel := context.WithTimeout(context.Background(), 20*time.Minute) // generous watchdog; firing = error -> inconclusive
	defer cancel()
	cmd := exec.CommandContext(ctx, bin, append([]string{name}, args...)...)
	cmd.Env = append(os.Environ(), "GORACE=halt_on_error=0 log_path="+scratch+"/race")
	out, err := cmd.CombinedOutput()
	logs := ""
	files, _ := os.ReadDir(scratch)
	for _, f := range files {
		b, _ := os.ReadFile(scratch + "/" + f.Name())
		logs += string(b)
	}
	n := 0
	var relevant []string
	for _, l := range strings.Split(string(out), "\n") {
		if strings.HasPrefix(l, "PROBLEM:") {
			n++
			relevant = append(relevant, l)
		}
	}
	for _, blk := range strings.Split(logs, "==================") {
		if !strings.Contains(blk, "WARNING: DATA RACE") {
			continue
		}
		if strings.Contains(blk, "github.com/tdewolff/minify") {
			n++
			relevant = append(relevant, blk)
		}
	}
	if err != nil {
		if _, ok := err.(*exec.ExitError); ok && n > 0 {
			err = nil // race detector exit code 66
		} else if ok && strings.Contains(string(out), "CHILD-OK") {
			err = nil
		} else {
			err = fmt.Errorf("%v: %s", err, core.Trunc(string(out), 2000))
		}
	}
	if err == nil && !strings.Contains(string(out), "CHILD-OK") && n == 0 {
		err = fmt.Errorf("race child did not complete: %s", core.Trunc(string(out), 2000))
	}
	return n, strings.Join(relevant, "\n==================\n"), err
}

func init() {
	Children["c14race"] = func(args []string) {
		run := core.Start("C14", "fault_enumeration")
		var ins []c14Input
		for _, mt := range sixTypes {
			for i, s := range smallInputs[mt][:2] {
				ins = append(ins, c14Input{mt, fmt.Sprintf("small:%s#%d", mt, i), []byte(s)})
			}
		}
		cases := c14BuildCases(run, ins, true)
		m := c14Registry()
		bad := 0
		core.ParallelFor(len(cases), 0, func(i int) {
			if r := c14Exec(m, cases[i]); r != "" {
				bad++
			}
		})
		fmt.Printf("CHILD-OK cases=%d bad=%d\n", len(cases), bad)
	}
}
