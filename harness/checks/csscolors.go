package checks

import "sort"

// CSS Color Module Level 4 named colours (148), transcribed from the specification.
var cssNamedColors = map[string]string{
	"aliceblue": "f0f8ff", "antiquewhite": "faebd7", "aqua": "00ffff", "aquamarine": "7fffd4", "azure": "f0ffff",
	"beige": "f5f5dc", "bisque": "ffe4c4", "black": "000000", "blanchedalmond": "ffebcd", "blue": "0000ff",
	"blueviolet": "8a2be2", "brown": "a52a2a", "burlywood": "deb887", "cadetblue": "5f9ea0", "chartreuse": "7fff00",
	"chocolate": "d2691e", "coral": "ff7f50", "cornflowerblue": "6495ed", "cornsilk": "fff8dc", "crimson": "dc143c",
	"cyan": "00ffff", "darkblue": "00008b", "darkcyan": "008b8b", "darkgoldenrod": "b8860b", "darkgray": "a9a9a9",
	"darkgreen": "006400", "darkgrey": "a9a9a9", "darkkhaki": "bdb76b", "darkmagenta": "8b008b", "darkolivegreen": "556b2f",
	"darkorange": "ff8c00", "darkorchid": "9932cc", "darkred": "8b0000", "darksalmon": "e9967a", "darkseagreen": "8fbc8f",
	"darkslateblue": "483d8b", "darkslategray": "2f4f4f", "darkslategrey": "2f4f4f", "darkturquoise": "00ced1", "darkviolet": "9400d3",
	"deeppink": "ff1493", "deepskyblue": "00bfff", "dimgray": "696969", "dimgrey": "696969", "dodgerblue": "1e90ff",
	"firebrick": "b22222", "floralwhite": "fffaf0", "forestgreen": "228b22", "fuchsia": "ff00ff", "gainsboro": "dcdcdc",
	"ghostwhite": "f8f8ff", "gold": "ffd700", "goldenrod": "daa520", "gray": "808080", "green": "008000",
	"greenyellow": "adff2f", "grey": "808080", "honeydew": "f0fff0", "hotpink": "ff69b4", "indianred": "cd5c5c",
	"indigo": "4b0082", "ivory": "fffff0", "khaki": "f0e68c", "lavender": "e6e6fa", "lavenderblush": "fff0f5",
	"lawngreen": "7cfc00", "lemonchiffon": "fffacd", "lightblue": "add8e6", "lightcoral": "f08080", "lightcyan": "e0ffff",
	"lightgoldenrodyellow": "fafad2", "lightgray": "d3d3d3", "lightgreen": "90ee90", "lightgrey": "d3d3d3", "lightpink": "ffb6c1",
	"lightsalmon": "ffa07a", "lightseagreen": "20b2aa", "lightskyblue": "87cefa", "lightslategray": "778899", "lightslategrey": "778899",
	"lightsteelblue": "b0c4de", "lightyellow": "ffffe0", "lime": "00ff00", "limegreen": "32cd32", "linen": "faf0e6",
	"magenta": "ff00ff", "maroon": "800000", "mediumaquamarine": "66cdaa", "mediumblue": "0000cd", "mediumorchid": "ba55d3",
	"mediumpurple": "9370db", "mediumseagreen": "3cb371", "mediumslateblue": "7b68ee", "mediumspringgreen": "00fa9a", "mediumturquoise": "48d1cc",
	"mediumvioletred": "c71585", "midnightblue": "191970", "mintcream": "f5fffa", "mistyrose": "ffe4e1", "moccasin": "ffe4b5",
	"navajowhite": "ffdead", "navy": "000080", "oldlace": "fdf5e6", "olive": "808000", "olivedrab": "6b8e23",
	"orange": "ffa500", "orangered": "ff4500", "orchid": "da70d6", "palegoldenrod": "eee8aa", "palegreen": "98fb98",
	"paleturquoise": "afeeee", "palevioletred": "db7093", "papayawhip": "ffefd5", "peachpuff": "ffdab9", "peru": "cd853f",
	"pink": "ffc0cb", "plum": "dda0dd", "powderblue": "b0e0e6", "purple": "800080", "rebeccapurple": "663399",
	"red": "ff0000", "rosybrown": "bc8f8f", "royalblue": "4169e1", "saddlebrown": "8b4513", "salmon": "fa8072",
	"sandybrown": "f4a460", "seagreen": "2e8b57", "seashell": "fff5ee", "sienna": "a0522d", "silver": "c0c0c0",
	"skyblue": "87ceeb", "slateblue": "6a5acd", "slategray": "708090", "slategrey": "708090", "snow": "fffafa",
	"springgreen": "00ff7f", "steelblue": "4682b4", "tan": "d2b48c", "teal": "008080", "thistle": "d8bfd8",
	"tomato": "ff6347", "turquoise": "40e0d0", "violet": "ee82ee", "wheat": "f5deb3", "white": "ffffff",
	"whitesmoke": "f5f5f5", "yellow": "ffff00", "yellowgreen": "9acd32",
}

// cssHexToRGBA parses #rgb #rgba #rrggbb #rrggbbaa (without '#').
func cssHexToRGBA(h string) (r, g, b, a int, ok bool) {
	hv := func(c byte) int {
		switch {
		case c >= '0' && c <= '9':
			return int(c - '0')
		case c >= 'a' && c <= 'f':
			return int(c-'a') + 10
		case c >= 'A' && c <= 'F':
			return int(c-'A') + 10
		}
		return -1
	}
	for i := 0; i < len(h); i++ {
		if hv(h[i]) < 0 {
			return 0, 0, 0, 0, false
		}
	}
	switch len(h) {
	case 3, 4:
		r, g, b = hv(h[0])*17, hv(h[1])*17, hv(h[2])*17
		a = 255
		if len(h) == 4 {
			a = hv(h[3]) * 17
		}
		return r, g, b, a, true
	case 6, 8:
		r, g, b = hv(h[0])*16+hv(h[1]), hv(h[2])*16+hv(h[3]), hv(h[4])*16+hv(h[5])
		a = 255
		if len(h) == 8 {
			a = hv(h[6])*16 + hv(h[7])
		}
		return r, g, b, a, true
	}
	return 0, 0, 0, 0, false
}

// cssColorNames: the keys of cssNamedColors in a fixed order (generators index into it).
var cssColorNames = func() []string {
	var ns []string
	for n := range cssNamedColors {
		ns = append(ns, n)
	}
	sort.Strings(ns)
	return ns
}()
