package checks

// C05 — SVG minification preserves geometry, references and structure.
//
// Monitors: (1) an independent path-data interpreter turns the `d` attribute of input and output into absolute
// segments (explicit control points, flags), which must agree within floating-point tolerance after removing
// zero-length lines and exactly degenerate curves; (2) both documents are tokenised by my XML tokenizer and
// compared under the relation the property states: same element tree and functional attributes, only comments,
// metadata, foreign-namespace elements/attributes and default-valued root attributes may disappear, values
// compared by kind (numbers with px == unitless, number lists, colours as sRGB, text modulo collapsible space).

import (
	"bytes"
	"fmt"
	"io"
	"math"
	"strconv"
	"strings"

	"github.com/tdewolff/minify/v2"
	msvg "github.com/tdewolff/minify/v2/svg"
	"verif/harness/core"
)

// ---------------------------------------------------------------- path interpreter

type pathSeg struct {
	Cmd    byte // M L C Q A Z
	P      []float64
	Smooth bool // written as S/s/T/t: the first control point is implied by the previous segment
}

// lexPathNumber scans one SVG number at s[i:]; returns its value and the next index.
func lexPathNumber(s string, i int) (float64, int, bool) {
	j := i
	if j < len(s) && (s[j] == '+' || s[j] == '-') {
		j++
	}
	digits := 0
	for j < len(s) && s[j] >= '0' && s[j] <= '9' {
		j++
		digits++
	}
	if j < len(s) && s[j] == '.' {
		j++
		for j < len(s) && s[j] >= '0' && s[j] <= '9' {
			j++
			digits++
		}
	}
	if digits == 0 {
		return 0, i, false
	}
	if j < len(s) && (s[j] == 'e' || s[j] == 'E') {
		k := j + 1
		if k < len(s) && (s[k] == '+' || s[k] == '-') {
			k++
		}
		if k < len(s) && s[k] >= '0' && s[k] <= '9' {
			for k < len(s) && s[k] >= '0' && s[k] <= '9' {
				k++
			}
			j = k
		}
	}
	txt := s[i:j]
	if strings.HasSuffix(txt, ".") {
		txt += "0"
	}
	f, err := strconv.ParseFloat(txt, 64)
	if err != nil && !math.IsInf(f, 0) {
		return 0, i, false
	}
	return f, j, true
}

func skipPathSep(s string, i int, comma bool) int {
	for i < len(s) && (s[i] == ' ' || s[i] == '\t' || s[i] == '\n' || s[i] == '\r' || s[i] == '\f') {
		i++
	}
	if comma && i < len(s) && s[i] == ',' {
		i++
		for i < len(s) && (s[i] == ' ' || s[i] == '\t' || s[i] == '\n' || s[i] == '\r' || s[i] == '\f') {
			i++
		}
	}
	return i
}

// interpretPath implements the SVG 1.1 path grammar; ok=false where the data is malformed (the valid prefix
// is returned, as a renderer would draw it).
func interpretPath(d string) (segs []pathSeg, ok bool) {
	var x, y, sx, sy float64   // current point, subpath start
	var lastC, lastQ []float64 // last control point of the previous C/S resp. Q/T segment, nil otherwise
	i := skipPathSep(d, 0, false)
	first := true
	nargs := map[byte]int{'M': 2, 'L': 2, 'H': 1, 'V': 1, 'C': 6, 'S': 4, 'Q': 4, 'T': 2, 'A': 7, 'Z': 0}
	for i < len(d) {
		c := d[i]
		up := c &^ 0x20
		if !(c >= 'A' && c <= 'Z' || c >= 'a' && c <= 'z') {
			return segs, false
		}
		n, known := nargs[up]
		if !known {
			return segs, false
		}
		if first && up != 'M' {
			return segs, false
		}
		rel := c >= 'a'
		i++
		if up == 'Z' {
			segs = append(segs, pathSeg{Cmd: 'Z'})
			x, y = sx, sy
			lastC, lastQ = nil, nil
			i = skipPathSep(d, i, false)
			first = false
			continue
		}
		rep := 0
		for {
			i = skipPathSep(d, i, rep > 0)
			args := make([]float64, 0, n)
			start := i
			for k := 0; k < n; k++ {
				if k > 0 {
					i = skipPathSep(d, i, true)
				}
				if up == 'A' && (k == 3 || k == 4) {
					if i < len(d) && (d[i] == '0' || d[i] == '1') {
						args = append(args, float64(d[i]-'0'))
						i++
						continue
					}
					return segs, false
				}
				f, j, good := lexPathNumber(d, i)
				if !good {
					if k == 0 && rep > 0 {
						i = start
						goto next
					}
					return segs, false
				}
				args = append(args, f)
				i = j
			}
			{
				cmd := up
				if up == 'M' && rep > 0 {
					cmd = 'L'
				}
				ax := func(v float64) float64 {
					if rel {
						return v + x
					}
					return v
				}
				ay := func(v float64) float64 {
					if rel {
						return v + y
					}
					return v
				}
				switch cmd {
				case 'M':
					x, y = ax(args[0]), ay(args[1])
					if first && rel {
						x, y = args[0], args[1]
					}
					sx, sy = x, y
					segs = append(segs, pathSeg{Cmd: 'M', P: []float64{x, y}})
					lastC, lastQ = nil, nil
				case 'L':
					nx, ny := ax(args[0]), ay(args[1])
					segs = append(segs, pathSeg{Cmd: 'L', P: []float64{x, y, nx, ny}})
					x, y = nx, ny
					lastC, lastQ = nil, nil
				case 'H':
					nx := ax(args[0])
					segs = append(segs, pathSeg{Cmd: 'L', P: []float64{x, y, nx, y}})
					x = nx
					lastC, lastQ = nil, nil
				case 'V':
					ny := ay(args[0])
					segs = append(segs, pathSeg{Cmd: 'L', P: []float64{x, y, x, ny}})
					y = ny
					lastC, lastQ = nil, nil
				case 'C', 'S':
					var c1x, c1y float64
					a := args
					if cmd == 'C' {
						c1x, c1y = ax(a[0]), ay(a[1])
						a = a[2:]
					} else if lastC != nil {
						c1x, c1y = 2*x-lastC[0], 2*y-lastC[1]
					} else {
						c1x, c1y = x, y
					}
					c2x, c2y, nx, ny := ax(a[0]), ay(a[1]), ax(a[2]), ay(a[3])
					segs = append(segs, pathSeg{Cmd: 'C', P: []float64{x, y, c1x, c1y, c2x, c2y, nx, ny}, Smooth: cmd == 'S'})
					x, y = nx, ny
					lastC, lastQ = []float64{c2x, c2y}, nil
				case 'Q', 'T':
					var c1x, c1y float64
					a := args
					if cmd == 'Q' {
						c1x, c1y = ax(a[0]), ay(a[1])
						a = a[2:]
					} else if lastQ != nil {
						c1x, c1y = 2*x-lastQ[0], 2*y-lastQ[1]
					} else {
						c1x, c1y = x, y
					}
					nx, ny := ax(a[0]), ay(a[1])
					segs = append(segs, pathSeg{Cmd: 'Q', P: []float64{x, y, c1x, c1y, nx, ny}, Smooth: cmd == 'T'})
					x, y = nx, ny
					lastC, lastQ = nil, []float64{c1x, c1y}
				case 'A':
					nx, ny := ax(args[5]), ay(args[6])
					segs = append(segs, pathSeg{Cmd: 'A', P: []float64{x, y, args[0], args[1], args[2], args[3], args[4], nx, ny}})
					x, y = nx, ny
					lastC, lastQ = nil, nil
				}
			}
			first = false
			rep++
		}
	next:
		if rep == 0 {
			return segs, false
		}
		i = skipPathSep(d, i, false)
	}
	return segs, true
}

// normalizeSegs applies the two simplifications the property allows.
func normalizeSegs(segs []pathSeg, tol float64) []pathSeg {
	var out []pathSeg
	eq := func(a, b, c, d float64) bool { return math.Abs(a-c) <= tol && math.Abs(b-d) <= tol }
	for _, s := range segs {
		switch s.Cmd {
		case 'C':
			p := s.P
			c1 := eq(p[2], p[3], p[0], p[1]) || eq(p[2], p[3], p[6], p[7])
			c2 := eq(p[4], p[5], p[0], p[1]) || eq(p[4], p[5], p[6], p[7])
			if c1 && c2 {
				s = pathSeg{Cmd: 'L', P: []float64{p[0], p[1], p[6], p[7]}}
			}
		case 'Q':
			p := s.P
			if eq(p[2], p[3], p[0], p[1]) || eq(p[2], p[3], p[4], p[5]) {
				s = pathSeg{Cmd: 'L', P: []float64{p[0], p[1], p[4], p[5]}}
			}
		}
		if s.Cmd == 'L' && math.Abs(s.P[0]-s.P[2]) <= tol && math.Abs(s.P[1]-s.P[3]) <= tol {
			continue // zero-length (within the comparison tolerance: rounding may make a tiny line vanish)
		}
		if s.Cmd == 'Z' && len(out) > 0 && out[len(out)-1].Cmd == 'Z' {
			continue // closing a subpath that has just been closed is a zero-length line
		}
		out = append(out, s)
	}
	return out
}

// smoothAfterDegenerate: a curve that the minifier may turn into a line is followed by a smooth command whose
// implied control point depends on it (recorded finding svg-path-smooth-after-degenerate).
func smoothAfterDegenerate(segs []pathSeg) bool {
	for k := 0; k+1 < len(segs); k++ {
		a, b := segs[k], segs[k+1]
		if (a.Cmd == 'C' || a.Cmd == 'Q') && b.Cmd == a.Cmd && b.Smooth {
			if n := normalizeSegs([]pathSeg{a}, 0); len(n) == 0 || n[0].Cmd == 'L' {
				return true
			}
		}
	}
	return false
}

func comparePaths(in, out string) string {
	si, okIn := interpretPath(in)
	if !okIn {
		return "INVALID-INPUT"
	}
	if smoothAfterDegenerate(si) {
		return "GUARDED:svg-path-smooth-after-degenerate"
	}
	so, okOut := interpretPath(out)
	if !okOut {
		return fmt.Sprintf("output path data is malformed: %q", core.Trunc(out, 120))
	}
	scale := 1.0
	for _, s := range si {
		for _, v := range s.P {
			if a := math.Abs(v); a > scale && !math.IsInf(a, 0) {
				scale = a
			}
		}
	}
	tol := 1e-9 * scale
	ni, no := normalizeSegs(si, tol), normalizeSegs(so, tol)
	if len(ni) != len(no) {
		k := 0
		same := func(a, b pathSeg) bool {
			if a.Cmd != b.Cmd || len(a.P) != len(b.P) {
				return false
			}
			for j := range a.P {
				if math.Abs(a.P[j]-b.P[j]) > tol {
					return false
				}
			}
			return true
		}
		for k < len(ni) && k < len(no) && same(ni[k], no[k]) {
			k++
		}
		return fmt.Sprintf("%d segments in the input, %d in the output; first difference at %d: %s | %s", len(ni), len(no), k, segString(ni[k:], 2), segString(no[k:], 2))
	}
	for k := range ni {
		a, b := ni[k], no[k]
		if a.Cmd != b.Cmd {
			return fmt.Sprintf("segment %d is %c in the input and %c in the output", k, a.Cmd, b.Cmd)
		}
		for j := range a.P {
			if a.Cmd == 'A' && (j == 5 || j == 6) {
				if a.P[j] != b.P[j] {
					return fmt.Sprintf("arc flag of segment %d changed", k)
				}
				continue
			}
			d := math.Abs(a.P[j] - b.P[j])
			if !(d <= tol) && !(math.IsInf(a.P[j], 0) && a.P[j] == b.P[j]) {
				return fmt.Sprintf("segment %d (%c) parameter %d: %v in the input, %v in the output", k, a.Cmd, j, a.P[j], b.P[j])
			}
		}
	}
	return ""
}

func segString(s []pathSeg, n int) string {
	var b strings.Builder
	for i, x := range s {
		if i >= n {
			b.WriteString("…")
			break
		}
		fmt.Fprintf(&b, "%c%v ", x.Cmd, x.P)
	}
	return b.String()
}

// ---------------------------------------------------------------- path generator

// pathSmall switches the number generator to a tiny alphabet so that control points coincide with end points,
// bounding-box corners and reflections (the situations the curve-to-line and C-to-S rewrites test for).
type pathNumMode struct{ small bool }

var pathSmallSet = []string{"0", "10", "20", "10", "-10", "0", "20.0", "1e1", "30"}

func genPathNumber(r *core.Rand, nonNeg bool) string {
	if r.Small {
		v := pathSmallSet[r.Intn(len(pathSmallSet))]
		if nonNeg {
			v = strings.TrimPrefix(v, "-")
		}
		return v
	}
	var s string
	switch r.Intn(12) {
	case 0:
		s = "0"
	case 1:
		s = strconv.Itoa(r.Intn(10))
	case 2:
		s = strconv.Itoa(r.Intn(1000))
	case 3:
		s = strconv.Itoa(r.Intn(100)) + "00"
	case 4:
		s = "." + strconv.Itoa(r.Range(1, 999))
	case 5:
		s = "0." + strconv.Itoa(r.Range(0, 99))
	case 6:
		s = strconv.Itoa(r.Intn(100)) + "."
	case 7:
		s = strconv.Itoa(r.Range(1, 99)) + "e" + strconv.Itoa(r.Range(-3, 3))
		if r.Chance(1, 12) {
			s = strconv.Itoa(r.Range(1, 99)) + "e" + r.Pick([]string{"-100", "-200", "-20"}) // exponents whose digits end in 00 (tiny values: huge ones only measure float cancellation)
		}
	case 8:
		s = strconv.Itoa(r.Intn(50)) + "." + strconv.Itoa(r.Intn(1000)) + "E" + r.Pick([]string{"+1", "-1", "0", "2"})
	case 9:
		s = strconv.FormatFloat(r.Float()*200-100, 'f', r.Intn(8), 64)
		s = strings.TrimPrefix(s, "-")
	case 10:
		s = "00" + strconv.Itoa(r.Intn(10)) + ".50"
	default:
		s = strconv.Itoa(r.Intn(300)) + "." + strconv.Itoa(r.Intn(100))
	}
	if !nonNeg {
		switch r.Intn(4) {
		case 0:
			s = "-" + s
		case 1:
			if r.Chance(1, 4) {
				s = "+" + s
			}
		}
	}
	return s
}

// joinArgs writes arguments with as few or as many separators as the grammar allows.
func joinArgs(r *core.Rand, args []string, flagAt map[int]bool) string {
	var b strings.Builder
	for i, a := range args {
		if i > 0 {
			prev := args[i-1]
			need := true
			// a sign or a leading dot after a number that already has a dot/exponent separates by itself
			if a[0] == '-' || a[0] == '+' {
				need = false
			} else if a[0] == '.' && (strings.ContainsAny(prev, ".eE")) && !flagAt[i-1] {
				need = false
			} else if flagAt[i-1] {
				need = false // a flag is a single character
			}
			if strings.HasSuffix(prev, ".") && a[0] >= '0' && a[0] <= '9' {
				need = true
			}
			switch {
			case need || r.Chance(1, 2):
				b.WriteString(r.Pick([]string{" ", ",", " , ", "  ", "\n", ", "}))
			}
		}
		b.WriteString(a)
	}
	return b.String()
}

// genMirrorPath: curve runs in which a control point is the exact reflection of a control point written
// several segments earlier, across a change of curve family (what a stale "last control point" would match).
func genMirrorPath(r *core.Rand) string {
	n := func() int { return r.Range(-20, 20) }
	x0, y0 := n(), n()
	c1x, c1y, e1x, e1y := n(), n(), n(), n()
	var b strings.Builder
	fmt.Fprintf(&b, "M%d %d", x0, y0)
	quadFirst := r.Bool()
	if quadFirst {
		fmt.Fprintf(&b, "Q%d %d %d %d", c1x, c1y, e1x, e1y)
	} else {
		fmt.Fprintf(&b, "C%d %d %d %d %d %d", n(), n(), c1x, c1y, e1x, e1y)
	}
	cx, cy := e1x, e1y
	for k := r.Range(1, 2); k > 0; k-- {
		ex, ey := n(), n()
		if quadFirst {
			fmt.Fprintf(&b, "C%d %d %d %d %d %d", n(), n(), n(), n(), ex, ey)
		} else {
			fmt.Fprintf(&b, "Q%d %d %d %d", n(), n(), ex, ey)
		}
		cx, cy = ex, ey
	}
	// reflection of the OLD control point about the current point
	mx, my := 2*cx-c1x, 2*cy-c1y
	if r.Chance(1, 3) {
		mx, my = 2*e1x-c1x, 2*e1y-c1y // ... or about the point where that curve ended
	}
	if quadFirst {
		fmt.Fprintf(&b, "Q%d %d %d %d", mx, my, n(), n())
	} else {
		fmt.Fprintf(&b, "C%d %d %d %d %d %d", mx, my, n(), n(), n(), n())
	}
	if r.Bool() {
		fmt.Fprintf(&b, "L%d %d", n(), n())
	}
	return b.String()
}

func genPathData(r *core.Rand) string {
	if r.Chance(1, 10) {
		return genMirrorPath(r)
	}
	r.Small = r.Chance(1, 3)
	defer func() { r.Small = false }()
	var b strings.Builder
	n := r.Range(1, 12)
	sep := func() string { return r.Pick([]string{"", "", " ", "\n"}) }
	mv := r.Pick([]string{"M", "M", "m"})
	b.WriteString(mv + sep() + joinArgs(r, []string{genPathNumber(r, false), genPathNumber(r, false)}, nil))
	if r.Chance(1, 5) { // implicit lineto after moveto
		b.WriteString(" " + joinArgs(r, []string{genPathNumber(r, false), genPathNumber(r, false), genPathNumber(r, false), genPathNumber(r, false)}, nil))
	}
	cmds := "LlHhVvCcSsQqTtAaZzMm"
	prev := byte(0)
	for i := 0; i < n; i++ {
		c := cmds[r.Intn(len(cmds))]
		if r.Chance(1, 3) && prev != 0 && prev != 'Z' && prev != 'z' {
			c = prev // explicit repetition of the same command letter
		}
		up := c &^ 0x20
		cnt := map[byte]int{'M': 2, 'L': 2, 'H': 1, 'V': 1, 'C': 6, 'S': 4, 'Q': 4, 'T': 2, 'A': 7, 'Z': 0}[up]
		reps := 1
		if cnt > 0 && r.Chance(1, 4) {
			reps = r.Range(2, 3)
		}
		var args []string
		flagAt := map[int]bool{}
		for k := 0; k < reps; k++ {
			for a := 0; a < cnt; a++ {
				switch {
				case up == 'A' && (a == 3 || a == 4):
					flagAt[len(args)] = true
					args = append(args, r.Pick([]string{"0", "1"}))
				case up == 'A' && a < 2:
					v := genPathNumber(r, true)
					if f, _ := strconv.ParseFloat(strings.TrimSuffix(v, "."), 64); f == 0 {
						v = "5"
					}
					args = append(args, v)
				default:
					v := genPathNumber(r, false)
					if r.Chance(1, 12) {
						v = "0" // zero-length and degenerate cases
					}
					args = append(args, v)
				}
			}
		}
		b.WriteString(sep())
		b.WriteByte(c)
		if cnt > 0 {
			b.WriteString(sep() + joinArgs(r, args, flagAt))
		}
		prev = c
	}
	return b.String()
}

// ---------------------------------------------------------------- structure relation

type svgOpts struct {
	inline        bool
	otherStyleLng bool // the root declares a default style language other than CSS: type="text/css" on a style element says something
}

var svgRootDefaults = map[string]string{"version": "1.1", "x": "0", "y": "0", "preserveAspectRatio": "xMidYMid meet", "baseProfile": "none", "contentScriptType": "application/ecmascript", "contentStyleType": "text/css"}

var svgColorAttrs = map[string]bool{"fill": true, "stroke": true, "stop-color": true, "flood-color": true, "lighting-color": true, "color": true}

func svgKeepAttr(root bool, el string, a xAttr, val string, o svgOpts) bool {
	if i := strings.IndexByte(a.Name, ':'); i >= 0 {
		p := a.Name[:i]
		return p == "xml" || p == "xlink" || a.Name == "xmlns:xlink"
	}
	if root {
		if d, ok := svgRootDefaults[a.Name]; ok && numEqualOrSame(val, d) {
			return false
		}
		if a.Name == "preserveAspectRatio" && collapseWS(val) == "xMidYMid" {
			return false // meet is the default of the second component
		}
		if o.inline && a.Name == "xmlns" {
			return false
		}
	}
	if el == "style" && a.Name == "type" && val == "text/css" && !o.otherStyleLng {
		return false
	}
	return true
}

func numEqualOrSame(a, b string) bool {
	if a == b {
		return true
	}
	x, u, ok1 := splitDimension(a)
	y, v, ok2 := splitDimension(b)
	return ok1 && ok2 && x == y && u == v
}

// splitDimension parses number+unit; px and no unit are the same in SVG user space.
func splitDimension(s string) (float64, string, bool) {
	f, j, ok := lexPathNumber(s, 0)
	if !ok {
		return 0, "", false
	}
	unit := strings.ToLower(s[j:])
	if unit == "px" || f == 0 {
		unit = "" // zero is zero in every unit
	}
	for _, c := range unit {
		if !(c >= 'a' && c <= 'z' || c == '%') {
			return 0, "", false
		}
	}
	return f, unit, true
}

func numberList(s string) ([]float64, bool) {
	var out []float64
	i := skipPathSep(s, 0, false)
	for i < len(s) {
		f, j, ok := lexPathNumber(s, i)
		if !ok {
			return nil, false
		}
		out = append(out, f)
		i = skipPathSep(s, j, true)
	}
	return out, true
}

func svgColor(v string) (string, bool) {
	l := strings.ToLower(strings.TrimSpace(v))
	if hex, ok := cssNamedColors[l]; ok {
		l = "#" + strings.ToLower(strings.TrimPrefix(hex, "#"))
	}
	if strings.HasPrefix(l, "#") {
		h := l[1:]
		for _, c := range h {
			if !(c >= '0' && c <= '9' || c >= 'a' && c <= 'f') {
				return "", false
			}
		}
		if len(h) == 3 || len(h) == 4 {
			var e []byte
			for i := 0; i < len(h); i++ {
				e = append(e, h[i], h[i])
			}
			h = string(e)
		}
		if len(h) == 8 && h[6:] == "ff" {
			h = h[:6] // fully opaque
		}
		if len(h) == 6 || len(h) == 8 {
			return "#" + h, true
		}
	}
	return "", false
}

func svgAttrEqual(el, name, a, b string) bool {
	if a == b {
		return true
	}
	switch {
	case name == "d" && el == "path":
		v := comparePaths(a, b)
		return v == "" || strings.HasPrefix(v, "GUARDED") || v == "INVALID-INPUT"
	case name == "contentStyleType" || name == "contentScriptType" || name == "type":
		return normMediatype(a) == normMediatype(b)
	case name == "viewBox" || name == "points":
		x, ok1 := numberList(a)
		if !ok1 {
			return true // not a number list: outside the property's domain (all well-formed values)
		}
		y, ok2 := numberList(b)
		if !ok2 || len(x) != len(y) {
			return false
		}
		for i := range x {
			if math.Abs(x[i]-y[i]) > 1e-12*math.Max(1, math.Abs(x[i])) {
				return false
			}
		}
		return true
	case svgColorAttrs[name]:
		x, ok1 := svgColor(a)
		y, ok2 := svgColor(b)
		return ok1 && ok2 && x == y
	}
	if numEqualOrSame(a, b) {
		return true
	}
	return collapseWS(strings.TrimSpace(a)) == b // attribute values are whitespace-normalised
}

type svgNode struct {
	name  string
	attrs []xAttr
	vals  map[string]string
	text  string // character data directly inside, concatenated
	kids  []*svgNode
}

// svgTree builds the element tree the property talks about: comments, PIs, doctype dropped; optionally the
// removable parts (metadata, foreign-namespace elements) dropped as well.
func svgTree(doc string, dropRemovable bool) (*svgNode, error) {
	evs, err := xmlTokenize(doc)
	if err != nil {
		return nil, err
	}
	root := &svgNode{name: "#root"}
	stack := []*svgNode{root}
	skip := 0
	for _, e := range evs {
		switch e.Kind {
		case 'S':
			name := e.Name
			removable := name == "metadata" || (strings.Contains(name, ":") && !strings.HasPrefix(name, "svg:"))
			if skip > 0 || (dropRemovable && removable) {
				skip++ // the tokenizer reports an end event for <a/> as well
				continue
			}
			name = strings.TrimPrefix(name, "svg:")
			n := &svgNode{name: name, attrs: e.Attrs, vals: map[string]string{}}
			for _, a := range e.Attrs {
				v, err := xmlExpand(a.Raw, nil, true)
				if err != nil {
					v = a.Raw
				}
				n.vals[a.Name] = v
			}
			top := stack[len(stack)-1]
			top.kids = append(top.kids, n)
			stack = append(stack, n)
		case 'E':
			if skip > 0 {
				skip--
				continue
			}
			if len(stack) > 1 {
				stack = stack[:len(stack)-1]
			}
		case 'T', 'C':
			if skip > 0 {
				continue
			}
			t := e.Data
			if e.Kind == 'T' {
				x, err := xmlExpand(e.Data, nil, false)
				if err != nil {
					return nil, fmt.Errorf("character data %q: %v", core.Trunc(e.Data, 60), err)
				}
				t = x
			}
			stack[len(stack)-1].text += t
		}
	}
	return root, nil
}

func svgCompare(in, out *svgNode, path string, o svgOpts, depth int) string {
	if in.name != out.name {
		return fmt.Sprintf("%s: element <%s> became <%s>", path, in.name, out.name)
	}
	here := path + "/" + in.name
	root := depth == 1 && in.name == "svg"
	if root {
		if v, ok := in.vals["contentStyleType"]; ok && !strings.EqualFold(strings.TrimSpace(v), "text/css") {
			o.otherStyleLng = true
		}
	}
	// attributes
	seen := map[string]bool{}
	for _, a := range in.attrs {
		v := in.vals[a.Name]
		keep := svgKeepAttr(root, in.name, a, strings.TrimSpace(v), o)
		ov, has := out.vals[a.Name]
		seen[a.Name] = true
		if !keep {
			continue // may disappear (or stay)
		}
		if !has {
			if a.Name == "xml:space" && strings.TrimSpace(v) == "preserve" {
				return "XMLSPACE: " + here + ": xml:space=\"preserve\" was removed"
			}
			return fmt.Sprintf("%s: attribute %s=%q disappeared", here, a.Name, core.Trunc(v, 60))
		}
		if a.Name == "style" {
			continue // style values are C04's subject
		}
		if !svgAttrEqual(in.name, a.Name, v, ov) {
			if a.Name == "d" && in.name == "path" {
				return fmt.Sprintf("%s: path data changed: %s | %q -> %q", here, comparePaths(v, ov), core.Trunc(v, 160), core.Trunc(ov, 160))
			}
			return fmt.Sprintf("%s: attribute %s changed its value: %q -> %q", here, a.Name, core.Trunc(v, 80), core.Trunc(ov, 80))
		}
	}
	for _, a := range out.attrs {
		if !seen[a.Name] {
			return fmt.Sprintf("%s: attribute %s=%q appeared", here, a.Name, core.Trunc(out.vals[a.Name], 60))
		}
	}
	// character data (what a registered style minifier does to it is C11's subject; none is registered here,
	// so style sheets pass through like any text)
	{
		if collapseWS(strings.TrimSpace(in.text)) != collapseWS(strings.TrimSpace(out.text)) {
			return fmt.Sprintf("%s: text changed: %q -> %q", here, core.Trunc(in.text, 80), core.Trunc(out.text, 80))
		}
	}
	if len(in.kids) != len(out.kids) {
		// a childless <defs> that disappears is the recorded finding svg-empty-defs-removed
		var kept []*svgNode
		for _, k := range in.kids {
			if !(k.name == "defs" && len(k.kids) == 0 && strings.TrimSpace(k.text) == "") {
				kept = append(kept, k)
			}
		}
		if len(kept) == len(out.kids) {
			same := true
			for i := range kept {
				if kept[i].name != out.kids[i].name {
					same = false
				}
			}
			if same {
				return "EMPTYDEFS: " + here + ": an empty <defs> element was removed"
			}
		}
		var a, b []string
		for _, k := range in.kids {
			a = append(a, k.name)
		}
		for _, k := range out.kids {
			b = append(b, k.name)
		}
		return fmt.Sprintf("%s: children %v became %v", here, a, b)
	}
	for i := range in.kids {
		if s := svgCompare(in.kids[i], out.kids[i], here, o, depth+1); s != "" {
			return s
		}
	}
	return ""
}

// ---------------------------------------------------------------- document generator

func genSVGDoc(r *core.Rand) string {
	var b strings.Builder
	b.WriteString(r.Pick([]string{"", "<?xml version=\"1.0\" encoding=\"UTF-8\"?>\n", "<!-- Generator: editor -->\n"}))
	b.WriteString("<svg xmlns=\"http://www.w3.org/2000/svg\"")
	if r.Chance(2, 3) {
		b.WriteString(" xmlns:xlink=\"http://www.w3.org/1999/xlink\"")
	}
	svgPrefix := r.Chance(1, 4)
	if svgPrefix {
		b.WriteString(" xmlns:svg=\"http://www.w3.org/2000/svg\"")
	}
	foreign := r.Chance(1, 2)
	if foreign {
		b.WriteString(" xmlns:ink=\"http://ink.example/ns\" xmlns:rdf=\"http://www.w3.org/1999/02/22-rdf-syntax-ns#\"")
	}
	for _, a := range []string{" version=\"1.1\"", " x=\"0\"", " y=\"0px\"", " x=\"5\"", " preserveAspectRatio=\"xMidYMid meet\"", " preserveAspectRatio=\"none\"", " preserveAspectRatio=\"xMidYMid slice\"", " preserveAspectRatio=\"xMinYMin meet\"", " preserveAspectRatio=\"xMidYMid\"", " baseProfile=\"none\"", " viewBox=\"0 0 100.0 050\"", " viewBox=\"0,0,1e2,50\"", " width=\"100px\"", " height=\"50.0mm\"", " width=\"100%\"", " xml:lang=\"en\"", " id=\"root\""} {
		if r.Chance(1, 4) {
			name := a[1:strings.IndexByte(a, '=')]
			if !strings.Contains(b.String(), " "+name+"=") {
				b.WriteString(a)
			}
		}
	}
	if foreign && r.Chance(1, 2) {
		b.WriteString(" ink:version=\"1.0\"")
	}
	b.WriteString(">")
	ws := func() { b.WriteString(r.Pick([]string{"", "", "\n", "  ", "\n  "})) }
	ids := 0
	var elem func(depth int)
	shapeAttrs := func() {
		for _, a := range []string{"fill", "stroke", "stroke-width", "opacity", "transform", "class", "id", "xml:space", "ink:label", "fill-rule"} {
			if !r.Chance(1, 5) {
				continue
			}
			switch a {
			case "fill", "stroke":
				if r.Chance(1, 4) {
					// every colour keyword, and the hex value of every keyword
					name := cssColorNames[r.Intn(len(cssColorNames))]
					v := name
					if r.Bool() {
						v = "#" + cssNamedColors[name]
					}
					fmt.Fprintf(&b, " %s=\"%s\"", a, v)
					continue
				}
				fmt.Fprintf(&b, " %s=\"%s\"", a, r.Pick([]string{"red", "#ff0000", "#FF0000", "#f00", "none", "url(#g1)", "currentColor", "#abcdef", "gold", "#ffd700", "black", "#000000", "rgb(1,2,3)", "lightslateblue", "#ff00007f", "#ffffff0f", "#f008", "#ff0000ff", "#abcdef5f", "#0000", "#FFD700EF", "#fffaf0", "#FFFAFA"}))
			case "stroke-width":
				fmt.Fprintf(&b, " stroke-width=\"%s%s\"", genPathNumber(r, true), r.Pick([]string{"", "px", "PX", "em", "%", "mm", "pt", "pc", "in", "cm", "ex", "PT"}))
			case "opacity":
				fmt.Fprintf(&b, " opacity=\"%s\"", r.Pick([]string{"0.50", ".5", "1", "1.0", "0"}))
			case "transform":
				fmt.Fprintf(&b, " transform=\"%s\"", r.Pick([]string{"translate(10 20)", "rotate(45)", "matrix(1 0 0 1 0 0)", "scale(2.0,2.0)  translate( 1 , 2 )"}))
			case "class":
				b.WriteString(" class=\"a  b\"")
			case "id":
				ids++
				fmt.Fprintf(&b, " id=\"s%d\"", ids)
			case "xml:space":
				if r.Chance(1, 3) {
					b.WriteString(" xml:space=\"default\"")
				} else if r.Chance(1, 6) {
					b.WriteString(" xml:space=\"preserve\"")
				}
			case "ink:label":
				if foreign {
					b.WriteString(" ink:label=\"layer 1\"")
				}
			case "fill-rule":
				b.WriteString(" fill-rule=\"evenodd\"")
			}
		}
	}
	elem = func(depth int) {
		ws()
		switch k := r.Intn(15); {
		case k == 0 && depth < 3:
			name := "g"
			if svgPrefix && r.Chance(1, 2) {
				name = "svg:g" // the same element through the declared svg: prefix
			}
			b.WriteString("<" + name)
			shapeAttrs()
			b.WriteString(">")
			for i := r.Range(1, 3); i > 0; i-- {
				elem(depth + 1)
			}
			ws()
			b.WriteString("</" + name + r.Pick([]string{"", " "}) + ">")
		case k == 1:
			b.WriteString("<path")
			shapeAttrs()
			fmt.Fprintf(&b, " d=\"%s\"", genPathData(r))
			b.WriteString(r.Pick([]string{"/>", "></path>", " />"}))
		case k == 2:
			fmt.Fprintf(&b, "<rect x=\"%s\" y=\"%s\" width=\"%s%s\" height=\"%s\"", genPathNumber(r, false), genPathNumber(r, false), genPathNumber(r, true), r.Pick([]string{"", "px", "%", "pt", "pc", "em", "in"}), genPathNumber(r, true)+r.Pick([]string{"", "", "pt", "mm", "pc"}))
			shapeAttrs()
			b.WriteString("/>")
		case k == 3:
			fmt.Fprintf(&b, "<circle cx=\"%s\" cy=\"%s\" r=\"%s\"", genPathNumber(r, false), genPathNumber(r, false), genPathNumber(r, true))
			shapeAttrs()
			b.WriteString("></circle>")
		case k == 4:
			fmt.Fprintf(&b, "<polygon points=\"%s\"/>", joinArgs(r, []string{genPathNumber(r, false), genPathNumber(r, false), genPathNumber(r, false), genPathNumber(r, false), genPathNumber(r, false), genPathNumber(r, false)}, nil))
		case k == 5:
			b.WriteString("<use xlink:href=\"#s1\"")
			if r.Chance(1, 2) {
				fmt.Fprintf(&b, " x=\"%s\"", genPathNumber(r, false))
			}
			b.WriteString("/>")
		case k == 6:
			b.WriteString("<text x=\"1\" y=\"2\"")
			if r.Chance(1, 6) {
				b.WriteString(" xml:lang=\"nl\"")
			}
			b.WriteString(">" + r.Pick([]string{"hello  world", " a &amp; b ", "x &lt; y", "é text", "<tspan dy=\"1.0em\">t</tspan> tail", ""}) + "</text>")
		case k == 7:
			b.WriteString("<!-- " + r.Pick([]string{"comment", "a -> b", ""}) + " -->")
		case k == 8:
			b.WriteString(r.Pick([]string{
				"<metadata><rdf:RDF xmlns:rdf=\"http://www.w3.org/1999/02/22-rdf-syntax-ns#\"><rdf:li>x</rdf:li></rdf:RDF></metadata>",
				// self-closing descendants inside a skipped element, as editors write them
				"<metadata><rdf:RDF xmlns:rdf=\"http://www.w3.org/1999/02/22-rdf-syntax-ns#\"><rdf:Work rdf:about=\"\"><rdf:format>image/svg+xml</rdf:format><rdf:type rdf:resource=\"http://purl.org/dc/dcmitype/StillImage\"/></rdf:Work></rdf:RDF></metadata>",
				"<metadata><a/><b><c/></b><d/>text</metadata>",
				"<metadata/>",
			}))
		case k == 9 && foreign:
			b.WriteString(r.Pick([]string{"<ink:namedview id=\"nv\" ink:zoom=\"1.0\"/>", "<ink:guide><ink:p>1</ink:p></ink:guide>", "<ink:namedview id=\"nv\"><ink:grid type=\"xygrid\"/><ink:guide ink:p=\"1\"/></ink:namedview>", "<ink:a><ink:b/><ink:c><ink:d/></ink:c></ink:a>"}))
		case k == 10:
			b.WriteString("<defs><linearGradient id=\"g1\" x1=\"0%\" x2=\"100.0%\"><stop offset=\"0\" stop-color=\"#FFFFFF\"/><stop offset=\"1.0\" stop-color=\"black\" stop-opacity=\".50\"/></linearGradient></defs>")
		case k == 13:
			b.WriteString("<style>" + r.Pick([]string{"a:after{content:\"&#38;\"}", "b[title=\"&#60;x\"]{fill:red}", "rect{fill:#F00}", ".c > .d { stroke : blue }", "t:after{content:\"&amp;&lt;\"}", "<![CDATA[ a > b { fill : red } ]]>"}) + "</style>")
		case k == 11:
			b.WriteString("<a xlink:href=\"http://example.com/?a=1&amp;b=2\" xlink:title=\"t\"><rect width=\"1\" height=\"1\"/></a>")
		case k == 14:
			// foreign content is copied through as it is; the element may carry the declared svg: prefix
			name := "foreignObject"
			if svgPrefix && r.Chance(1, 2) {
				name = "svg:foreignObject"
			}
			fmt.Fprintf(&b, "<%s x=\"%s\" width=\"100\" height=\"50.0\">", name, genPathNumber(r, false))
			b.WriteString(r.Pick([]string{"<div xmlns=\"http://www.w3.org/1999/xhtml\"><p>text  here</p></div>", "<body xmlns=\"http://www.w3.org/1999/xhtml\"><p class=\"a  b\">x &amp; y</p></body>", "plain  text", ""}))
			b.WriteString("</" + name + ">")
			if r.Chance(1, 2) {
				b.WriteString("<rect width=\"1.0\" height=\"1\"/>")
			}
		case k == 12:
			b.WriteString("<image xlink:href=\"data:image/png;base64,iVBORw0KGgo=\" width=\"10\" height=\"10\"/>")
		default:
			b.WriteString("<line x1=\"0\" y1=\"0.0\" x2=\"10.50\" y2=\"1e1\" stroke=\"#000\"/>")
		}
	}
	for i := r.Range(1, 6); i > 0; i-- {
		elem(1)
	}
	ws()
	b.WriteString("</svg>")
	return b.String()
}

func c05Minify(doc string, inline bool) (string, error, string) {
	var out strings.Builder
	var err error
	pan := ""
	func() {
		defer func() {
			if r := recover(); r != nil {
				pan = fmt.Sprint(r)
			}
		}()
		var params map[string]string
		if inline {
			params = map[string]string{"inline": "1"}
		}
		// the style minifier is an identity stub (style content passes through byte for byte) that watches how it is
		// called: a style sheet (content with braces) is never handed over in inline mode - whatever mode the
		// SVG document itself was embedded in
		m := minify.New()
		m.AddFunc("text/css", func(_ *minify.M, w io.Writer, r io.Reader, p map[string]string) error {
			b, _ := io.ReadAll(r)
			sheet := bytes.ContainsAny(b, "{}")
			if sheet && p["inline"] == "1" {
				pan = "STYLEPARAMS: a style element's content was given to the style minifier with inline=1: " + core.Trunc(string(b), 60)
			}
			_, err := w.Write(b)
			return err
		})
		sm := &msvg.Minifier{}
		// history: the same minifier object has just handled a document in the other mode (as happens when a
		// registry serves both HTML with inline SVG and stand-alone SVG files)
		var warm strings.Builder
		other := map[string]string{"inline": "1"}
		if inline {
			other = nil
		}
		sm.Minify(m, &warm, strings.NewReader("<svg xmlns=\"http://www.w3.org/2000/svg\" x=\"0\"><g/></svg>"), other)
		err = sm.Minify(m, &out, strings.NewReader(doc), params)
	}()
	return out.String(), err, pan
}

func c05Judge(doc string, inline bool) (string, string) {
	out, err, pan := c05Minify(doc, inline)
	if pan != "" {
		return "minifier panicked: " + pan, out
	}
	if err != nil {
		return "REJECTED:" + err.Error(), out
	}
	ti, e1 := svgTree(doc, true)
	if e1 != nil {
		return "INVALID-INPUT", out
	}
	// removable parts that the minifier left in place (it copies the rest of a document through after some
	// constructs) are as harmless in the output as in the input: dropped from both sides
	to, e2 := svgTree(out, true)
	if e2 != nil {
		return "output is not well-formed: " + e2.Error(), out
	}
	return svgCompare(ti, to, "", svgOpts{inline: inline}, 0), out
}

func C05(run *core.Run) {
	run.ReplayWitnesses(func(f core.Finding, w core.Witness) (bool, string) {
		v, _ := c05Judge(w.Input, w.Extra["inline"] == "true")
		bad := v != "" && v != "INVALID-INPUT" && !strings.HasPrefix(v, "REJECTED") && !strings.HasPrefix(v, "XMLSPACE") && !strings.HasPrefix(v, "EMPTYDEFS")
		return bad, v
	})
	report := func(cfg, doc, out, v string) {
		if strings.HasPrefix(v, "XMLSPACE:") && run.KnownSignature("svg-xml-space-preserve-removed") {
			return
		}
		if strings.HasPrefix(v, "EMPTYDEFS:") && run.KnownSignature("svg-empty-defs-removed") {
			return
		}
		key := core.Key(cfg, []byte(doc))
		if run.IsKnown(core.Key("*", []byte(doc))) {
			key = core.Key("*", []byte(doc))
		}
		run.Violation(key, fmt.Sprintf("%s: %s | in=%s | out=%s", cfg, v, core.Trunc(doc, 400), core.Trunc(out, 400)), map[string]interface{}{"config": cfg, "input": doc, "output": out})
	}
	// 1. path data alone, through the public API (a one-path document)
	nPath := run.N(20000, 600000)
	core.ParallelFor(nPath, 0, func(i int) {
		r := run.CaseRand("c05path", i, nPath/2)
		d := genPathData(r)
		doc := "<svg xmlns=\"http://www.w3.org/2000/svg\"><path d=\"" + d + "\"/></svg>"
		if segs, ok := interpretPath(d); ok && smoothAfterDegenerate(segs) {
			run.Count("guarded_out:svg-path-smooth-after-degenerate")
			return
		}
		run.Eval()
		v, out := c05Judge(doc, false)
		switch {
		case v == "":
			if out != doc {
				run.NonTrivial([]byte("path"), []byte(d))
			}
			run.Count("paths_compared")
		case v == "INVALID-INPUT":
			run.Count("generated_path_invalid")
		case strings.HasPrefix(v, "REJECTED"):
			run.Count("rejected")
		default:
			report("svg path", doc, out, v)
		}
	})
	// frozen path inputs of the test tables
	for _, d := range frozenCorpus("path") {
		doc := "<svg xmlns=\"http://www.w3.org/2000/svg\"><path d=\"" + d + "\"/></svg>"
		run.Eval()
		v, out := c05Judge(doc, false)
		if v != "" && v != "INVALID-INPUT" && !strings.HasPrefix(v, "REJECTED") {
			report("svg path corpus", doc, out, v)
		} else if v == "" {
			run.Count("corpus_paths_compared")
		}
	}
	// 2. documents
	nDoc := run.N(6000, 150000)
	core.ParallelFor(nDoc, 0, func(i int) {
		r := run.CaseRand("c05doc", i, nDoc/2)
		doc := genSVGDoc(r)
		inline := i%3 == 0
		cfg := fmt.Sprintf("svg inline=%v", inline)
		run.Eval()
		v, out := c05Judge(doc, inline)
		switch {
		case v == "":
			run.NonTrivial([]byte(cfg), []byte(doc))
			run.Count("documents_compared")
		case v == "INVALID-INPUT":
			run.Inconclusive()
			run.Count("generated_document_invalid")
		case strings.HasPrefix(v, "REJECTED"):
			run.Count("rejected")
		default:
			report(cfg, doc, out, v)
		}
	})
	// every colour keyword and the hex value of every keyword, in every colour attribute (fixed sweep)
	for _, name := range cssColorNames {
		hex := "#" + cssNamedColors[name]
		doc := fmt.Sprintf(`<svg xmlns="http://www.w3.org/2000/svg"><rect fill="%s" stroke="%s" width="5"/><g stop-color="%s" flood-color="%s" lighting-color="%s" color="%s"><path d="M0 0L1 1" fill="%s" stroke="%s"/></g></svg>`,
			name, hex, name, hex, strings.ToUpper(name), strings.ToUpper(hex), hex, name)
		run.Eval()
		v, out := c05Judge(doc, false)
		if v != "" && v != "INVALID-INPUT" && !strings.HasPrefix(v, "REJECTED") {
			report("svg colour sweep", doc, out, v)
		} else if v == "" {
			run.Count("colour_sweep_documents_compared")
		}
	}
	// namespace declarations away from the root: each element's own declaration is the only one in scope for it
	for _, doc := range []string{
		`<svg xmlns="http://www.w3.org/2000/svg"><defs><path id="p" d="M0 0L1 1"/></defs><use xmlns:xlink="http://www.w3.org/1999/xlink" xlink:href="#p"/><use xmlns:xlink="http://www.w3.org/1999/xlink" xlink:href="#p" x="5"/></svg>`,
		`<svg xmlns="http://www.w3.org/2000/svg"><g><image xmlns:xlink="http://www.w3.org/1999/xlink" xlink:href="a.png" width="5"/></g><g><image xmlns:xlink="http://www.w3.org/1999/xlink" xlink:href="b.png" width="5"/><a xmlns:xlink="http://www.w3.org/1999/xlink" xlink:href="c.html"><text>t</text></a></g></svg>`,
		`<svg xmlns="http://www.w3.org/2000/svg"><g xmlns:xlink="http://www.w3.org/1999/xlink"><use xlink:href="#a"/></g><g xmlns:xlink="http://www.w3.org/1999/xlink"><use xlink:href="#b"/></g></svg>`,
		// a style element that says it is CSS in a document whose default style language is something else
		`<svg xmlns="http://www.w3.org/2000/svg" contentStyleType="text/x-foo"><style type="text/css">rect{fill:red}</style><style>whatever</style><rect width="1"/></svg>`,
		// empty containers that are referenced: only an empty defs can go
		`<svg xmlns="http://www.w3.org/2000/svg"><defs/><mask id="m"/><pattern id="p"/><symbol id="s"/><marker id="k"/><clipPath id="c"/><rect width="9" height="9" mask="url(#m)" fill="url(#p) red" clip-path="url(#c)"/><use href="#s"/><path d="M0 0L9 9" marker-end="url(#k)"/></svg>`,
		`<svg xmlns="http://www.w3.org/2000/svg"><g id="g"/><linearGradient id="l"/><filter id="f"/><symbol viewBox="0 0 1 1"/><rect width="9" height="9" filter="url(#f)" fill="url(#l)"/><use href="#g"/></svg>`,
	} {
		run.Eval()
		v, out := c05Judge(doc, false)
		if v != "" && v != "INVALID-INPUT" && !strings.HasPrefix(v, "REJECTED") {
			report("svg namespace declarations", doc, out, v)
		} else if v == "" {
			run.Count("namespace_documents_compared")
		}
	}
	for _, doc := range frozenCorpus("svg") {
		run.Eval()
		v, out := c05Judge(doc, false)
		if v != "" && v != "INVALID-INPUT" && !strings.HasPrefix(v, "REJECTED") {
			report("svg corpus", doc, out, v)
		} else if v == "" {
			run.Count("corpus_documents_compared")
		}
	}
	run.Finish("path: absolute segment lists (explicit control points, radii, rotation, flags, closepaths) of input and output `d` agree within 1e-9 of the largest coordinate after dropping zero-length lines and turning exactly degenerate curves into lines; document: same element tree, attributes and text under the relation of the statement (only comments, metadata, foreign-namespace elements/attributes and default root attributes may go; px == unitless; numbers, number lists and colours by value)",
		[]string{"my path interpreter follows the SVG 1.1 path grammar (implicit repetition, implicit lineto, compact flags, S/T reflection)", "my XML tokenizer reads both documents", "style values are left to C04 and embedded style sheets to C11 (no CSS minifier is registered here)"}, 1000, false)
}
