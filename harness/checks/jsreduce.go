package checks

// `vcheck jsreduce <replay.json>`: delta-debug a failing (program, config) down to a small witness.

import (
	"encoding/json"
	"fmt"
	"os"
	"strings"
	"verif/harness/core"
)

func jsStillFails(src string, c jsConfig, class string) bool {
	v := jsJudge(src, c)
	if v.Verdict == "" || v.Verdict == "REJECTED" || strings.HasPrefix(v.Verdict, "INCONCLUSIVE") {
		return false
	}
	return verdictClass(v.Verdict) == class
}

func verdictClass(v string) string {
	switch {
	case strings.HasPrefix(v, "output does not compile"):
		return "compile"
	case strings.HasPrefix(v, "host call"):
		return "log"
	case strings.HasPrefix(v, "completion"):
		return "completion"
	case strings.HasPrefix(v, "final"):
		return "globals"
	}
	return "other"
}

func ddmin(parts []string, join func([]string) string, test func(string) bool) []string {
	n := 2
	for len(parts) >= 2 {
		chunk := (len(parts) + n - 1) / n
		reduced := false
		for i := 0; i < len(parts); i += chunk {
			end := i + chunk
			if end > len(parts) {
				end = len(parts)
			}
			cand := append(append([]string{}, parts[:i]...), parts[end:]...)
			if len(cand) > 0 && test(join(cand)) {
				parts = cand
				if n > 2 {
					n--
				}
				reduced = true
				break
			}
		}
		if !reduced {
			if n >= len(parts) {
				break
			}
			n *= 2
			if n > len(parts) {
				n = len(parts)
			}
		}
	}
	return parts
}

func jsReduce(src string, c jsConfig) string {
	v := jsJudge(src, c)
	class := verdictClass(v.Verdict)
	test := func(s string) bool { return jsStillFails(s, c, class) }
	// 1. statement-ish chunks: split after ';' and '}'
	split := func(s string, seps string) []string {
		var parts []string
		last := 0
		for i := 0; i < len(s); i++ {
			if strings.IndexByte(seps, s[i]) >= 0 {
				parts = append(parts, s[last:i+1])
				last = i + 1
			}
		}
		if last < len(s) {
			parts = append(parts, s[last:])
		}
		return parts
	}
	join := func(p []string) string { return strings.Join(p, "") }
	cur := src
	for round := 0; round < 3; round++ {
		before := len(cur)
		cur = join(ddmin(split(cur, "\n"), join, test))
		cur = join(ddmin(split(cur, ";}"), join, test))
		cur = join(ddmin(split(cur, ";},)(]"), join, test))
		if len(cur) < 400 {
			chars := strings.Split(cur, "")
			cur = join(ddmin(chars, join, test))
		}
		if len(cur) == before {
			break
		}
	}
	return cur
}

func init() {
	Children["jsreduce"] = func(args []string) {
		defer nodePool().Close()
		for _, f := range args {
			b, err := os.ReadFile(f)
			if err != nil {
				fmt.Println(err)
				continue
			}
			var rp struct {
				Witness struct{ Config, Input string }
			}
			json.Unmarshal(b, &rp)
			var c jsConfig
			fmt.Sscanf(rp.Witness.Config, "js keepvarnames=%t version=%d precision=%d inline=%t", &c.KeepVarNames, &c.Version, &c.Precision, &c.Inline)
			red := jsReduce(rp.Witness.Input, c)
			v := jsJudge(red, c)
			fmt.Printf("== %s\n   config: %s\n   reduced: %s\n   output : %s\n   verdict: %s\n", f, c, red, v.Out, v.Verdict)
		}
	}
}

func init() {
	Children["jsgen-stats"] = func(args []string) {
		defer nodePool().Close()
		reasons := map[string]int{}
		examples := map[string]string{}
		for i := 0; i < 600; i++ {
			r := coreStream(i)
			src, _ := genJSProgram(r)
			sv, _ := jsSyntax(src, "script", 0, true)
			if !sv.Acorn {
				k := sv.Msg
				if j := strings.Index(k, "("); j > 0 {
					k = k[:j]
				}
				reasons[k]++
				if _, ok := examples[k]; !ok {
					examples[k] = sv.Msg + " :: " + src
				}
			}
		}
		for k, n := range reasons {
			fmt.Println(n, k, "\n    ", examples[k][:min(len(examples[k]), 900)])
		}
	}
}

func init() {
	Children["jsgen-watchdog"] = func(args []string) {
		defer nodePool().Close()
		n := 0
		for i := 0; i < 400 && n < 8; i++ {
			r := coreStream(i)
			src, _ := genJSProgram(r)
			a, err := jsAnalyze(src)
			if err != nil {
				continue
			}
			o, err := jsExec(src, a, 3000)
			hasRef := func(o *jsObs) bool {
				if o == nil {
					return false
				}
				if strings.Contains(o.Completion, "ReferenceError") {
					return true
				}
				for _, l := range o.Log {
					if strings.Contains(l, "err(ReferenceError)") {
						return true
					}
				}
				return false
			}
			if err != nil || !hasRef(o) {
				continue
			}
			n++
			// reduce while still watchdog
			test := func(s string) bool {
				a, err := jsAnalyze(s)
				if err != nil {
					return false
				}
				o, err := jsExec(s, a, 3000)
				return err == nil && (strings.Contains(o.Completion, "ReferenceError") || strings.Contains(strings.Join(o.Log, " "), "err(ReferenceError)"))
			}
			join := func(p []string) string { return strings.Join(p, "") }
			split := func(s string, seps string) []string {
				var parts []string
				last := 0
				for i := 0; i < len(s); i++ {
					if strings.IndexByte(seps, s[i]) >= 0 {
						parts = append(parts, s[last:i+1])
						last = i + 1
					}
				}
				if last < len(s) {
					parts = append(parts, s[last:])
				}
				return parts
			}
			cur := join(ddmin(split(src, "\n"), join, test))
			cur = join(ddmin(split(cur, ";}"), join, test))
			cur = join(ddmin(split(cur, ";},)(]"), join, test))
			fmt.Println("WATCHDOG:", cur)
		}
	}
}

func init() {
	// reduce a C02 static finding: `vcheck jsreduce-static <replay.json>`
	Children["jsreduce-static"] = func(args []string) {
		defer nodePool().Close()
		for _, f := range args {
			b, _ := os.ReadFile(f)
			var rp struct {
				Witness struct{ Config, Input string }
			}
			json.Unmarshal(b, &rp)
			var c jsConfig
			fmt.Sscanf(rp.Witness.Config, "js keepvarnames=%t version=%d precision=%d inline=%t", &c.KeepVarNames, &c.Version, &c.Precision, &c.Inline)
			test := func(s string) bool {
				a, err := jsAnalyze(s)
				if err != nil {
					return false
				}
				out, merr, pan := jsMinify(s, c)
				if merr != nil || pan != "" {
					return false
				}
				return c02Static(a, out, c) != ""
			}
			join := func(p []string) string { return strings.Join(p, "") }
			split := func(s string, seps string) []string {
				var parts []string
				last := 0
				for i := 0; i < len(s); i++ {
					if strings.IndexByte(seps, s[i]) >= 0 {
						parts = append(parts, s[last:i+1])
						last = i + 1
					}
				}
				if last < len(s) {
					parts = append(parts, s[last:])
				}
				return parts
			}
			cur := rp.Witness.Input
			for round := 0; round < 3; round++ {
				cur = join(ddmin(split(cur, "\n"), join, test))
				cur = join(ddmin(split(cur, ";}"), join, test))
				cur = join(ddmin(split(cur, ";},)(]"), join, test))
				if len(cur) < 300 {
					cur = join(ddmin(strings.Split(cur, ""), join, test))
				}
			}
			out, _, _ := jsMinify(cur, c)
			a, _ := jsAnalyze(cur)
			fmt.Printf("== %s\n   reduced: %s\n   output : %s\n   verdict: %s\n", f, cur, out, c02Static(a, out, c))
		}
	}
}

func init() {
	// `vcheck scopegen <seed> <n> <substring>`: print the generated scope programs that contain the substring
	Children["scopegen"] = func(args []string) {
		var seed uint64 = 1
		n := 2500
		sub := ""
		if len(args) > 0 {
			fmt.Sscan(args[0], &seed)
		}
		if len(args) > 1 {
			fmt.Sscan(args[1], &n)
		}
		if len(args) > 2 {
			sub = args[2]
		}
		hits := 0
		for i := 0; i < n; i++ {
			r := core.Stream(seed, "scope", fmt.Sprint(i))
			src := genScopeProgram(r, i%5 == 4)
			if sub == "" || strings.Contains(src, sub) {
				hits++
				if hits <= 60 {
					fmt.Println(src)
					fmt.Println("----")
				}
			}
		}
		fmt.Println("hits", hits, "of", n)
	}
}
