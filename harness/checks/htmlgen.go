package checks

// G-html: generator of conforming HTML documents driven by a small content-model
// table written from the HTML Standard (independent of html/table.go).

import (
	"fmt"
	"regexp"
	"strings"

	"verif/harness/core"
)

type hNode struct {
	name      string // "" = text, "#comment" = comment
	text      string
	attrs     []hAttr
	kids      []*hNode
	omitEnd   bool
	omitStart bool
}

type htmlGen struct {
	r             *core.Rand
	depth         int
	noSpecial     bool // no special comments
	payloads      bool // scripts/styles with real content
	hostileAttrs  bool
	ids           int
	inA           bool
	inForm        bool
	inLabel       bool
	inInteractive bool
}

var hgPhrasing = []string{"span", "b", "i", "em", "strong", "code", "a", "small", "sub", "sup", "q", "abbr", "cite", "kbd", "mark", "s", "u", "var", "label", "time", "data"}
var hgVoidInline = []string{"img", "br", "input", "wbr"}
var hgBlocks = []string{"ins", "del", "a-block", "div", "p", "ul", "ol", "dl", "table", "h1", "h2", "h3", "pre", "blockquote", "section", "article", "aside", "nav", "header", "footer", "form", "hr", "figure", "details", "address", "fieldset", "main", "select-block", "textarea-block", "button-block"}

func (g *htmlGen) ws() string {
	switch g.r.Intn(10) {
	case 0, 1, 2:
		return " "
	case 3:
		return "\n"
	case 4:
		return "  "
	case 5:
		return "\t"
	case 6:
		return " \n "
	}
	return ""
}

func (g *htmlGen) word() string {
	r := g.r
	switch r.Intn(14) {
	case 0:
		return r.Pick([]string{"&amp;", "&lt;", "&gt;", "&quot;", "&#39;", "&copy;", "&nbsp;", "&eacute;", "&#233;", "&#x3C;", "&hellip;", "&amp;lt;", "&amp;amp;", "&lt;b&gt;", "&NotEqualTilde;", "&AMP;", "&LT;"})
	case 1:
		return r.Pick([]string{"é", "€", "x=y", "a&b", "&", "AT&T", "a&", "1<2"[:1], "3>2", "\"q\"", "'s", "`", "a=b"})
	case 2:
		return r.Pick([]string{"lt", "--", "->", "]]>", "{{x}}", "q"})
	default:
		n := 1 + r.Intn(6)
		b := make([]byte, n)
		for i := range b {
			b[i] = r.Char("abcdefghijklmnopqrstuvwxyzABC0123456789.,;:!?-_")
		}
		return string(b)
	}
}

func (g *htmlGen) text() *hNode {
	var sb strings.Builder
	n := 1 + g.r.Intn(4)
	sb.WriteString(g.ws())
	for i := 0; i < n; i++ {
		sb.WriteString(g.word())
		if i < n-1 {
			sb.WriteString(g.r.Pick([]string{" ", " ", "  ", "\n", " \t "}))
		}
	}
	sb.WriteString(g.ws())
	return &hNode{text: sb.String()}
}

func (g *htmlGen) comment() *hNode {
	if !g.noSpecial && g.r.Chance(1, 4) {
		return &hNode{name: "#comment", text: g.r.Pick([]string{"#include virtual=\"x\" ", "#echo var=\"a\" "})}
	}
	return &hNode{name: "#comment", text: g.r.Pick([]string{" c ", "x", "", " <p>no</p> ", " a -- b ", "[x]"})}
}

func (g *htmlGen) freeText() string {
	r := g.r
	parts := []string{}
	n := r.Intn(4)
	for i := 0; i < n; i++ {
		parts = append(parts, g.word())
	}
	s := strings.Join(parts, r.Pick([]string{" ", "  ", " "}))
	if r.Chance(1, 6) {
		s = " " + s + " "
	}
	return s
}

// attribute values are kept as DECODED text in the node; the serializer chooses quoting and references.
func (g *htmlGen) attrsFor(name string) []hAttr {
	r := g.r
	var as []hAttr
	add := func(k, v string) {
		for _, a := range as {
			if a.Key == k {
				return
			}
		}
		as = append(as, hAttr{k, v})
	}
	hostile := func() string {
		var sb strings.Builder
		n := 1 + r.Intn(5)
		for i := 0; i < n; i++ {
			switch r.Intn(12) {
			case 0:
				sb.WriteByte('"')
			case 1:
				sb.WriteByte('\'')
			case 2:
				sb.WriteString(r.Pick([]string{"=", "<", ">", "`", "&", "&amp;", "&lt", "&quot;", "&#34;", "&#39;", "&x", "&;"}))
			case 3:
				sb.WriteString(r.Pick([]string{" ", "  ", "\t", "\n"}))
			case 4:
				sb.WriteString(r.Pick([]string{"é", "€", "/", "?a=1&b=2", "?a=1&amp=2", "&copy", "&copy;x"}))
			default:
				sb.WriteByte(r.Char("abcxyz019-_."))
			}
		}
		return sb.String()
	}
	if r.Chance(1, 3) {
		cls := []string{"a", "b-c", "x1", "Y"}
		k := 1 + r.Intn(3)
		var cs []string
		for i := 0; i < k; i++ {
			cs = append(cs, r.Pick(cls))
		}
		add("class", r.Pick([]string{"", " "})+strings.Join(cs, r.Pick([]string{" ", "  ", " \n "}))+r.Pick([]string{"", " "}))
	}
	if r.Chance(1, 5) {
		g.ids++
		add("id", fmt.Sprintf("id%d", g.ids))
	}
	if r.Chance(1, 5) {
		add("title", g.freeText())
	}
	if r.Chance(1, 8) {
		add(r.Pick([]string{"data-x", "data-json", "aria-label"}), hostile())
	}
	if r.Chance(1, 12) {
		add(r.Pick([]string{"class", "id", "dir"}), "")
	}
	if r.Chance(1, 10) {
		// values that are the default of some *other* attribute: only the right attribute may lose them
		add(r.Pick([]string{"name", "value", "title", "data-x", "form", "class", "id", "headers", "for"}),
			r.Pick([]string{"submit", "text", "get", "GET", "1", "all", "rect", "text/css", "text/javascript", "button", "post", "screen", "application/x-www-form-urlencoded"}))
	}
	if r.Chance(1, 10) {
		add("lang", r.Pick([]string{"en", " en-US ", "nl"}))
	}
	if r.Chance(1, 10) {
		add("hidden", r.Pick([]string{"", "hidden", "until-found"}))
	}
	if r.Chance(1, 10) {
		add("style", r.Pick([]string{"color: red", " margin : 0px ; ", "color:#ff0000;background:url(x.png)", "", "font-family:'My   Font'", "content:'x  y';color:red", "background:url(\"a  b.png\")"}))
	}
	switch name {
	case "a":
		if r.Chance(3, 4) {
			add("href", r.Pick([]string{"http://example.com/a?b=1&c=2", " https://x.org/ ", "HTTP://Example.com/", "#frag", "/p/q.html", "mailto:a@b.c", "page.html?x=1&amp=2", "?q=a b", "docs/Annual  Report.pdf", "/search?q=new  york&lang=en", "mailto:a@b.c?subject=Hi&body=two  spaces"}))
		}
		if r.Chance(1, 4) {
			add("rel", r.Pick([]string{"nofollow", " noopener  noreferrer "}))
		}
		if r.Chance(1, 5) {
			add("target", "_blank")
		}
		if r.Chance(1, 6) {
			add("name", r.Pick([]string{"anchor", "id1"}))
		} else if r.Chance(1, 6) {
			// id and name on one anchor: equal (name is redundant), or different only by case (both are targets)
			g.ids++
			id := r.Pick([]string{"Top", "secA", "NOTE"}) + fmt.Sprint(g.ids)
			add("id", id)
			add("name", r.Pick([]string{id, strings.ToLower(id), strings.ToUpper(id), id + "x"}))
		}
	case "img":
		add("src", r.Pick([]string{"a.png", " b.jpg ", "data:image/png;base64,iVBORw0KGgo=", "http://x/y.gif", "img/my  photo.png"}))
		add("alt", g.freeText())
		if r.Chance(1, 3) {
			add("width", r.Pick([]string{"10", " 20 "}))
		}
		if r.Chance(1, 5) {
			add("ismap", r.Pick([]string{"", "ismap"}))
		}
	case "input":
		add("type", r.Pick([]string{"text", "TEXT", "checkbox", "radio", "submit", "number", "hidden", "password"}))
		if r.Chance(1, 2) {
			add("value", r.Pick([]string{"", "on", "v 1", " padded ", hostile()}))
		}
		if r.Chance(1, 3) {
			add("name", r.Pick([]string{"n", "q"}))
		}
		for _, b := range []string{"disabled", "checked", "required", "readonly", "autofocus"} {
			if r.Chance(1, 8) {
				add(b, r.Pick([]string{"", b, "x"}))
			}
		}
		if r.Chance(1, 6) {
			add("placeholder", g.freeText())
		}
		if r.Chance(1, 10) {
			add("maxlength", " 10 ")
		}
	case "button", "button-block":
		if r.Chance(1, 2) {
			add("type", r.Pick([]string{"submit", "button", "reset", "SUBMIT"}))
		}
		if r.Chance(1, 4) {
			add("disabled", "disabled")
		}
	case "form":
		if r.Chance(1, 2) {
			add("method", r.Pick([]string{"get", "GET", "post", " post "}))
		}
		if r.Chance(1, 2) {
			add("action", r.Pick([]string{"", "/submit", " /s?a=1&b=2 ", "/do  it"}))
		}
		if r.Chance(1, 4) {
			add("enctype", r.Pick([]string{"application/x-www-form-urlencoded", "multipart/form-data"}))
		}
		if r.Chance(1, 6) {
			add("novalidate", "")
		}
	case "td", "th":
		if r.Chance(1, 4) {
			add("colspan", r.Pick([]string{"1", "2", " 3 "}))
		}
		if r.Chance(1, 5) {
			add("rowspan", r.Pick([]string{"1", "2"}))
		}
		if name == "th" && r.Chance(1, 4) {
			add("scope", "col")
		}
	case "col":
		if r.Chance(1, 2) {
			add("span", r.Pick([]string{"1", "2"}))
		}
	case "ol":
		if r.Chance(1, 4) {
			add("start", " 3 ")
		}
		if r.Chance(1, 3) {
			add("type", r.Pick([]string{"A", "I", "a", "i", "1", " A "})) // the marker kind is case-sensitive
		}
		if r.Chance(1, 5) {
			add("reversed", "")
		}
	case "li":
		if r.Chance(1, 6) {
			add("type", r.Pick([]string{"A", "I", "a", "disc"}))
		}
	case "option":
		if r.Chance(1, 3) {
			add("value", r.Pick([]string{"", "1", "a b"}))
		}
		if r.Chance(1, 4) {
			add("selected", r.Pick([]string{"", "selected"}))
		}
	case "select", "select-block":
		if r.Chance(1, 4) {
			add("multiple", "")
		}
		if r.Chance(1, 3) {
			add("name", "sel")
		}
	case "textarea", "textarea-block":
		if r.Chance(1, 3) {
			add("rows", " 2 ")
		}
		if r.Chance(1, 4) {
			add("placeholder", g.freeText())
		}
	case "label":
		if r.Chance(1, 3) {
			add("for", "id1")
		}
	case "details":
		if r.Chance(1, 3) {
			add("open", "")
		}
	case "time":
		add("datetime", " 2020-01-01 ")
	case "data":
		add("value", g.freeText())
	case "q", "blockquote":
		if r.Chance(1, 3) {
			add("cite", " http://src.example/x ")
		}
	case "script":
		if r.Chance(1, 2) {
			add("type", r.Pick([]string{"text/javascript", "application/javascript", "module", "text/template", "application/ld+json", "TEXT/JavaScript", "text/x-handlebars", "Module", "text/javascript; charset=utf-8", "text/javascript;version=1.8", "application/ecmascript", "text/jscript", "importmap", "speculationrules"}))
		}
		if r.Chance(1, 6) {
			add("async", "")
		}
	case "style":
		if r.Chance(1, 3) {
			add("type", r.Pick([]string{"text/css", "TEXT/CSS"}))
		}
		if r.Chance(1, 4) {
			add("media", r.Pick([]string{"all", "screen", "ALL", "print"}))
		}
	case "link":
		add("rel", "stylesheet")
		add("href", "s.css")
		if r.Chance(1, 2) {
			add("type", r.Pick([]string{"text/css", "text/x"}))
		}
	case "meta":
	}
	// shuffle-ish: rotate
	if len(as) > 1 && r.Bool() {
		as = append(as[1:], as[0])
	}
	return as
}

func (g *htmlGen) phrasing(depth int) []*hNode {
	r := g.r
	var out []*hNode
	n := 1 + r.Intn(4)
	for i := 0; i < n; i++ {
		k := r.Intn(12)
		switch {
		case k < 5 || depth <= 0:
			out = append(out, g.text())
		case k < 6:
			out = append(out, g.comment())
		case k < 8:
			name := r.Pick(hgVoidInline)
			if name == "input" && g.inInteractive {
				name = "br"
			}
			out = append(out, &hNode{name: name, attrs: g.attrsFor(name)})
		case k < 9 && !g.inInteractive:
			switch r.Intn(7) {
			case 4:
				// ruby: base text, annotations, optional parentheses; an rt/rp end tag may only go when rt/rp or nothing follows
				rb := &hNode{name: "ruby"}
				for k := 0; k < 1+r.Intn(2); k++ {
					rb.kids = append(rb.kids, &hNode{text: r.Pick([]string{"base", "kan", " ji ", "x"})})
					if r.Chance(1, 3) {
						rb.kids = append(rb.kids, &hNode{name: "rp", kids: []*hNode{{text: "("}}, omitEnd: r.Chance(1, 2)})
						rb.kids = append(rb.kids, &hNode{name: "rt", kids: []*hNode{{text: r.Pick([]string{"ann", "a b"})}}, omitEnd: r.Chance(1, 2)})
						rb.kids = append(rb.kids, &hNode{name: "rp", kids: []*hNode{{text: ")"}}, omitEnd: r.Chance(1, 2)})
					} else {
						rb.kids = append(rb.kids, &hNode{name: "rt", kids: []*hNode{{text: r.Pick([]string{"ann", "a b", " y"})}}, omitEnd: r.Chance(1, 2)})
					}
				}
				if r.Chance(1, 3) {
					rb.kids = append(rb.kids, &hNode{text: r.Pick([]string{"tail", " t"})})
				}
				out = append(out, rb)
			case 6:
				// inline formula (foreign content): an inline box like any other
				out = append(out, &hNode{name: "math", kids: []*hNode{{name: "mi", kids: []*hNode{{text: "x"}}}, {name: "mo", kids: []*hNode{{text: "+"}}}, {name: "mn", kids: []*hNode{{text: "1"}}}}})
			case 5:
				out = append(out, &hNode{name: "noscript", kids: []*hNode{{text: r.Pick([]string{"enable scripts", " x ", "y"})}}})
			case 3:
				// media/object elements with fallback content (their end tag is followed by ordinary text)
				name := r.Pick([]string{"video", "audio", "object", "canvas", "meter", "progress"})
				nd := &hNode{name: name, kids: []*hNode{{text: r.Pick([]string{"fallback ", " no support", "x", "a  b "})}}}
				switch name {
				case "video", "audio":
					nd.attrs = []hAttr{{"src", "a.mp4"}, {"controls", ""}}
				case "object":
					nd.attrs = []hAttr{{"data", "chart.svg"}}
				case "meter", "progress":
					nd.attrs = []hAttr{{"value", "1"}}
				}
				out = append(out, nd)
			case 0:
				out = append(out, g.selectEl("select"))
			case 1:
				out = append(out, &hNode{name: "textarea", attrs: g.attrsFor("textarea"), kids: []*hNode{{text: r.Pick([]string{"", " keep  this ", "\nfirst\n second", "a &amp; b"})}}})
			default:
				g.inInteractive = true
				out = append(out, &hNode{name: "button", attrs: g.attrsFor("button"), kids: g.phrasing(depth - 1)})
				g.inInteractive = false
			}
		default:
			name := r.Pick(hgPhrasing)
			if (name == "a" || name == "label") && g.inInteractive {
				name = "span"
			}
			nd := &hNode{name: name, attrs: g.attrsFor(name)}
			if name == "a" || name == "label" {
				g.inInteractive = true
				nd.kids = g.phrasing(depth - 1)
				g.inInteractive = false
			} else if r.Chance(1, 8) {
				nd.kids = nil // empty inline element (icon fonts)
			} else {
				nd.kids = g.phrasing(depth - 1)
			}
			out = append(out, nd)
		}
	}
	return out
}

func (g *htmlGen) selectEl(name string) *hNode {
	r := g.r
	sel := &hNode{name: "select", attrs: g.attrsFor(name)}
	n := r.Intn(4)
	for i := 0; i < n; i++ {
		opt := func() *hNode {
			return &hNode{name: "option", attrs: g.attrsFor("option"), kids: []*hNode{{text: r.Pick([]string{"One", " Two ", "a  b", ""})}}, omitEnd: r.Chance(1, 2)}
		}
		if r.Chance(1, 4) {
			og := &hNode{name: "optgroup", attrs: []hAttr{{"label", "G"}}, omitEnd: r.Chance(1, 2)}
			for j := 0; j < 1+r.Intn(2); j++ {
				og.kids = append(og.kids, opt())
			}
			sel.kids = append(sel.kids, og)
		} else {
			sel.kids = append(sel.kids, opt())
		}
		// pretty-printed select: white space or a comment between the children
		switch r.Intn(6) {
		case 0:
			sel.kids = append(sel.kids, &hNode{text: r.Pick([]string{" ", "\n", "\n  "})})
		case 1:
			sel.kids = append(sel.kids, g.comment())
		}
	}
	return sel
}

func (g *htmlGen) flow(depth int) []*hNode {
	r := g.r
	var out []*hNode
	n := 1 + r.Intn(4)
	for i := 0; i < n; i++ {
		k := r.Intn(10)
		if depth <= 0 || k < 2 {
			out = append(out, g.phrasing(1)...)
			continue
		}
		if k < 3 {
			out = append(out, g.comment())
			continue
		}
		name := r.Pick(hgBlocks)
		out = append(out, g.block(name, depth-1))
		if r.Chance(1, 3) {
			out = append(out, &hNode{text: g.r.Pick([]string{" ", "\n", "\n  "})})
		}
	}
	return out
}

func (g *htmlGen) block(name string, depth int) *hNode {
	r := g.r
	nd := &hNode{name: name, attrs: g.attrsFor(name)}
	switch name {
	case "p", "h1", "h2", "h3", "address":
		nd.kids = g.phrasing(depth)
		if name == "p" {
			nd.omitEnd = r.Chance(1, 2) // validated by the serializer against the following sibling / parent
		}
	case "pre":
		nd.kids = []*hNode{{text: r.Pick([]string{"  keep   this \n  and this ", "\nleading newline", "a\n\n b", "x &lt; y"})}}
		if r.Chance(1, 3) {
			nd.kids = append(nd.kids, &hNode{name: "b", kids: []*hNode{{text: " in  pre "}}}, &hNode{text: "  tail "})
		}
	case "ul", "ol":
		for j := 0; j < 1+r.Intn(3); j++ {
			li := &hNode{name: "li", attrs: g.attrsFor("li"), omitEnd: r.Chance(1, 2)}
			if r.Chance(1, 3) && depth > 0 {
				li.kids = g.flow(depth - 1)
			} else {
				li.kids = g.phrasing(depth)
			}
			nd.kids = append(nd.kids, li)
			if r.Chance(1, 3) {
				nd.kids = append(nd.kids, &hNode{text: r.Pick([]string{" ", "\n"})})
			}
		}
	case "dl":
		for j := 0; j < 1+r.Intn(2); j++ {
			nd.kids = append(nd.kids, &hNode{name: "dt", kids: g.phrasing(depth), omitEnd: r.Chance(1, 2)})
			nd.kids = append(nd.kids, &hNode{name: "dd", kids: g.phrasing(depth), omitEnd: r.Chance(1, 2)})
		}
	case "table":
		if r.Chance(1, 4) {
			nd.kids = append(nd.kids, &hNode{name: "caption", kids: g.phrasing(0)})
		}
		if r.Chance(1, 3) {
			// one or two adjacent column groups (the second one's start tag cannot be re-inferred when both lose their tags)
			for k := 0; k < 1+r.Intn(2); k++ {
				cg := &hNode{name: "colgroup", attrs: nil, omitEnd: r.Chance(1, 2)}
				for c := 0; c < 1+r.Intn(2); c++ {
					cg.kids = append(cg.kids, &hNode{name: "col", attrs: g.attrsFor("col")})
				}
				nd.kids = append(nd.kids, cg)
			}
		}
		sections := []string{"tbody"}
		if r.Chance(1, 3) {
			sections = []string{"thead", "tbody", "tfoot"}
		}
		for _, sname := range sections {
			sec := &hNode{name: sname, omitEnd: r.Chance(1, 2)}
			for j := 0; j < 1+r.Intn(2); j++ {
				tr := &hNode{name: "tr", omitEnd: r.Chance(1, 2)}
				for c := 0; c < 1+r.Intn(3); c++ {
					cell := "td"
					if sname == "thead" || r.Chance(1, 6) {
						cell = "th"
					}
					tr.kids = append(tr.kids, &hNode{name: cell, attrs: g.attrsFor(cell), kids: g.phrasing(depth), omitEnd: r.Chance(1, 2)})
				}
				sec.kids = append(sec.kids, tr)
			}
			nd.kids = append(nd.kids, sec)
		}
	case "ins", "del", "a-block":
		// transparent containers around flow content; a p as the last child must keep its end tag
		if name == "a-block" {
			nd.name = "a"
			if g.inInteractive {
				nd.name = "ins"
			}
			nd.attrs = g.attrsFor(nd.name)
		}
		was := g.inInteractive
		if nd.name == "a" {
			g.inInteractive = true
		}
		nd.kids = g.flow(depth)
		if r.Chance(2, 3) {
			nd.kids = append(nd.kids, &hNode{name: "p", kids: g.phrasing(0)})
		}
		g.inInteractive = was
	case "hr":
	case "form":
		wasInForm := g.inForm
		if wasInForm {
			nd.name = "div" // forms do not nest
			nd.attrs = g.attrsFor("div")
		}
		g.inForm = true
		nd.kids = g.flow(depth)
		g.inForm = wasInForm
	case "figure":
		nd.kids = g.flow(depth)
		if r.Chance(1, 2) {
			nd.kids = append(nd.kids, &hNode{name: "figcaption", kids: g.phrasing(depth)})
		}
	case "details":
		nd.kids = append([]*hNode{{name: "summary", kids: g.phrasing(0)}}, g.flow(depth)...)
	case "fieldset":
		nd.kids = append([]*hNode{{name: "legend", kids: g.phrasing(0)}}, g.flow(depth)...)
	case "select-block":
		return g.selectEl("select")
	case "textarea-block":
		nd.name = "textarea"
		nd.kids = []*hNode{{text: r.Pick([]string{"", "  spaces  kept ", "l1\nl2"})}}
	case "button-block":
		nd.name = "button"
		g.inInteractive = true
		nd.kids = g.phrasing(0)
		g.inInteractive = false
	default:
		nd.kids = g.flow(depth)
	}
	return nd
}

// ---- serializer

var hgBlockCloseP = setOf("address", "article", "aside", "blockquote", "details", "div", "dl", "fieldset", "figcaption", "figure", "footer", "form", "h1", "h2", "h3", "h4", "h5", "h6", "header", "hgroup", "hr", "main", "menu", "nav", "ol", "p", "pre", "section", "table", "ul")
var hgVoid = setOf("img", "br", "input", "wbr", "hr", "col", "meta", "link")
var hgNoPOmitParents = setOf("a", "audio", "del", "ins", "map", "noscript", "video")

func (g *htmlGen) attrText(a hAttr) string {
	r := g.r
	v := a.Val
	name := a.Key
	if r.Chance(1, 10) {
		name = strings.ToUpper(name)
	}
	if v == "" && r.Chance(1, 2) {
		return name
	}
	enc := func(s string, q byte) string {
		var sb strings.Builder
		for i := 0; i < len(s); i++ {
			c := s[i]
			switch {
			case c == '&':
				// an ampersand that could start a character reference must be written as &amp;
				sb.WriteString("&amp;")
			case c == q && q == '"':
				sb.WriteString(r.Pick([]string{"&quot;", "&#34;", "&#x22;"}))
			case c == q && q == '\'':
				sb.WriteString(r.Pick([]string{"&#39;", "&apos;", "&#x27;"}))
			case c == '<' && r.Chance(1, 2):
				sb.WriteString("&lt;")
			case c == '>' && r.Chance(1, 2):
				sb.WriteString("&gt;")
			default:
				sb.WriteByte(c)
			}
		}
		return sb.String()
	}
	unq := v != "" && !strings.ContainsAny(v, " \t\n\f\r\"'=<>`") && r.Chance(1, 4)
	sp := r.Pick([]string{"", "", "", " "})
	if unq {
		return name + sp + "=" + sp + strings.ReplaceAll(v, "&", "&amp;")
	}
	if v != "" && r.Chance(1, 6) {
		// unquoted in the source, every character that may not appear raw is written as a character reference
		var sb strings.Builder
		for i := 0; i < len(v); i++ {
			switch v[i] {
			case '&':
				sb.WriteString("&amp;")
			case ' ':
				sb.WriteString(r.Pick([]string{"&#32;", "&#x20;"}))
			case '\t':
				sb.WriteString("&#9;")
			case '\n':
				sb.WriteString("&#10;")
			case '\f':
				sb.WriteString("&#12;")
			case '\r':
				sb.WriteString("&#13;")
			case '"':
				sb.WriteString(r.Pick([]string{"&quot;", "&#34;"}))
			case '\'':
				sb.WriteString("&#39;")
			case '=':
				sb.WriteString("&#61;")
			case '<':
				sb.WriteString("&lt;")
			case '>':
				sb.WriteString("&gt;")
			case '`':
				sb.WriteString("&#96;")
			default:
				sb.WriteByte(v[i])
			}
		}
		return name + "=" + sb.String()
	}
	if r.Chance(1, 3) {
		return name + sp + "=" + sp + "'" + enc(v, '\'') + "'"
	}
	return name + sp + "=" + sp + "\"" + enc(v, '"') + "\""
}

func encText(s string) string {
	// node text is already HTML source for text nodes (word() emits references); nothing to do
	return s
}

func (g *htmlGen) write(sb *strings.Builder, n *hNode, parent *hNode, next *hNode) {
	r := g.r
	if n.name == "" {
		sb.WriteString(n.text)
		return
	}
	if n.name == "#comment" {
		sb.WriteString("<!--" + n.text + "-->")
		return
	}
	tag := n.name
	if r.Chance(1, 12) {
		tag = strings.ToUpper(tag)
	}
	sb.WriteString("<" + tag)
	for _, a := range n.attrs {
		sb.WriteString(r.Pick([]string{" ", " ", "  ", "\n"}) + g.attrText(a))
	}
	if r.Chance(1, 15) {
		sb.WriteString(" ")
	}
	if hgVoid[n.name] && r.Chance(1, 5) {
		sb.WriteString("/")
	}
	sb.WriteString(">")
	if hgVoid[n.name] {
		return
	}
	if (n.name == "pre" || n.name == "textarea") && len(n.kids) > 0 && strings.HasPrefix(n.kids[0].text, "\n") {
		sb.WriteString("\n") // a leading newline is dropped by the parser: double it so that content starts with one
	}
	for i, k := range n.kids {
		var nx *hNode
		if i+1 < len(n.kids) {
			nx = n.kids[i+1]
		}
		g.write(sb, k, n, nx)
	}
	if n.omitEnd && g.mayOmitEnd(n, parent, next) {
		return
	}
	sb.WriteString("</" + tag + r.Pick([]string{"", "", "", " "}) + ">")
}

// mayOmitEnd implements HTML Standard §13.1.2.4 for the elements the generator uses.
func (g *htmlGen) mayOmitEnd(n, parent, next *hNode) bool {
	nextIs := func(names ...string) bool {
		if next == nil {
			return false
		}
		for _, x := range names {
			if next.name == x {
				return true
			}
		}
		return false
	}
	last := next == nil
	switch n.name {
	case "li":
		return nextIs("li") || last
	case "dt":
		return nextIs("dt", "dd")
	case "dd":
		return nextIs("dt", "dd") || last
	case "p":
		if next != nil && hgBlockCloseP[next.name] {
			return true
		}
		return last && parent != nil && !hgNoPOmitParents[parent.name] && parent.name != "" && !isCustom(parent.name) && parentAllowsPOmit(parent.name)
	case "rt", "rp":
		return nextIs("rt", "rp") || last
	case "option":
		return nextIs("option", "optgroup") || last
	case "optgroup":
		return nextIs("optgroup") || last
	case "colgroup":
		return next != nil && next.name != "" && next.name != "#comment" || last
	case "thead":
		return nextIs("tbody", "tfoot")
	case "tbody":
		return nextIs("tbody", "tfoot") || last
	case "tfoot":
		return last
	case "tr":
		return nextIs("tr") || last
	case "td", "th":
		return nextIs("td", "th") || last
	}
	return false
}

func isCustom(n string) bool { return strings.Contains(n, "-") }

// p's end tag may be omitted at the end of these parents (flow containers the generator uses)
func parentAllowsPOmit(n string) bool {
	return setOf("div", "section", "article", "aside", "nav", "header", "footer", "main", "blockquote", "li", "dd", "td", "th", "form", "figure", "figcaption", "details", "fieldset", "body")[n]
}

// genHTMLDoc produces a conforming document.
// reAmpBeforeComment: guard html-comment-removal-joins-reference — a comment never directly follows an
// ampersand (with or without the start of a reference name).
var reAmpBeforeComment = regexp.MustCompile(`(&[A-Za-z0-9#]*;?)<!--`) // (also the ampersand written as a reference: &amp;<!--c-->lt)

func genHTMLDoc(r *core.Rand, payloads bool) string {
	return reAmpBeforeComment.ReplaceAllString(genHTMLDocRaw(r, payloads), "$1 <!--")
}

func genHTMLDocRaw(r *core.Rand, payloads bool) string {
	g := &htmlGen{r: r, payloads: payloads}
	var sb strings.Builder
	full := r.Chance(2, 3)
	body := &hNode{name: "body", kids: g.flow(1 + r.Intn(3))}
	if !full {
		// fragment-like document: parsed as a document all the same
		for i, k := range body.kids {
			var nx *hNode
			if i+1 < len(body.kids) {
				nx = body.kids[i+1]
			}
			g.write(&sb, k, body, nx)
		}
		return sb.String()
	}
	sb.WriteString(r.Pick([]string{"<!DOCTYPE html>", "<!doctype html>", "<!DOCTYPE html>\n", "<!doctype html>\n"})) // (x/net/html wrongly treats an upper-case doctype NAME as quirks mode)
	htmlAttrs := ""
	if r.Chance(1, 3) {
		htmlAttrs = " lang=\"en\""
	}
	writeHTML := htmlAttrs != "" || r.Chance(1, 2)
	if writeHTML {
		sb.WriteString("<html" + htmlAttrs + ">" + r.Pick([]string{"", "\n"}))
	}
	writeHead := r.Chance(2, 3)
	if writeHead {
		sb.WriteString("<head>" + r.Pick([]string{"", "\n", "\n  "}))
	}
	// head content (starts with an element so that omitting <head> is allowed)
	if r.Chance(2, 3) {
		sb.WriteString(r.Pick([]string{`<meta charset="utf-8">`, `<meta charset=utf-8>`, `<meta http-equiv="Content-Type" content="text/html; charset=utf-8">`, `<META CHARSET="UTF-8">`}) + r.Pick([]string{"", "\n"}))
	}
	sb.WriteString("<title>" + g.freeText() + "</title>" + r.Pick([]string{"", "\n"}))
	if r.Chance(1, 3) {
		sb.WriteString(`<meta name="viewport" content="width=device-width, initial-scale=1.0">` + r.Pick([]string{"", "\n"}))
	}
	if r.Chance(1, 4) {
		sb.WriteString(`<meta name="keywords" content="a, b, c">`)
	}
	if r.Chance(1, 4) {
		sb.WriteString(`<meta name="description" content="` + strings.ReplaceAll(g.freeText(), "\"", "&quot;") + `">`)
	}
	if r.Chance(1, 3) {
		var l strings.Builder
		g.write(&l, &hNode{name: "link", attrs: g.attrsFor("link")}, nil, nil)
		sb.WriteString(l.String())
	}
	if r.Chance(1, 2) {
		sb.WriteString(g.styleEl() + r.Pick([]string{"", "\n"}))
	}
	if r.Chance(1, 2) {
		sb.WriteString(g.scriptEl() + r.Pick([]string{"", "\n"}))
	}
	if r.Chance(1, 6) {
		sb.WriteString("<!-- head comment -->")
	}
	if writeHead {
		sb.WriteString("</head>" + r.Pick([]string{"", "\n"}))
	}
	// <body> start tag: may be omitted unless the first thing in it is a space character, a comment, or meta/link/script/style/template
	first := body.kids[0]
	bodyOmittable := !(first.name == "#comment" || first.name == "" && (first.text == "" || isHTMLSpace(first.text[0])) || first.name == "script" || first.name == "style" || first.name == "noscript" || first.name == "link" || first.name == "meta" || first.name == "template")
	bodyAttrs := ""
	if r.Chance(1, 4) {
		bodyAttrs = " class=\"home page\""
	}
	writeBody := bodyAttrs != "" || !bodyOmittable || !writeHead || r.Chance(1, 2)
	if writeBody {
		sb.WriteString("<body" + bodyAttrs + ">" + r.Pick([]string{"", "\n"}))
		if r.Chance(1, 8) {
			// an element that is also allowed in the head as the first thing in the body: the body start tag must stay
			if r.Chance(1, 3) {
				sb.WriteString(r.Pick([]string{"<!-- c -->", "<!-- a --> <!-- b -->", " \n<!--x-->\n"}))
			}
			sb.WriteString(r.Pick([]string{g.scriptEl(), "<noscript>enable scripts</noscript>", "<link rel=\"stylesheet\" href=\"late.css\">", "<template><p>t</p></template>", "<style>p{color:#ff0000}</style>", "<meta itemprop=\"x\" content=\"y\">"}))
		}
	}
	for i, k := range body.kids {
		var nx *hNode
		if i+1 < len(body.kids) {
			nx = body.kids[i+1]
		}
		g.write(&sb, k, body, nx)
	}
	if r.Chance(1, 4) && bodyOmittable {
		sb.WriteString(g.scriptEl())
	}
	if writeBody && r.Chance(2, 3) {
		sb.WriteString(r.Pick([]string{"", "\n"}) + "</body>")
	}
	if writeHTML && r.Chance(2, 3) {
		sb.WriteString(r.Pick([]string{"", "\n"}) + "</html>" + r.Pick([]string{"", "\n"}))
	}
	return sb.String()
}

func (g *htmlGen) scriptEl() string {
	r := g.r
	var sb strings.Builder
	n := &hNode{name: "script", attrs: g.attrsFor("script")}
	body := ""
	typ := ""
	for _, a := range n.attrs {
		if a.Key == "type" {
			typ = strings.ToLower(a.Val)
		}
	}
	switch {
	case typ == "application/ld+json":
		body = r.Pick([]string{`{ "a" : [ 1.0 , 2 ] }`, `{"@context":"https://schema.org","name":"x  y"}`})
	case typ == "text/template" || typ == "text/x-handlebars":
		body = r.Pick([]string{"<b> raw  {{x}} </b>", " <p>a</p> <p>b</p> "})
	default:
		if g.payloads {
			body = r.Pick([]string{"var x = 1 + 2; if (x) { y( x ) }", "function f(a){ return a*2 }\nf(3);", "window.a = '<b>';", "if (a < b && c > d) e();", "/* c */ go( \"</\" + \"script>\" )", "",
				"function g(a){ // double it\n  return a*2\n}\ng(3); // call", "var o = { a : 1 } // trailing\nvar p = o.a"})
		} else {
			body = r.Pick([]string{"x=1", "", "a<b"})
		}
	}
	sb.WriteString("<script")
	for _, a := range n.attrs {
		sb.WriteString(" " + g.attrText(a))
	}
	sb.WriteString(">" + body + "</script>")
	return sb.String()
}

func (g *htmlGen) styleEl() string {
	r := g.r
	var sb strings.Builder
	n := &hNode{name: "style", attrs: g.attrsFor("style")}
	body := r.Pick([]string{"a{b:c}", "", "p > b{color:red}"})
	if g.payloads {
		body = r.Pick([]string{"p { color : #ff0000 ; margin : 0px 0px }", "a>b { content : \"</\" }", "@media screen { .x { top : 0.50em } }", ""})
	}
	sb.WriteString("<style")
	for _, a := range n.attrs {
		sb.WriteString(" " + g.attrText(a))
	}
	sb.WriteString(">" + body + "</style>")
	return sb.String()
}
