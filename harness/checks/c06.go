package checks

// C06 — XML minification preserves the infoset up to insignificant whitespace.
// Oracle: my XML tokenizer (raw attribute values → attribute-value normalisation),
// run-level character data comparison, encoding/xml strict well-formedness.

import (
	"bytes"
	stdxml "encoding/xml"
	"fmt"
	"io"
	"regexp"
	"strings"

	"github.com/tdewolff/minify/v2"
	mxml "github.com/tdewolff/minify/v2/xml"
	"verif/harness/core"
)

type xItem struct {
	kind  byte // S E P D R(run) W(ws-only run between tags)
	name  string
	attrs []xAttr // Raw holds the NORMALISED value here
	data  string  // run: decoded character data
	left  byte    // boundary kinds for runs: 'S','E','P','D','^','$'
	right byte
}

var entityDecl = regexp.MustCompile(`<!ENTITY\s+([A-Za-z_][\w.-]*)\s+"([^"]*)"\s*>`)

func xmlEntities(evs []xEvent) map[string]string {
	ents := map[string]string{}
	for _, e := range evs {
		if e.Kind == 'D' {
			for _, m := range entityDecl.FindAllStringSubmatch(e.Data, -1) {
				if _, dup := ents[m[1]]; !dup {
					ents[m[1]] = m[2]
				}
			}
		}
	}
	return ents
}

// xmlCanon turns events into the comparison stream.
func xmlCanon(evs []xEvent, ents map[string]string) ([]xItem, error) {
	var items []xItem
	var run strings.Builder
	inRun := false
	lastKind := byte('^')
	flush := func(next byte) {
		if !inRun {
			return
		}
		items = append(items, xItem{kind: 'R', data: run.String(), left: lastKind, right: next})
		run.Reset()
		inRun = false
	}
	for _, e := range evs {
		switch e.Kind {
		case 'M':
			continue // comments are the only nodes removed; they do not split a run
		case 'T':
			x, err := xmlExpand(e.Data, ents, false)
			if err != nil {
				return nil, err
			}
			run.WriteString(x)
			inRun = true
		case 'C':
			run.WriteString(strings.ReplaceAll(strings.ReplaceAll(e.Data, "\r\n", "\n"), "\r", "\n"))
			inRun = true
		case 'S':
			flush('S')
			it := xItem{kind: 'S', name: e.Name}
			for _, a := range e.Attrs {
				v, err := xmlExpand(a.Raw, ents, true)
				if err != nil {
					return nil, err
				}
				it.attrs = append(it.attrs, xAttr{Name: a.Name, Raw: v})
			}
			items = append(items, it)
			lastKind = 'S'
		case 'E':
			flush('E')
			items = append(items, xItem{kind: 'E', name: e.Name})
			lastKind = 'E'
		case 'P':
			flush('P')
			items = append(items, xItem{kind: 'P', name: e.Name, data: collapseOutsideQuotes(e.Data)})
			lastKind = 'P'
		case 'D':
			flush('D')
			items = append(items, xItem{kind: 'D', data: collapseOutsideQuotes(e.Data)}) // white space inside quoted literals is part of them
			lastKind = 'D'
		}
	}
	flush('$')
	return items, nil
}

func isTagKind(k byte) bool { return k == 'S' || k == 'E' }

func hasLeadWS(s string) bool  { return len(s) > 0 && isXMLSpace(s[0]) }
func hasTrailWS(s string) bool { return len(s) > 0 && isXMLSpace(s[len(s)-1]) }

// xmlCompare returns "" if out is an acceptable minification of in.
func xmlCompare(in, out []xItem, keepWS bool) string {
	// drop whitespace-only runs, except (keepWS) those between two tags which must survive as whitespace
	filter := func(items []xItem, isOut bool) []xItem {
		var r []xItem
		for _, it := range items {
			if it.kind == 'R' && collapseWS(it.data) == "" {
				if keepWS && isTagKind(it.left) && isTagKind(it.right) && it.data != "" {
					it.kind = 'W'
					r = append(r, it)
				}
				continue
			}
			r = append(r, it)
		}
		return r
	}
	a, b := filter(in, false), filter(out, true)
	if len(a) != len(b) {
		return fmt.Sprintf("node sequence length differs (%d vs %d): %s | %s", len(a), len(b), xmlItemsString(a), xmlItemsString(b))
	}
	for i := range a {
		x, y := a[i], b[i]
		if x.kind != y.kind {
			return fmt.Sprintf("node %d kind differs (%c vs %c): %s | %s", i, x.kind, y.kind, xmlItemsString(a), xmlItemsString(b))
		}
		switch x.kind {
		case 'S':
			if x.name != y.name {
				return fmt.Sprintf("element name %q -> %q", x.name, y.name)
			}
			if len(x.attrs) != len(y.attrs) {
				return fmt.Sprintf("<%s>: attribute count %d -> %d", x.name, len(x.attrs), len(y.attrs))
			}
			for k := range x.attrs {
				if x.attrs[k].Name != y.attrs[k].Name {
					return fmt.Sprintf("<%s>: attribute name %q -> %q", x.name, x.attrs[k].Name, y.attrs[k].Name)
				}
				if x.attrs[k].Raw != y.attrs[k].Raw {
					return fmt.Sprintf("<%s %s>: normalised value %q -> %q", x.name, x.attrs[k].Name, x.attrs[k].Raw, y.attrs[k].Raw)
				}
			}
		case 'E':
			if x.name != y.name {
				return fmt.Sprintf("end tag name %q -> %q", x.name, y.name)
			}
		case 'P':
			if x.name != y.name || x.data != y.data {
				return fmt.Sprintf("processing instruction <?%s %s?> -> <?%s %s?>", x.name, x.data, y.name, y.data)
			}
		case 'D':
			if x.data != y.data {
				return fmt.Sprintf("DOCTYPE changed %q -> %q", x.data, y.data)
			}
		case 'R':
			if collapseWS(x.data) != collapseWS(y.data) {
				return fmt.Sprintf("character data changed %q -> %q", core.Trunc(x.data, 120), core.Trunc(y.data, 120))
			}
			if keepWS {
				if isTagKind(x.left) && hasLeadWS(x.data) && !hasLeadWS(y.data) {
					return fmt.Sprintf("KeepWhitespace: whitespace after a tag removed entirely: %q -> %q", core.Trunc(x.data, 80), core.Trunc(y.data, 80))
				}
				if isTagKind(x.right) && hasTrailWS(x.data) && !hasTrailWS(y.data) {
					return fmt.Sprintf("KeepWhitespace: whitespace before a tag removed entirely: %q -> %q", core.Trunc(x.data, 80), core.Trunc(y.data, 80))
				}
			}
			// never invent whitespace next to a word boundary: covered by collapse equality
		case 'W':
		}
	}
	return ""
}

func xmlItemsString(items []xItem) string {
	var sb strings.Builder
	for i, it := range items {
		if i > 40 {
			sb.WriteString("…")
			break
		}
		switch it.kind {
		case 'S':
			sb.WriteString("<" + it.name + ">")
		case 'E':
			sb.WriteString("</" + it.name + ">")
		case 'R', 'W':
			sb.WriteString(fmt.Sprintf("%c%q", it.kind, core.Trunc(it.data, 20)))
		default:
			sb.WriteString(fmt.Sprintf("%c(%s)", it.kind, it.name))
		}
	}
	return sb.String()
}

func stdxmlWellFormed(doc []byte, ents map[string]string) error {
	d := stdxml.NewDecoder(bytes.NewReader(doc))
	d.Strict = true
	d.Entity = ents
	d.CharsetReader = func(label string, input io.Reader) (io.Reader, error) { return input, nil }
	for {
		_, err := d.Token()
		if err == io.EOF {
			return nil
		}
		if err != nil {
			return err
		}
	}
}

// ---------------- generator

type xmlGen struct {
	r      *core.Rand
	ents   []string
	guards map[string]int
}

var xmlNames = []string{"a", "b", "item", "Note", "ns:el", "x-y", "_u", "svg", "t.1"}
var xmlAttrNames = []string{"id", "k", "xml:lang", "ns:attr", "Data", "v", "w"}

func (g *xmlGen) ws() string {
	switch g.r.Intn(8) {
	case 0:
		return " "
	case 1:
		return "\n"
	case 2:
		return "  "
	case 3:
		return "\t"
	case 4:
		return "\r\n "
	case 5:
		return " \n\t "
	}
	return ""
}

func (g *xmlGen) word() string {
	n := 1 + g.r.Intn(6)
	b := make([]byte, n)
	for i := range b {
		b[i] = g.r.Char("abcdefgxyzABC019-_.,;:!?()/=+*#%$@~^|{}[]`")
	}
	return string(b)
}

func (g *xmlGen) textPiece() string {
	r := g.r
	switch r.Intn(14) {
	case 0:
		return r.Pick([]string{"&lt;", "&amp;", "&gt;", "&quot;", "&apos;", "&#60;", "&#x3C;", "&#38;", "&#x26;", "&#62;", "&#160;", "&#xe9;", "&#8364;"})
	case 1:
		return r.Pick([]string{"&#32;", "&#9;", "&#10;", "&#x20;"}) // references to whitespace inside text
	case 2:
		if len(g.ents) > 0 {
			return "&" + r.Pick(g.ents) + ";"
		}
		return "x"
	case 3:
		return r.Pick([]string{">", "]", "]]", "'", "\"", "é", "€", " "})
	case 4, 5, 6:
		return g.ws()
	default:
		return g.word()
	}
}

func (g *xmlGen) text() string {
	var sb strings.Builder
	n := 1 + g.r.Intn(5)
	for i := 0; i < n; i++ {
		sb.WriteString(g.textPiece())
	}
	s := sb.String()
	// guard xml-text-cdata-end: a literal "]]>" (or "]]&gt;", which the minifier decodes) may not be generated in text
	for strings.Contains(s, "]]>") || strings.Contains(s, "]]&gt;") || strings.Contains(s, "]]&#62;") {
		s = strings.Replace(strings.Replace(strings.Replace(s, "]]>", "]] >", 1), "]]&gt;", "]] &gt;", 1), "]]&#62;", "]] &#62;", 1)
		g.guards["xml-text-cdata-end"]++
	}
	if strings.HasSuffix(s, "]]") || strings.HasSuffix(s, "]") {
		s += "."
	}
	return s
}

func (g *xmlGen) cdata() string {
	r := g.r
	var sb strings.Builder
	n := r.Intn(5)
	for i := 0; i < n; i++ {
		switch r.Intn(9) {
		case 0:
			sb.WriteString(r.Pick([]string{"<", "&", "<b>", "&amp;", "</a>", "<!--", "<<<<<", "&&&&"}))
		case 1:
			sb.WriteString(r.Pick([]string{"]", "]]", ">", "] ]>"}))
		case 2, 3:
			sb.WriteString(g.ws())
		default:
			sb.WriteString(g.word())
		}
	}
	s := sb.String()
	s = strings.ReplaceAll(s, "]]>", "]] >")
	return "<![CDATA[" + s + "]]>"
}

func (g *xmlGen) attrValue(q byte) string {
	r := g.r
	var sb strings.Builder
	n := r.Intn(5)
	for i := 0; i < n; i++ {
		switch r.Intn(12) {
		case 0:
			sb.WriteString(r.Pick([]string{"&lt;", "&amp;", "&gt;", "&quot;", "&apos;", "&#60;", "&#x3C;", "&#38;", "&#34;", "&#39;", "&#x27;", "&#x22;", "&#034;", "&#0034;", "&#x022;", "&#039;", "&#x0027;", "&#x3c;", "&#060;", "&#x0026;"}))
		case 1:
			sb.WriteString(r.Pick([]string{"&#9;", "&#10;", "&#13;", "&#xA;", "&#xD;", "&#x9;", "&#32;"}))
		case 2:
			if q == '"' {
				sb.WriteByte('\'')
			} else {
				sb.WriteByte('"')
			}
		case 3:
			if q == '"' {
				sb.WriteString(r.Pick([]string{"&quot;", "&#34;", "'", "&#x22;", "&#034;", "&#x0022;"})) // every spelling of the delimiter as a reference
			} else {
				sb.WriteString(r.Pick([]string{"&apos;", "&#39;", "\"", "&#x27;", "&#039;", "&#x0027;"}))
			}
		case 4:
			sb.WriteString(r.Pick([]string{" ", "  ", "\t", "\n", " \n "}))
		case 5:
			sb.WriteString(r.Pick([]string{">", "é", "=", "/", "]]>"}))
		case 6:
			if len(g.ents) > 0 {
				sb.WriteString("&" + r.Pick(g.ents) + ";")
			}
		default:
			sb.WriteString(g.word())
		}
	}
	return sb.String()
}

func (g *xmlGen) pi() string {
	r := g.r
	target := r.Pick([]string{"pi", "xml-stylesheet", "php", "target"})
	var sb strings.Builder
	sb.WriteString("<?" + target)
	n := r.Intn(3)
	for i := 0; i < n; i++ {
		sb.WriteString(r.Pick([]string{" ", "  ", "\n"}))
		sb.WriteString(r.Pick([]string{"href", "type", "a"}) + "=" + r.Pick([]string{`"x.css"`, `'text/xsl'`, `"a  b"`, `"1"`}))
	}
	if r.Chance(1, 4) {
		sb.WriteString(" ")
	}
	sb.WriteString("?>")
	return sb.String()
}

func (g *xmlGen) comment() string {
	return "<!--" + g.r.Pick([]string{"", " c ", "x", " <a> ", "&amp;", " - "}) + "-->"
}

func (g *xmlGen) element(depth int, sb *strings.Builder) {
	r := g.r
	name := r.Pick(xmlNames)
	sb.WriteString("<" + name)
	used := map[string]bool{}
	na := r.Intn(4)
	for i := 0; i < na; i++ {
		an := r.Pick(xmlAttrNames)
		if used[an] {
			continue
		}
		used[an] = true
		sb.WriteString(r.Pick([]string{" ", "  ", "\n"}))
		q := byte('"')
		if r.Chance(1, 3) {
			q = '\''
		}
		sb.WriteString(an)
		sb.WriteString(r.Pick([]string{"=", "=", " = "}))
		sb.WriteByte(q)
		sb.WriteString(g.attrValue(q))
		sb.WriteByte(q)
	}
	if r.Chance(1, 6) {
		sb.WriteString(r.Pick([]string{"/>", " />"}))
		return
	}
	sb.WriteString(r.Pick([]string{">", ">", " >"}))
	g.content(depth, sb)
	sb.WriteString("</" + name + r.Pick([]string{">", ">", " >"}))
}

func (g *xmlGen) content(depth int, sb *strings.Builder) {
	r := g.r
	n := r.Intn(6)
	for i := 0; i < n; i++ {
		k := r.Intn(12)
		switch {
		case k < 3:
			sb.WriteString(g.text())
		case k < 5:
			sb.WriteString(g.ws())
		case k < 6:
			sb.WriteString(g.cdata())
		case k < 7:
			sb.WriteString(g.comment())
			if r.Chance(1, 10) {
				for j := r.Range(6, 12); j > 0; j-- {
					sb.WriteString(r.Pick([]string{g.comment(), g.comment(), g.pi()}))
				}
			}
		case k < 8:
			sb.WriteString(g.pi())
		default:
			if depth > 0 {
				g.element(depth-1, sb)
			} else {
				sb.WriteString(g.word())
			}
		}
	}
}

func genXMLDoc(r *core.Rand, guards map[string]int) string {
	g := &xmlGen{r: r, guards: guards}
	var sb strings.Builder
	if r.Chance(1, 3) {
		sb.WriteString(r.Pick([]string{`<?xml version="1.0"?>`, `<?xml version="1.0" encoding="UTF-8"?>`, `<?xml  version='1.0'  standalone="yes" ?>`}))
		sb.WriteString(g.ws())
	}
	if r.Chance(1, 4) {
		if r.Chance(1, 2) {
			g.ents = []string{"e1", "e2"}
			// literals with white space runs, tabs and line breaks inside (they belong to the entity value)
			e1 := r.Pick([]string{"val one", "J.  Doe", "a\tb", "two\n  lines", " lead and trail "})
			sb.WriteString("<!DOCTYPE doc [\n<!ENTITY e1 \"" + e1 + "\">\n<!ENTITY e2 \"x&#38;y\">\n]>")
		} else {
			sb.WriteString(r.Pick([]string{`<!DOCTYPE doc SYSTEM "doc.dtd">`, `<!DOCTYPE doc PUBLIC "-//X//Y" "http://x/y.dtd">`, `<!DOCTYPE doc>`, `<!DOCTYPE doc SYSTEM "my  docs/doc.dtd">`, "<!DOCTYPE doc PUBLIC \"-//X//Y  Z\"\n  'http://x/a  b.dtd'>"}))
		}
		sb.WriteString(g.ws())
	}
	if r.Chance(1, 5) {
		sb.WriteString(g.comment() + g.ws())
	}
	g.element(1+r.Intn(4), &sb)
	if r.Chance(1, 4) {
		sb.WriteString(g.ws() + g.comment())
	}
	if r.Chance(1, 4) {
		sb.WriteString(g.ws() + g.pi())
	}
	sb.WriteString(g.ws())
	return sb.String()
}

// --------------- the check

type c06Guard struct{ name, why string }

// admission guards tied to known findings (see known_findings.json)
func c06Guarded(items []xItem) string {
	for _, it := range items {
		if it.kind == 'R' && strings.Contains(it.data, "]]>") {
			return "xml-text-cdata-end" // character data containing the sequence ]]> (known finding)
		}
	}
	return ""
}

// encoding/xml (wrongly) rejects ]]> inside attribute values; my tokenizer is the only judge for those documents
func attrHasCDEnd(items []xItem) bool {
	for _, it := range items {
		for _, a := range it.attrs {
			if strings.Contains(a.Raw, "]]>") {
				return true
			}
		}
	}
	return false
}

func c06Minify(in []byte, keep bool) ([]byte, error, string) {
	var out bytes.Buffer
	var err error
	pan := ""
	func() {
		defer func() {
			if r := recover(); r != nil {
				pan = fmt.Sprint(r)
			}
		}()
		o := &mxml.Minifier{KeepWhitespace: keep}
		err = o.Minify(minify.New(), &out, bytes.NewReader(in), nil)
	}()
	return out.Bytes(), err, pan
}

// c06Judge: "" ok, "INCONCLUSIVE", "GUARD:<name>", or violation text.
func c06Judge(in []byte, keep bool) (string, []byte) {
	evs, err := xmlTokenize(string(in))
	if err != nil {
		return "INCONCLUSIVE", nil
	}
	ents := xmlEntities(evs)
	ci, err := xmlCanon(evs, ents)
	if err != nil {
		return "INCONCLUSIVE", nil
	}
	skipStd := attrHasCDEnd(ci)
	if !skipStd && stdxmlWellFormed(in, ents) != nil {
		return "INCONCLUSIVE", nil
	}
	if g := c06Guarded(ci); g != "" {
		return "GUARD:" + g, nil
	}
	out, merr, pan := c06Minify(append([]byte{}, in...), keep)
	if pan != "" {
		return "panic: " + pan, out
	}
	if merr != nil {
		return "well-formed document rejected: " + merr.Error(), out
	}
	oevs, err := xmlTokenize(string(out))
	if err != nil {
		return "output is not well-formed: " + err.Error(), out
	}
	if !skipStd {
		if err := stdxmlWellFormed(out, ents); err != nil {
			return "output rejected by encoding/xml: " + err.Error(), out
		}
	}
	co, err := xmlCanon(oevs, ents)
	if err != nil {
		return "output has undecodable references: " + err.Error(), out
	}
	return xmlCompare(ci, co, keep), out
}

func C06(run *core.Run) {
	run.ReplayWitnesses(func(f core.Finding, w core.Witness) (bool, string) {
		keep := w.Extra["keepwhitespace"] == "true"
		in := []byte(w.Input)
		// replay bypasses the admission guards
		evs, err := xmlTokenize(string(in))
		if err != nil {
			return false, "witness not tokenizable"
		}
		ents := xmlEntities(evs)
		ci, _ := xmlCanon(evs, ents)
		out, merr, pan := c06Minify(append([]byte{}, in...), keep)
		if pan != "" || merr != nil {
			return true, "panic/error"
		}
		oevs, err := xmlTokenize(string(out))
		if err != nil {
			return true, "output not well-formed: " + err.Error()
		}
		if !attrHasCDEnd(ci) {
			if err := stdxmlWellFormed(out, ents); err != nil {
				return true, err.Error()
			}
		}
		co, err := xmlCanon(oevs, ents)
		if err != nil {
			return true, err.Error()
		}
		r := xmlCompare(ci, co, keep)
		return r != "", r
	})
	guards := map[string]int{}
	doCase := func(label string, in []byte, keep bool, g map[string]int) {
		run.Eval()
		cfg := fmt.Sprintf("xml keepwhitespace=%v", keep)
		res, out := c06Judge(in, keep)
		switch {
		case res == "":
			if !bytes.Equal(out, in) {
				run.NonTrivial([]byte(cfg), in)
			}
		case res == "INCONCLUSIVE":
			run.Inconclusive()
		case strings.HasPrefix(res, "GUARD:"):
			run.Count("guarded_out:" + res[6:])
		default:
			run.Violation(core.Key(cfg, in), fmt.Sprintf("%s [%s]: %s | in=%q out=%q", cfg, label, res, core.Trunc(string(in), 300), core.Trunc(string(out), 300)),
				map[string]interface{}{"config": cfg, "input": string(in), "output": string(out), "source": label})
		}
	}
	// exhaustive neighbour matrix around a whitespace run
	kinds := []string{"t", " ", "<![CDATA[c]]>", "<![CDATA[ ]]>", "<![CDATA[ c ]]>", "<!--m-->", "<?pi a=\"1\"?>", "<b>", "</b>", "<e/>"}
	nm := 0
	for _, x := range kinds {
		for _, y := range kinds {
			for _, z := range kinds {
				for _, w := range []string{" ", "\n ", ""} {
					doc := "<r>" + balance(x+w+y+w+z) + "</r>"
					for _, keep := range []bool{false, true} {
						doCase("matrix", []byte(doc), keep, guards)
						nm++
					}
				}
			}
		}
	}
	// long runs of nodes that the minifier looks past (comments, PIs, empty CDATA) between two words
	for L := 1; L <= 14; L++ {
		for _, unit := range []string{"<!--m-->", "<?pi a=\"1\"?>", "<![CDATA[]]>", "<!--m--><?p?>"} {
			run := strings.Repeat(unit, L)
			for _, doc := range []string{"<r>t " + run + "t</r>", "<r>t" + run + " t</r>", "<r>t " + run + "</r>", "<r><b>t </b>" + run + "t</r>", "<r>t " + run + "<b>t</b></r>", "<r>t " + run + " t</r>"} {
				for _, keep := range []bool{false, true} {
					doCase("runs", []byte(doc), keep, guards)
					nm++
				}
			}
		}
	}
	run.Set("neighbour_matrix_cases", nm)
	n := run.N(20000, 1000000)
	core.ParallelFor(n, 0, func(i int) {
		r := run.CaseRand("doc", i, n*3/5)
		g := map[string]int{}
		doc := genXMLDoc(r, g)
		if i < 3 {
			run.Sample(map[string]string{"source": "generated", "input": core.Trunc(doc, 400)})
		}
		doCase("gen", []byte(doc), false, g)
		doCase("gen", []byte(doc), true, g)
	})
	// repository XML files, whole
	nf := 0
	for _, f := range repoCorpus("text/xml", 4<<20) {
		nf++
		for _, keep := range []bool{false, true} {
			doCase("file:"+f.Name, f.Data, keep, guards)
		}
	}
	run.Set("corpus_files", nf)
	run.Finish("well-formed XML 1.0 documents: exhaustive neighbour matrix (every ordered triple of 10 node kinds around 3 whitespace runs) + seeded generated documents (mixed content, CDATA with markup characters and ]] fragments, attributes in both quote kinds with both quote characters and references incl. references to whitespace, internal DTD subset with entities, PIs, comments, XML declaration) + repository XML files; both KeepWhitespace values; a case is (config, document); non-trivial = accepted by both independent parsers and changed by the minifier",
		[]string{"my XML tokenizer + encoding/xml (strict) decide well-formedness", "PI data is compared up to whitespace outside quoted strings", "guards tied to known findings exclude: double-quoted attribute values containing references to tab/LF/CR; character data that would contain ]]> after decoding"}, 1000, false)
}

// balance closes/opens tags of a fragment so that the result is well formed inside <r>.
func balance(s string) string {
	opens := strings.Count(s, "<b>")
	closes := strings.Count(s, "</b>")
	// ensure every </b> has a preceding <b>
	depth := 0
	var sb strings.Builder
	i := 0
	for i < len(s) {
		if strings.HasPrefix(s[i:], "<b>") {
			depth++
			sb.WriteString("<b>")
			i += 3
		} else if strings.HasPrefix(s[i:], "</b>") {
			if depth == 0 {
				sb.WriteString("<b>")
				depth++
			}
			depth--
			sb.WriteString("</b>")
			i += 4
		} else {
			sb.WriteByte(s[i])
			i++
		}
	}
	for ; depth > 0; depth-- {
		sb.WriteString("</b>")
	}
	_, _ = opens, closes
	return sb.String()
}
