package checks

// C08 — Number / Decimal keep the numeric value.
// Monitors: canary redzones around the argument, grammar recogniser, exact
// decimal arithmetic (math/big) for the value, length, panic recovery.

import (
	"bytes"
	"fmt"
	"math/big"
	"strconv"
	"sync/atomic"

	"github.com/tdewolff/minify/v2"
	"verif/harness/core"
)

// dec is an exact decimal: (-1)^neg * m * 10^x
type dec struct {
	neg bool
	m   *big.Int
	x   *big.Int
}

// parseNumberLexeme recognises [+-]?(d+.?d*|.d+)([eE][+-]?d+)? and returns its
// exact value. allowExp=false rejects exponents (Decimal grammar).
func parseNumberLexeme(s []byte, allowExp bool) (dec, bool) {
	var d dec
	i := 0
	n := len(s)
	if i < n && (s[i] == '+' || s[i] == '-') {
		d.neg = s[i] == '-'
		i++
	}
	intStart := i
	for i < n && s[i] >= '0' && s[i] <= '9' {
		i++
	}
	intDigits := s[intStart:i]
	var frac []byte
	if i < n && s[i] == '.' {
		i++
		fs := i
		for i < n && s[i] >= '0' && s[i] <= '9' {
			i++
		}
		frac = s[fs:i]
	}
	if len(intDigits) == 0 && len(frac) == 0 {
		return d, false
	}
	exp := new(big.Int)
	if i < n && (s[i] == 'e' || s[i] == 'E') {
		if !allowExp {
			return d, false
		}
		i++
		eneg := false
		if i < n && (s[i] == '+' || s[i] == '-') {
			eneg = s[i] == '-'
			i++
		}
		es := i
		for i < n && s[i] >= '0' && s[i] <= '9' {
			i++
		}
		if es == i {
			return d, false
		}
		exp.SetString(string(s[es:i]), 10)
		if eneg {
			exp.Neg(exp)
		}
	}
	if i != n {
		return d, false
	}
	all := append(append([]byte{}, intDigits...), frac...)
	d.m = new(big.Int)
	d.m.SetString(string(all), 10)
	d.x = exp.Sub(exp, big.NewInt(int64(len(frac))))
	if d.m.Sign() == 0 {
		d.neg = false
		d.x = new(big.Int)
	}
	return d, true
}

var ten = big.NewInt(10)

// normalize strips trailing zeros of m into x (fresh big.Ints; d is not aliased).
func (d *dec) normalize() {
	if d.m.Sign() == 0 {
		d.m = new(big.Int)
		d.x = new(big.Int)
		d.neg = false
		return
	}
	s := d.m.String()
	k := 0
	for k < len(s)-1 && s[len(s)-1-k] == '0' {
		k++
	}
	nm := new(big.Int)
	nm.SetString(s[:len(s)-k], 10)
	d.m = nm
	d.x = new(big.Int).Add(d.x, big.NewInt(int64(k)))
}

func decEqual(a, b dec) bool {
	a.normalize()
	b.normalize()
	return a.neg == b.neg && a.m.Cmp(b.m) == 0 && a.x.Cmp(b.x) == 0
}

// withinHalfUnit: |a-b| <= 10^u / 2, where u is a (possibly huge) exponent.
func withinHalfUnit(a, b dec, u *big.Int) bool {
	// scale everything by 10^-lo where lo = min(a.x,b.x,u) ; gaps must be small
	lo := new(big.Int).Set(u)
	if a.m.Sign() != 0 && a.x.Cmp(lo) < 0 {
		lo.Set(a.x)
	}
	if b.m.Sign() != 0 && b.x.Cmp(lo) < 0 {
		lo.Set(b.x)
	}
	scale := func(m *big.Int, x *big.Int) (*big.Int, bool) {
		g := new(big.Int).Sub(x, lo)
		if !g.IsInt64() || g.Int64() > 5000 {
			return nil, false
		}
		return new(big.Int).Mul(m, new(big.Int).Exp(ten, g, nil)), true
	}
	am, ok1 := big.NewInt(0), true
	if a.m.Sign() != 0 {
		am, ok1 = scale(a.m, a.x)
		if a.neg && ok1 {
			am.Neg(am)
		}
	}
	bm, ok2 := big.NewInt(0), true
	if b.m.Sign() != 0 {
		bm, ok2 = scale(b.m, b.x)
		if b.neg && ok2 {
			bm.Neg(bm)
		}
	}
	um, ok3 := scale(big.NewInt(1), u)
	if !ok1 || !ok2 || !ok3 {
		return false
	}
	diff := new(big.Int).Sub(am, bm)
	diff.Abs(diff)
	diff.Mul(diff, big.NewInt(2))
	return diff.Cmp(um) <= 0
}

// unitExponent returns u such that 10^u is one unit of the p-th significant
// digit of d (d != 0): u = e - p + 1 with e the decimal exponent of the leading digit.
func unitExponent(d dec, p int) *big.Int {
	nd := len(d.m.String())
	e := new(big.Int).Add(d.x, big.NewInt(int64(nd-1)))
	return e.Sub(e, big.NewInt(int64(p-1)))
}

const c08Pad = 24

type c08Result struct {
	bad  string
	out  string
	prec int
	fn   string
}

// c08CheckOne runs fn on lexeme with precision p under the monitors.
func c08CheckOne(fnName string, lexeme []byte, p int, spare bool, scratch []byte) (out []byte, bad string) {
	n := len(lexeme)
	buf := scratch[:c08Pad+n+c08Pad]
	for i := range buf {
		buf[i] = 0xA5
	}
	copy(buf[c08Pad:], lexeme)
	var arg []byte
	if spare {
		arg = buf[c08Pad : c08Pad+n]
	} else {
		arg = buf[c08Pad : c08Pad+n : c08Pad+n]
	}
	var res []byte
	func() {
		defer func() {
			if r := recover(); r != nil {
				bad = fmt.Sprintf("panic: %v", r)
			}
		}()
		if fnName == "Number" {
			res = minify.Number(arg, p)
		} else {
			res = minify.Decimal(arg, p)
		}
	}()
	if bad != "" {
		return nil, bad
	}
	for i := 0; i < c08Pad; i++ {
		if buf[i] != 0xA5 || buf[c08Pad+n+i] != 0xA5 {
			return res, fmt.Sprintf("canary overwritten at offset %d relative to argument", map[bool]int{true: i - c08Pad, false: n + i}[buf[i] != 0xA5])
		}
	}
	if len(res) > n {
		return res, fmt.Sprintf("result longer than input (%d > %d)", len(res), n)
	}
	out = append([]byte{}, res...)
	// Decimal never *introduces* an exponent; an input that already has one keeps the full grammar
	allowExp := fnName == "Number" || bytes.ContainsAny(lexeme, "eE")
	in, ok := parseNumberLexeme(lexeme, allowExp)
	if !ok {
		return out, "" // outside the grammar: only totality/canary apply
	}
	o, ok := parseNumberLexeme(out, allowExp)
	if !ok {
		return out, "result is not a valid number of the grammar"
	}
	if decEqual(in, o) {
		return out, ""
	}
	if p <= 0 {
		return out, "value changed at precision " + strconv.Itoa(p)
	}
	if in.m.Sign() == 0 {
		return out, "zero became non-zero"
	}
	u := unitExponent(in, p)
	if fnName == "Decimal" && u.Sign() > 0 {
		u = new(big.Int) // only digits after the dot may be removed
	}
	if !withinHalfUnit(in, o, u) {
		return out, fmt.Sprintf("value further than half a unit (10^%s) of the last retained digit", u.String())
	}
	return out, ""
}

var c08Digits = []byte{'0', '1', '4', '5', '9'}

// enumLexemes calls f for every lexeme of the grammar with length <= L over the alphabet.
func enumLexemes(L int, f func([]byte)) {
	buf := make([]byte, 0, L+1)
	var digits func(b []byte, min, max int, k func([]byte))
	digits = func(b []byte, min, max int, k func([]byte)) {
		if min <= 0 {
			k(b)
		}
		if max <= 0 {
			return
		}
		for _, d := range c08Digits {
			digits(append(b, d), min-1, max-1, k)
		}
	}
	expo := func(b []byte) {
		f(b)
		rem := L - len(b)
		if rem < 2 {
			return
		}
		for _, e := range []byte{'e', 'E'} {
			b1 := append(b, e)
			for _, s := range []string{"", "+", "-"} {
				b2 := append(b1, s...)
				r := L - len(b2)
				if r < 1 {
					continue
				}
				digits(b2, 1, r, f)
			}
		}
	}
	for _, sign := range []string{"", "+", "-"} {
		b := append(buf[:0], sign...)
		rem := L - len(b)
		// d+ .? d*
		digits(b, 1, rem, func(b1 []byte) {
			expo(b1)
			if L-len(b1) >= 1 {
				b2 := append(b1, '.')
				digits(b2, 0, L-len(b2), expo)
			}
		})
		// .d+
		if rem >= 2 {
			b1 := append(b, '.')
			digits(b1, 1, L-len(b1), expo)
		}
	}
}

func c08RandomLexeme(r *core.Rand) []byte {
	var b []byte
	switch r.Intn(4) {
	case 0:
		b = append(b, '+')
	case 1:
		b = append(b, '-')
	}
	digs := func(n int) {
		mode := r.Intn(4)
		for i := 0; i < n; i++ {
			switch mode {
			case 0:
				b = append(b, byte('0'+r.Intn(10)))
			case 1:
				b = append(b, c08Digits[r.Intn(5)])
			case 2:
				if r.Chance(1, 8) {
					b = append(b, byte('0'+r.Intn(10)))
				} else {
					b = append(b, '9')
				}
			default:
				if r.Chance(1, 6) {
					b = append(b, byte('1'+r.Intn(9)))
				} else {
					b = append(b, '0')
				}
			}
		}
	}
	long := r.Chance(1, 5)
	lenOf := func() int {
		if long {
			return r.Intn(200)
		}
		return r.Intn(12)
	}
	switch r.Intn(3) {
	case 0:
		digs(1 + lenOf())
	case 1:
		digs(1 + lenOf())
		b = append(b, '.')
		digs(lenOf())
	default:
		b = append(b, '.')
		digs(1 + lenOf())
	}
	if r.Chance(1, 2) {
		b = append(b, "eE"[r.Intn(2)])
		switch r.Intn(3) {
		case 0:
			b = append(b, '+')
		case 1:
			b = append(b, '-')
		}
		switch r.Intn(6) {
		case 0:
			b = append(b, "9223372036854775807"...)
		case 1:
			b = append(b, "9223372036854775808"...)
		case 2:
			b = append(b, "9223372036854775"...)
			digs(3)
		case 3:
			digs(1 + r.Intn(25))
		default:
			digs(1 + r.Intn(3))
		}
	}
	return b
}

var c08Precs = []int{-1, 0, 1, 2, 3, 4, 5, 6, 7, 8, 9, 10, 11, 12, 13, 14, 15, 16, 17, 18, 19, 20}

func C08(run *core.Run) {
	L := run.N(6, 8)
	nRandom := run.N(200000, 3000000)

	type job struct{ lex []byte }
	// known finding replay
	run.ReplayWitnesses(func(f core.Finding, w core.Witness) (bool, string) {
		p, _ := strconv.Atoi(w.Extra["prec"])
		scratch := make([]byte, len(w.Input)+2*c08Pad)
		_, bad := c08CheckOne(w.Extra["fn"], []byte(w.Input), p, false, scratch)
		return bad != "", bad
	})

	var lexCount, calls, rounded int64
	// exhaustive part: collect in chunks and fan out
	const chunk = 4096
	jobs := make(chan [][]byte, 64)
	done := make(chan struct{})
	workers := 16
	for w := 0; w < workers; w++ {
		go func() {
			scratch := make([]byte, 1024)
			for batch := range jobs {
				for _, lex := range batch {
					hasExp := bytes.IndexAny(lex, "eE") >= 0
					for _, fn := range []string{"Number", "Decimal"} {
						_ = hasExp
						nt := false
						for _, p := range c08Precs {
							for _, spare := range []bool{false, true} {
								if spare && p > 2 {
									continue
								}
								out, bad := c08CheckOne(fn, lex, p, spare, scratch)
								atomic.AddInt64(&calls, 1)
								if bad != "" {
									cfg := fmt.Sprintf("%s prec=%d", fn, p)
									run.Violation(core.Key(cfg, lex), fmt.Sprintf("%s(%q,%d) = %q: %s", fn, lex, p, out, bad),
										map[string]interface{}{"fn": fn, "prec": p, "input": string(lex), "output": string(out)})
								} else if !bytes.Equal(out, lex) {
									nt = true
									if p > 0 {
										atomic.AddInt64(&rounded, 1)
									}
								}
							}
						}
						run.Eval()
						if nt {
							run.NonTrivial([]byte(fn), lex)
						}
					}
				}
			}
			done <- struct{}{}
		}()
	}
	var cur [][]byte
	push := func(b []byte) {
		cur = append(cur, append([]byte{}, b...))
		lexCount++
		if len(cur) == chunk {
			jobs <- cur
			cur = nil
		}
	}
	enumLexemes(L, push)
	exhaustiveCount := lexCount
	// random part
	for i := 0; i < nRandom; i++ {
		r := run.CaseRand("rand", i, nRandom/2)
		lex := c08RandomLexeme(r)
		if len(lex) > 900 {
			continue
		}
		push(lex)
		if i < 3 {
			run.Sample(map[string]string{"kind": "random", "lexeme": string(lex)})
		}
	}
	if len(cur) > 0 {
		jobs <- cur
	}
	close(jobs)
	for w := 0; w < workers; w++ {
		<-done
	}
	run.Set("exhaustive_length_bound", L)
	run.Set("exhaustive_lexemes", exhaustiveCount)
	run.Set("random_lexemes", lexCount-exhaustiveCount)
	run.Set("helper_calls", calls)
	run.Set("calls_where_precision_changed_text", rounded)
	run.Set("precisions", c08Precs)
	run.Sample(map[string]interface{}{"kind": "exhaustive", "example": "-.0450E+19", "alphabet": "0 1 4 5 9 + - . e E"})
	run.Finish(fmt.Sprintf("every lexeme of [+-]?(d+.?d*|.d+)([eE][+-]?d+)? with length<=%d over digits {0,1,4,5,9} (exhaustive) plus seeded random lexemes up to 400 digits with exponents up to 2^63, each through Number and Decimal (which must not introduce an exponent into an exponent-free lexeme) at 22 precisions, with and without spare capacity; a case is (helper, lexeme); non-trivial = the helper changed the text for at least one precision", L), []string{
		"math/big is the arithmetic oracle",
		"half-unit tolerance computed from the input's leading digit position; Decimal never removes integer digits",
	}, 1000, false)
}
