package checks

// A small XML 1.0 tokenizer of my own (independent of tdewolff/parse), used by the
// XML and SVG oracles. It keeps attribute values raw so that literal whitespace and
// character references can be told apart (attribute-value normalisation).

import (
	"fmt"
	"regexp"
	"strconv"
	"strings"
)

var xmlDeclRe = regexp.MustCompile(`^\s+version\s*=\s*("1\.[0-9]+"|'1\.[0-9]+')(\s+encoding\s*=\s*("[A-Za-z][-A-Za-z0-9._]*"|'[A-Za-z][-A-Za-z0-9._]*'))?(\s+standalone\s*=\s*("yes"|"no"|'yes'|'no'))?\s*$`)
var doctypeHeadRe = regexp.MustCompile(`^<!DOCTYPE\s+[A-Za-z_:][-\w:.]*(\s+(SYSTEM\s+("[^"]*"|'[^']*')|PUBLIC\s+("[^"]*"|'[^']*')\s+("[^"]*"|'[^']*')))?\s*(\[[\s\S]*\]\s*)?>$`)

type xAttr struct {
	Name  string
	Raw   string // raw value without quotes
	Quote byte
}

type xEvent struct {
	Kind  byte // 'S' start, 'E' end, 'T' text(raw), 'C' cdata(raw), 'M' comment, 'P' pi, 'D' doctype
	Name  string
	Attrs []xAttr
	Data  string
	Empty bool // start tag written as <a/>
}

func isXMLSpace(c byte) bool { return c == ' ' || c == '\t' || c == '\n' || c == '\r' }

func isNameByte(c byte) bool {
	return c >= 'a' && c <= 'z' || c >= 'A' && c <= 'Z' || c >= '0' && c <= '9' || c == '_' || c == ':' || c == '-' || c == '.' || c >= 0x80
}

// xmlTokenize tokenizes a well-formed document; error otherwise.
func xmlTokenize(s string) ([]xEvent, error) {
	// production Char: no control characters other than tab, line feed and carriage return anywhere in the document
	for k := 0; k < len(s); k++ {
		if c := s[k]; c < 0x20 && c != '\t' && c != '\n' && c != '\r' {
			return nil, fmt.Errorf("illegal control character 0x%02x at %d", c, k)
		}
	}
	var evs []xEvent
	i, n := 0, len(s)
	var stack []string
	for i < n {
		if s[i] != '<' {
			j := strings.IndexByte(s[i:], '<')
			if j < 0 {
				j = n - i
			}
			t := s[i : i+j]
			if strings.Contains(t, "]]>") {
				return nil, fmt.Errorf("]]> in character data at %d", i)
			}
			if k := strings.IndexByte(t, '&'); k >= 0 {
				// every & must start a reference
				for k >= 0 {
					e := strings.IndexByte(t[k:], ';')
					if e < 0 || e < 2 {
						return nil, fmt.Errorf("bare & in text at %d", i+k)
					}
					nk := strings.IndexByte(t[k+1:], '&')
					if nk < 0 {
						break
					}
					k = k + 1 + nk
				}
			}
			evs = append(evs, xEvent{Kind: 'T', Data: t})
			i += j
			continue
		}
		switch {
		case strings.HasPrefix(s[i:], "<!--"):
			e := strings.Index(s[i+4:], "-->")
			if e < 0 {
				return nil, fmt.Errorf("unterminated comment at %d", i)
			}
			evs = append(evs, xEvent{Kind: 'M', Data: s[i+4 : i+4+e]})
			i += 4 + e + 3
		case strings.HasPrefix(s[i:], "<![CDATA["):
			e := strings.Index(s[i+9:], "]]>")
			if e < 0 {
				return nil, fmt.Errorf("unterminated CDATA at %d", i)
			}
			evs = append(evs, xEvent{Kind: 'C', Data: s[i+9 : i+9+e]})
			i += 9 + e + 3
		case strings.HasPrefix(s[i:], "<?"):
			e := strings.Index(s[i+2:], "?>")
			if e < 0 {
				return nil, fmt.Errorf("unterminated PI at %d", i)
			}
			body := s[i+2 : i+2+e]
			k := 0
			for k < len(body) && isNameByte(body[k]) {
				k++
			}
			if k == 0 {
				return nil, fmt.Errorf("PI without target at %d", i)
			}
			if strings.EqualFold(body[:k], "xml") {
				if body[:k] != "xml" || i != 0 || !xmlDeclRe.MatchString(body[k:]) {
					return nil, fmt.Errorf("malformed or misplaced XML declaration")
				}
			}
			evs = append(evs, xEvent{Kind: 'P', Name: body[:k], Data: strings.TrimLeft(body[k:], " \t\r\n")})
			i += 2 + e + 2
		case strings.HasPrefix(s[i:], "<!DOCTYPE"):
			// up to matching '>' outside [ ] and quotes
			j := i + 9
			depth := 0
			var q byte
			for j < n {
				c := s[j]
				if q != 0 {
					if c == q {
						q = 0
					}
				} else if c == '"' || c == '\'' {
					q = c
				} else if c == '[' {
					depth++
				} else if c == ']' {
					depth--
				} else if c == '>' && depth == 0 {
					break
				}
				j++
			}
			if j >= n {
				return nil, fmt.Errorf("unterminated DOCTYPE")
			}
			dt := s[i : j+1]
			if !doctypeHeadRe.MatchString(dt) {
				return nil, fmt.Errorf("malformed DOCTYPE")
			}
			if k := strings.IndexByte(dt, '['); k >= 0 {
				// internal subset: only markup declarations, comments, PIs, PE references and whitespace
				e := strings.LastIndexByte(dt, ']')
				if e < k {
					return nil, fmt.Errorf("unterminated internal subset")
				}
				sub := dt[k+1 : e]
				if err := checkInternalSubset(sub); err != nil {
					return nil, err
				}
			}
			evs = append(evs, xEvent{Kind: 'D', Data: dt})
			i = j + 1
		case strings.HasPrefix(s[i:], "</"):
			j := i + 2
			for j < n && isNameByte(s[j]) {
				j++
			}
			name := s[i+2 : j]
			for j < n && isXMLSpace(s[j]) {
				j++
			}
			if j >= n || s[j] != '>' || name == "" {
				return nil, fmt.Errorf("bad end tag at %d", i)
			}
			if len(stack) == 0 || stack[len(stack)-1] != name {
				return nil, fmt.Errorf("mismatched end tag </%s> at %d", name, i)
			}
			stack = stack[:len(stack)-1]
			evs = append(evs, xEvent{Kind: 'E', Name: name})
			i = j + 1
		default:
			j := i + 1
			for j < n && isNameByte(s[j]) {
				j++
			}
			name := s[i+1 : j]
			if name == "" {
				return nil, fmt.Errorf("bad start tag at %d", i)
			}
			ev := xEvent{Kind: 'S', Name: name}
			seen := map[string]bool{}
			for {
				k := j
				for j < n && isXMLSpace(s[j]) {
					j++
				}
				if j >= n {
					return nil, fmt.Errorf("unterminated start tag at %d", i)
				}
				if s[j] == '>' {
					j++
					break
				}
				if s[j] == '/' && j+1 < n && s[j+1] == '>' {
					ev.Empty = true
					j += 2
					break
				}
				if k == j {
					return nil, fmt.Errorf("missing whitespace between attributes at %d", j)
				}
				a := j
				for j < n && isNameByte(s[j]) {
					j++
				}
				an := s[a:j]
				if an == "" {
					return nil, fmt.Errorf("bad attribute name at %d", j)
				}
				for j < n && isXMLSpace(s[j]) {
					j++
				}
				if j >= n || s[j] != '=' {
					return nil, fmt.Errorf("attribute %s without value at %d", an, j)
				}
				j++
				for j < n && isXMLSpace(s[j]) {
					j++
				}
				if j >= n || (s[j] != '"' && s[j] != '\'') {
					return nil, fmt.Errorf("unquoted attribute value at %d", j)
				}
				q := s[j]
				e := strings.IndexByte(s[j+1:], q)
				if e < 0 {
					return nil, fmt.Errorf("unterminated attribute value at %d", j)
				}
				raw := s[j+1 : j+1+e]
				if strings.IndexByte(raw, '<') >= 0 {
					return nil, fmt.Errorf("< in attribute value at %d", j)
				}
				if seen[an] {
					return nil, fmt.Errorf("duplicate attribute %s", an)
				}
				seen[an] = true
				ev.Attrs = append(ev.Attrs, xAttr{an, raw, q})
				j += e + 2
			}
			evs = append(evs, ev)
			if ev.Empty {
				evs = append(evs, xEvent{Kind: 'E', Name: name})
			} else {
				stack = append(stack, name)
			}
			i = j
		}
	}
	if len(stack) != 0 {
		return nil, fmt.Errorf("unclosed element %s", stack[len(stack)-1])
	}
	return evs, nil
}

var xmlPredef = map[string]string{"lt": "<", "gt": ">", "amp": "&", "quot": "\"", "apos": "'"}

// xmlExpand expands character and entity references. In attribute mode literal
// tab/newline/CR become a space first (attribute-value normalisation); characters
// coming from character references are kept as they are.
func xmlExpand(raw string, ents map[string]string, attr bool) (string, error) {
	var sb strings.Builder
	for i := 0; i < len(raw); i++ {
		c := raw[i]
		if c == '&' {
			e := strings.IndexByte(raw[i:], ';')
			if e < 0 {
				return "", fmt.Errorf("bare &")
			}
			ref := raw[i+1 : i+e]
			i += e
			if strings.HasPrefix(ref, "#x") {
				v, err := strconv.ParseUint(ref[2:], 16, 32)
				if err != nil {
					return "", err
				}
				if !xmlLegalChar(v) {
					return "", fmt.Errorf("character reference to an illegal character &#x%x;", v)
				}
				sb.WriteRune(rune(v))
			} else if strings.HasPrefix(ref, "#") {
				v, err := strconv.ParseUint(ref[1:], 10, 32)
				if err != nil {
					return "", err
				}
				if !xmlLegalChar(v) {
					return "", fmt.Errorf("character reference to an illegal character &#%d;", v)
				}
				sb.WriteRune(rune(v))
			} else if v, ok := xmlPredef[ref]; ok {
				sb.WriteString(v)
			} else if v, ok := ents[ref]; ok {
				x, err := xmlExpand(v, nil, attr)
				if err != nil {
					return "", err
				}
				sb.WriteString(x)
			} else {
				return "", fmt.Errorf("undefined entity %s", ref)
			}
			continue
		}
		if attr && (c == '\t' || c == '\n' || c == '\r') {
			if c == '\r' && i+1 < len(raw) && raw[i+1] == '\n' {
				i++
			}
			c = ' '
		} else if !attr && c == '\r' {
			if i+1 < len(raw) && raw[i+1] == '\n' {
				i++
			}
			c = '\n'
		}
		sb.WriteByte(c)
	}
	return sb.String(), nil
}

// xmlLegalChar: production Char of XML 1.0.
func xmlLegalChar(v uint64) bool {
	return v == 0x9 || v == 0xA || v == 0xD || v >= 0x20 && v <= 0xD7FF || v >= 0xE000 && v <= 0xFFFD || v >= 0x10000 && v <= 0x10FFFF
}

// collapseWS collapses whitespace runs to one space and trims.
func collapseWS(s string) string {
	return strings.Join(strings.FieldsFunc(s, func(r rune) bool { return r == ' ' || r == '\t' || r == '\n' || r == '\r' }), " ")
}

// collapse whitespace outside quotes (PI pseudo-attributes)
func collapseOutsideQuotes(s string) string {
	var sb strings.Builder
	var q byte
	pendingSpace := false
	for i := 0; i < len(s); i++ {
		c := s[i]
		if q != 0 {
			sb.WriteByte(c)
			if c == q {
				q = 0
			}
			continue
		}
		if isXMLSpace(c) {
			pendingSpace = true
			continue
		}
		if pendingSpace && sb.Len() > 0 && c != '=' && !strings.HasSuffix(sb.String(), "=") {
			sb.WriteByte(' ')
		}
		pendingSpace = false
		if c == '"' || c == '\'' {
			q = c
		}
		sb.WriteByte(c)
	}
	return sb.String()
}

func checkInternalSubset(sub string) error {
	i := 0
	for i < len(sub) {
		c := sub[i]
		switch {
		case isXMLSpace(c):
			i++
		case c == '%':
			e := strings.IndexByte(sub[i:], ';')
			if e < 0 {
				return fmt.Errorf("bad PE reference in internal subset")
			}
			i += e + 1
		case strings.HasPrefix(sub[i:], "<!--"):
			e := strings.Index(sub[i+4:], "-->")
			if e < 0 {
				return fmt.Errorf("unterminated comment in internal subset")
			}
			i += e + 7
		case strings.HasPrefix(sub[i:], "<?"):
			e := strings.Index(sub[i:], "?>")
			if e < 0 {
				return fmt.Errorf("unterminated PI in internal subset")
			}
			i += e + 2
		case strings.HasPrefix(sub[i:], "<!ENTITY") || strings.HasPrefix(sub[i:], "<!ELEMENT") || strings.HasPrefix(sub[i:], "<!ATTLIST") || strings.HasPrefix(sub[i:], "<!NOTATION"):
			j := i
			var q byte
			for j < len(sub) {
				if q != 0 {
					if sub[j] == q {
						q = 0
					}
				} else if sub[j] == '"' || sub[j] == '\'' {
					q = sub[j]
				} else if sub[j] == '>' {
					break
				} else if sub[j] == '<' && j > i {
					return fmt.Errorf("< inside markup declaration")
				}
				j++
			}
			if j >= len(sub) {
				return fmt.Errorf("unterminated markup declaration in internal subset")
			}
			i = j + 1
		default:
			return fmt.Errorf("unexpected content in internal subset at %d", i)
		}
	}
	return nil
}
