package checks

// G-js-closed: seeded generator of deterministic, terminating JS programs whose
// behaviour is observable through the host function h(). Names follow pools per
// declaration kind so that var/let/const never clash; shadowing happens across
// functions and nested blocks. Loops have literal bounds, functions only call
// functions declared before them (no recursion).

import (
	"fmt"
	"strings"

	"verif/harness/core"
)

type jsVar struct {
	name  string
	kind  string // var let const param func class catch
	konst bool   // not assignable by generated code (const, loop counters)
}

type jsScope struct {
	vars   []jsVar
	parent *jsScope
	fn     bool
	used   map[string]bool // function scopes: every var/function/lexical name ever declared inside (never reused: no Annex B clashes)
}

func (g *jsGen) fnScope() *jsScope {
	s := g.sc
	for s.parent != nil && !s.fn {
		s = s.parent
	}
	if s.used == nil {
		s.used = map[string]bool{}
	}
	return s
}

type jsGen struct {
	r             *core.Rand
	strict        bool
	module        bool
	sc            *jsScope
	depth         int
	fnDepth       int
	inLoop        int
	inFunc        int
	simpleParams  bool // no parameter list generated so far has defaults, patterns or rest
	nonSimpleSeen bool
	labels        []string
	site          int
	budget        int
	counter       map[string]int
	inGen         bool
	inAsync       bool
	inClassCtor   bool
	inClass       int
	sloppy        bool // program-level mode
	inObjMethod   int  // guard js-objmethod-nested-object: no identifier-valued object literals inside methods of object literals
}

func (g *jsGen) push(fn bool) { g.sc = &jsScope{parent: g.sc, fn: fn} }
func (g *jsGen) pop()         { g.sc = g.sc.parent }

func (g *jsGen) declare(kind string) string {
	prefix := map[string]string{"var": "v", "let": "l", "const": "c", "param": "p", "func": "f", "class": "K", "catch": "e"}[kind]
	// names are drawn from a small pool per kind so that inner scopes shadow outer ones
	for try := 0; try < 20; try++ {
		n := fmt.Sprintf("%s%d", prefix, g.r.Intn(6))
		if kind == "var" || kind == "func" {
			// var/function names must be unique within the function and must not collide with lexical names of enclosing blocks of that function
			if g.visibleInFunction(n) || g.fnScope().used[n] {
				continue
			}
		} else if g.declaredHere(n) || g.fnScope().used[n] && kind != "param" {
			// lexical names are unique per function too: a later `let x` in a block would put earlier references to an outer x into its TDZ
			continue
		}
		g.fnScope().used[n] = true
		g.sc.vars = append(g.sc.vars, jsVar{n, kind, kind == "const" || kind == "class" && false})
		return n
	}
	g.counter[prefix]++
	n := fmt.Sprintf("%s_%d", prefix, g.counter[prefix])
	g.fnScope().used[n] = true
	g.sc.vars = append(g.sc.vars, jsVar{n, kind, kind == "const"})
	return n
}

func (g *jsGen) hoistedInFunction(n string) bool { return len(n) > 0 && (n[0] == 'v' || n[0] == 'f') }

func (g *jsGen) declaredHere(n string) bool {
	for _, v := range g.sc.vars {
		if v.name == n {
			return true
		}
	}
	return false
}

func (g *jsGen) visibleInFunction(n string) bool {
	for s := g.sc; s != nil; s = s.parent {
		for _, v := range s.vars {
			if v.name == n {
				return true
			}
		}
		if s.fn {
			break
		}
	}
	return false
}

func (g *jsGen) visible(writable bool) []jsVar {
	seen := map[string]bool{}
	var out []jsVar
	for s := g.sc; s != nil; s = s.parent {
		for i := len(s.vars) - 1; i >= 0; i-- {
			v := s.vars[i]
			if seen[v.name] {
				continue
			}
			seen[v.name] = true
			if writable && (v.konst || v.kind == "func" || v.kind == "class") {
				continue
			}
			out = append(out, v)
		}
	}
	return out
}

func (g *jsGen) someVar(writable bool) string {
	vs := g.visible(writable)
	if len(vs) == 0 {
		if writable {
			return "G" + fmt.Sprint(g.r.Intn(3)) // implicit/explicit global (declared by prologue)
		}
		return g.r.Pick([]string{"G0", "G1", "G2"})
	}
	return vs[g.r.Intn(len(vs))].name
}

func (g *jsGen) callable() string {
	var fs []string
	for s := g.sc; s != nil; s = s.parent {
		for _, v := range s.vars {
			if v.kind == "func" {
				fs = append(fs, v.name)
			}
		}
	}
	if len(fs) == 0 {
		return ""
	}
	return fs[g.r.Intn(len(fs))]
}

// freeze marks a variable as read-only for the generator (loop counters must not be disturbed: termination)
func (g *jsGen) freeze(name string) {
	for s := g.sc; s != nil; s = s.parent {
		for i := range s.vars {
			if s.vars[i].name == name {
				s.vars[i].konst = true
				return
			}
		}
	}
}

func (g *jsGen) nextSite() string { g.site++; return fmt.Sprintf("%d", g.site) }

// ---------------------------------------------------------------- literals

func (g *jsGen) number() string {
	r := g.r
	switch r.Intn(22) {
	case 0:
		return "0"
	case 1:
		return fmt.Sprint(r.Intn(10))
	case 2:
		return fmt.Sprint(r.Intn(100000))
	case 3:
		return fmt.Sprintf("%d.%d", r.Intn(100), r.Intn(1000))
	case 4:
		return fmt.Sprintf(".%d", 1+r.Intn(999))
	case 5:
		return fmt.Sprintf("%de%d", 1+r.Intn(99), r.Intn(6))
	case 6:
		return fmt.Sprintf("%d.%de-%d", r.Intn(10), r.Intn(100), 1+r.Intn(5))
	case 7:
		return fmt.Sprintf("0x%X", r.Intn(70000))
	case 8:
		return fmt.Sprintf("0b%b", r.Intn(300))
	case 9:
		return fmt.Sprintf("0o%o", r.Intn(3000))
	case 10:
		return "1_000" + fmt.Sprint(r.Intn(10))
	case 11:
		return fmt.Sprintf("%d000000", 1+r.Intn(9))
	case 12:
		return r.Pick([]string{"1e21", "1e-7", "123456789012345680000", "0.000001", "9007199254740993", "1.0", "5.", "0.50", "100", "1000", "10000", "0xff", "1e3", "1E3", "0.1e2"})
	case 13:
		if !g.strict {
			return r.Pick([]string{"017", "08", "09", "0777"})
		}
		return "15"
	case 14:
		return fmt.Sprint(r.Intn(1000)) // (BigInt literals are not mixed into arithmetic: guard js-bigint-mix-dropped)
	case 15:
		return r.Pick([]string{"Infinity", "NaN", "(-0)", "(-1)", "(-Infinity)"})
	default:
		return fmt.Sprint(r.Intn(20))
	}
}

func (g *jsGen) str() string {
	r := g.r
	var sb strings.Builder
	q := r.Pick([]string{"'", "\"", "'", "\""})
	n := r.Intn(6)
	sb.WriteString(q)
	numericEsc := false // guard js-escape-digit-adjacency: a numeric escape (\0, \1, \07, \101) is never followed by a digit and never ends a string
	for i := 0; i < n; i++ {
		k := r.Intn(16)
		if numericEsc {
			sb.WriteByte(r.Char("abcxyz_-+*/ "))
			numericEsc = false
			continue
		}
		switch k {
		case 0:
			e := r.Pick([]string{"\\n", "\\t", "\\\\", "\\r", "\\0", "\\b", "\\v", "\\f"})
			sb.WriteString(e)
			numericEsc = e == "\\0"
		case 1:
			sb.WriteString(r.Pick([]string{"\\x41", "\\x3C", "\\u0041", "\\u{1F600}", "\\u2028", "\\u00e9", "\\x00", "\\x0a"}))
			numericEsc = true // \x00 may be re-written as \0
		case 2:
			if q == "'" {
				sb.WriteString(r.Pick([]string{"\"", "\\'"}))
			} else {
				sb.WriteString(r.Pick([]string{"'", "\\\""}))
			}
		case 3:
			sb.WriteString(r.Pick([]string{"</script>", "<!--", "-->", "${x}", "`", "</SCRIPT", "\\`", "$"}))
		case 4:
			sb.WriteString(r.Pick([]string{"é", "€", " ", "😀"}))
		case 5:
			if !g.strict {
				sb.WriteString(r.Pick([]string{"\\1", "\\07", "\\101"}))
				numericEsc = true
			} else {
				sb.WriteString("x")
			}
		case 6:
			sb.WriteString("\\\n")
		case 7:
			sb.WriteString(" ")
		default:
			sb.WriteByte(r.Char("abcxyz0123456789_-+*/"))
		}
	}
	if numericEsc {
		sb.WriteByte('.')
	}
	sb.WriteString(q)
	return sb.String()
}

func (g *jsGen) template() string {
	r := g.r
	var sb strings.Builder
	sb.WriteString("`")
	n := r.Intn(4)
	for i := 0; i < n; i++ {
		switch r.Intn(6) {
		case 0:
			sb.WriteString("${" + g.expr(1) + "}")
		case 1:
			sb.WriteString(r.Pick([]string{"\\`", "\\${", "$", "\\n", "\n", "'", "\"", "\\u0041", "</script>"}))
		default:
			sb.WriteByte(r.Char("abc xyz019"))
		}
	}
	sb.WriteString("`")
	return sb.String()
}

func (g *jsGen) regex() string {
	return g.r.Pick([]string{"/a+b/", "/[/]\\//g", "/\\d+/i", "/[a-z]*/gi", "/x|y/", "/\\//", "/[\\]]/", "/(?:a)(b)\\1/", "/^$/m", "/\\u0041/u", "/a{2,3}/", "/[^/]/y", "/\\./s"})
}

func (g *jsGen) literal() string {
	r := g.r
	switch r.Intn(14) {
	case 0, 1, 2, 3:
		return g.number()
	case 4, 5, 6:
		return g.str()
	case 7:
		return g.template()
	case 8:
		return r.Pick([]string{"true", "false", "!0", "!1"})
	case 9:
		return r.Pick([]string{"null", "undefined", "void 0"})
	case 10:
		return g.regex()
	case 11:
		return g.arrayLit()
	default:
		return g.objectLit()
	}
}

func (g *jsGen) arrayLit() string {
	if g.inObjMethod > 0 {
		return g.r.Pick([]string{"[]", "[1,2]", "[\"a\"]", "[[3]]"}) // guard js-objmethod-nested-object: no identifiers inside array/object literals in object-literal methods
	}
	n := g.r.Intn(4)
	var parts []string
	for i := 0; i < n; i++ {
		switch g.r.Intn(8) {
		case 0:
			parts = append(parts, "")
		case 1:
			parts = append(parts, "..."+g.arrayish())
		default:
			parts = append(parts, g.expr(1))
		}
	}
	s := "[" + strings.Join(parts, ",") + "]"
	if n > 0 && parts[n-1] == "" {
		s = "[" + strings.Join(parts, ",") + ",]"
	}
	return s
}

func (g *jsGen) arrayish() string {
	if g.inObjMethod > 0 {
		return g.r.Pick([]string{"[1,2]", "[]", "\"ab\"", "[3,[4]]"})
	}
	return g.r.Pick([]string{"[1,2]", "[]", "\"ab\"", "[" + g.someVar(false) + "]", "[3,[4]]"})
}

func (g *jsGen) propKey() string {
	r := g.r
	switch r.Intn(10) {
	case 0:
		return "\"" + r.Pick([]string{"a", "b-c", "0", "1e3", "if", "a b", "__proto__x", "x"}) + "\""
	case 1:
		return r.Pick([]string{"0", "1", "10", "1.5", "0x10", "1e3"})
	case 2:
		return "[" + g.expr(1) + "]"
	case 3:
		return r.Pick([]string{"if", "do", "in", "class", "get", "set", "static", "async", "await", "yield", "let", "of", "new", "var"})
	default:
		return r.Pick([]string{"a", "b", "c", "x", "y", "k", "len", "val"})
	}
}

func (g *jsGen) objectLit() string {
	r := g.r
	if g.inObjMethod > 0 {
		return r.Pick([]string{"{}", "{a:1}", "{a:1,b:\"s\"}", "{x:[1,2]}"})
	}
	n := r.Intn(4)
	var parts []string
	for i := 0; i < n; i++ {
		switch r.Intn(10) {
		case 0:
			v := g.someVar(false)
			if r.Chance(1, 4) {
				v = r.Pick([]string{"undefined", "Infinity", "NaN"}) // shorthand for a global the minifier spells differently
			}
			parts = append(parts, v) // shorthand
		case 1:
			parts = append(parts, "..."+r.Pick([]string{"{a:1}", "{}", "null", g.someVar(false)}))
		case 2:
			g.inObjMethod++
			parts = append(parts, "get "+r.Pick([]string{"a", "g", "x"})+"(){h("+g.nextSite()+",\"get\");return "+g.expr(1)+"}")
			g.inObjMethod--
		case 3:
			parts = append(parts, "set "+r.Pick([]string{"a", "s", "x"})+"(w){h("+g.nextSite()+",w)}")
		case 4:
			g.inObjMethod++
			g.push(true)
			ps := g.params(false)
			parts = append(parts, g.propKey()+"("+ps+"){"+g.funcBodyInline()+"}")
			g.pop()
			g.inObjMethod--
		default:
			parts = append(parts, g.propKey()+":"+g.expr(1))
		}
	}
	return "{" + strings.Join(parts, ",") + "}"
}

// ---------------------------------------------------------------- expressions

var jsBinOps = []string{"+", "-", "*", "/", "%", "**", "<<", ">>", ">>>", "&", "|", "^", "<", ">", "<=", ">=", "==", "!=", "===", "!==", "&&", "||", "??", "in", "instanceof", ","}

func (g *jsGen) expr(d int) string {
	r := g.r
	g.budget--
	if d > 4 || g.budget < 0 {
		if r.Chance(1, 2) {
			return g.someVar(false)
		}
		return g.number()
	}
	switch r.Intn(40) {
	case 0, 1, 2, 3:
		return g.someVar(false)
	case 4, 5, 6:
		return g.literal()
	case 7, 8, 9, 10, 11:
		op := r.Pick(jsBinOps)
		a, b := g.expr(d+1), g.expr(d+1)
		if op == "in" {
			b = r.Pick([]string{"{a:1}", "[1,2]", g.objectLit()})
		}
		if op == "instanceof" {
			b = r.Pick([]string{"Object", "Array", "Function", "Error"})
		}
		if op == "in" || op == "instanceof" {
			// the right operand must stay an object / a constructor whatever surrounds it: an operator that
			// binds tighter (`x instanceof Array>>>y`) makes the expression throw a TypeError, and expressions
			// that throw from operators on non-call operands are the recorded js-bigint-mix-dropped family
			return "(" + g.paren(a) + " " + op + " (" + b + "))"
		}
		if op == "??" || op == "**" {
			// mixing ?? with ||/&& and unary with ** needs parentheses: generate them
			return "((" + a + ")" + op + "(" + b + "))"
		}
		if op == "," {
			return "(" + g.paren(a) + op + g.paren(b) + ")"
		}
		if r.Chance(1, 3) {
			return "(" + a + ")" + op + "(" + b + ")"
		}
		sp := r.Pick([]string{"", " "})
		if op == "in" || op == "instanceof" {
			sp = " "
		}
		// adjacency hazards: a + +b, a - -b, a+ ++b
		if (op == "+" || op == "-") && r.Chance(1, 4) {
			return g.paren(a) + " " + op + " " + op + g.paren(b)
		}
		return g.paren(a) + sp + op + sp + g.paren(b)
	case 12, 13:
		op := r.Pick([]string{"!", "-", "+", "~", "typeof ", "void ", "!!", "- -", "+ +", "!-", "-!"})
		return "(" + op + g.paren(g.expr(d+1)) + ")"
	case 14, 15:
		c, a, b := g.expr(d+1), g.expr(d+1), g.expr(d+1)
		switch r.Intn(19) {
		case 17:
			// nested conditional whose inner and outer fallback are the same: the outer test is a || or ?? group
			// (neither the test nor the inner conditional is parenthesised: only bare operators are rewritten; the
			// fallback is a variable)
			y := g.someVar(false)
			op := r.Pick([]string{"||", "??", "||"})
			if r.Bool() {
				// the telling valuation: left operand of the || true, inner test false
				return "(GN" + op + g.someVar(false) + "?GL.length<0?" + g.paren(b) + ":" + y + ":" + y + ")"
			}
			return "(" + g.someVar(false) + op + g.someVar(false) + "?" + g.someVar(false) + "?" + g.paren(b) + ":" + y + ":" + y + ")"
		case 18:
			// a test the minifier rewrites into a comparison (isNaN(x) -> x!=x), itself an operand of an equality operator
			// (guard js-isnan-self-compare, open finding: the rewrite is only right for numbers, so the argument is
			// the number-valued global)
			return "(" + g.paren(a) + r.Pick([]string{"===", "!==", "==", "!="}) + "isNaN(GN))"
		case 14:
			// both branches call the same function, one with a spread argument: not mergeable into f(c?x:y)
			v := g.someVar(false)
			return "(" + v + "?h(" + g.nextSite() + ",...[" + g.number() + "," + g.number() + "]):h(" + g.nextSite() + "," + g.paren(a) + "))"
		case 15:
			v := g.someVar(false)
			arr := r.Pick([]string{"[1,2]", "\"ab\"", "[[3],4]"})
			fn := r.Pick([]string{"String", "Array.of", "Math.max", "h"})
			if r.Bool() {
				return "h(" + g.nextSite() + "," + v + "?" + fn + "(..." + arr + "):" + fn + "(" + arr + "))"
			}
			return "h(" + g.nextSite() + "," + v + "?" + fn + "(" + arr + "):" + fn + "(..." + arr + "))"
		case 16:
			// properties named by integers beyond 2^53, written as strings
			k := r.Pick([]string{"9007199254740993", "9007199254740992", "18014398509481985", "1234567890123456", "12345678901234567"})
			// (built by index assignment: string keys in object literals are known finding js-string-key-noncanonical-number)
			return "((o)=>{o[\"9007199254740992\"]=\"even\";o[\"" + k + "\"]=\"k\";return o[\"" + k + "\"]+Object.keys(o).length})({})"
		case 12, 13:
			// null tests whose nullish branch is a literal null/undefined, applied to a value that IS nullish half of the
			// time (round-4 seed: `a==null?null:a.b` must not become `a?.b`, which yields undefined)
			t := "t" + g.nextSite()
			lit := r.Pick([]string{"null", "null", "undefined", "void 0"})
			acc := r.Pick([]string{t + ".a", t + ".a.b", t + "[0]", t + ".a(" + g.number() + ")", t + "[\"a\"].b"})
			test := r.Pick([]string{
				t + "==null?" + lit + ":" + acc,
				t + "!=null?" + acc + ":" + lit,
				t + "===null||" + t + "===undefined?" + lit + ":" + acc,
				t + "!==null&&" + t + "!==void 0?" + acc + ":" + lit,
				"null==" + t + "?" + lit + ":" + acc,
				t + "===undefined||" + t + "===null?" + lit + ":" + acc,
			})
			arg := r.Pick([]string{"null", "undefined", "void 0", "{a:{b:1}}", "[[2]]", "{a(){return{b:3}}}", g.someVar(false)})
			return "((" + t + ")=>(" + test + "))(" + arg + ")"
		case 8:
			// unparenthesised conditional / assignment / arrow as the true or false body
			v := g.someVar(false)
			return "(" + v + "?" + g.someVar(false) + "?" + g.paren(a) + ":" + g.paren(b) + ":" + v + ")"
		case 9:
			v, w := g.someVar(false), g.someVar(true)
			return "(" + v + "?" + w + "=" + g.paren(a) + ":" + v + ")"
		case 10:
			v, w := g.someVar(false), g.someVar(true)
			return "(" + v + "?" + v + ":" + w + "=" + g.paren(b) + ")"
		case 11:
			v := g.someVar(false)
			return "(" + v + "?()=>" + g.number() + ":" + v + ")"
		case 0:
			return "(" + c + ")?true:false"
		case 1:
			return "(" + c + ")?false:true"
		case 2:
			v := g.someVar(false)
			return v + "?" + v + ":" + g.paren(b)
		case 3:
			v := g.someVar(false)
			return v + "?" + g.paren(a) + ":" + v
		case 4:
			v := g.someVar(false)
			return "(" + v + "==null?" + g.paren(a) + ":" + v + ")"
		case 5:
			v := g.someVar(false)
			return "(" + v + "===null||" + v + "===undefined?undefined:" + v + "." + r.Pick([]string{"a", "b", "x"}) + ")"
		default:
			return "(" + g.paren(c) + "?" + g.paren(a) + ":" + g.paren(b) + ")"
		}
	case 16, 17:
		v := g.someVar(true)
		op := r.Pick([]string{"=", "+=", "-=", "*=", "||=", "&&=", "??=", "|=", "<<=", "/=", "%=", "**=", ">>>=", "^=", "&="})
		return "(" + v + op + g.expr(d+1) + ")"
	case 18:
		v := g.someVar(true)
		return "(" + r.Pick([]string{v + "++", v + "--", "++" + v, "--" + v}) + ")"
	case 19, 20, 21:
		// observable sub-expression
		return "h(" + g.nextSite() + "," + g.expr(d+1) + ")"
	case 22:
		if f := g.callable(); f != "" {
			return f + "(" + g.args() + ")"
		}
		return "h(" + g.nextSite() + ")"
	case 23:
		if base := g.expr(d + 1); !strings.Contains(base, "?.") {
			return g.paren(base) + r.Pick([]string{".a", ".b", "[0]", "[\"a\"]", "[\"b-c\"]", "?.a", "?.[0]", "?.b?.c", "[\"x\"]", "[1]"})
		}
		return g.someVar(false) + r.Pick([]string{".a", ".b", "[0]", "[\"a\"]", "[\"b-c\"]", "?.a", "?.[0]", "?.b?.c", "[\"x\"]", "[1]"})
	case 24:
		return g.objectLit() + r.Pick([]string{".a", "[\"a\"]", ".x", "?.k"})
	case 25:
		return g.arrayLit() + r.Pick([]string{".length", "[0]", ".map(x=>x)", ".join()", ".indexOf(1)", "[\"1\"]", "[\"0\"]", "[\"1.0\"]", "[\"01\"]", "[\".0\"]", "[\"1.\"]", "[\"0.0\"]", "[\"1e0\"]", "[\"9007199254740993\"]", "[\"4294967296\"]", "[\"123456789012345678\"]"})
	case 26:
		return g.arrowFunc(d)
	case 27:
		return g.funcExpr(d)
	case 28:
		return "(" + g.arrowFunc(d) + ")(" + g.args() + ")"
	case 29:
		return r.Pick([]string{"(new Object)", "new Object()", "new Array(3)", "new Error(\"m\")", "new (class{constructor(){h(" + g.nextSite() + ")}})()", "new Date(0)", "new Map([[1,2]])", "String(5n*3n)", "typeof BigInt(7)", "String(0x1234567890abcdefn)", "typeof 0b1111111111111111111111111111111111111111111111111111111111111111111n", "String(0o7777777777777777777777777n)", "String(0xFFn+1_0n)", "0x1234567890abc", "String(0x3E8n)", "String(0xF4240n)", "typeof 0x7D0n", "String(0b1111101000n)", "String(0o1750n)", "String(1000n)", "String(0x2710n*2n)"}) // BigInt values never reach arithmetic: guard js-bigint-mix-dropped
	case 30:
		return g.str() + "+" + g.str() + r.Pick([]string{"", "+(" + g.expr(d+1) + ")"})
	case 31:
		return "(" + g.expr(d+1) + ")+" + g.str() + "+(" + g.expr(d+1) + ")"
	case 32:
		return r.Pick([]string{"String.raw", "h"}) + g.template()
	case 33:
		if r.Chance(1, 4) {
			// explicit boolean coercion around && / || whose left operand is not a boolean, used as a value
			l := r.Pick([]string{"0", "\"\"", "null", "NaN", g.someVar(false), "[].length", "void 0"})
			rr := r.Pick([]string{g.someVar(false) + ">=1", "\"a\" in {a:1}", g.someVar(false) + "!==" + g.number(), "!" + g.someVar(false), "true"})
			op := r.Pick([]string{"&&", "&&", "||"})
			switch r.Intn(4) {
			case 0:
				return "(!!(" + l + op + rr + "))"
			case 1:
				return "((" + l + op + rr + ")?true:false)"
			case 2:
				return "((" + l + op + rr + ")?" + g.number() + ":false)"
			default:
				return "((" + l + op + rr + ")?false:true)"
			}
		}
		if r.Chance(1, 3) {
			// every pairing of strict/loose tests against null/undefined on ONE variable, incl. the same test twice
			v := g.someVar(false)
			lit := func() string { return r.Pick([]string{"null", "undefined", "void 0"}) }
			if r.Bool() {
				return "(" + v + r.Pick([]string{"===", "=="}) + lit() + "||" + v + r.Pick([]string{"===", "=="}) + lit() + ")"
			}
			return "(" + v + r.Pick([]string{"!==", "!="}) + lit() + "&&" + v + r.Pick([]string{"!==", "!="}) + lit() + "?" + v + ":" + g.expr(d+1) + ")"
		}
		return r.Pick([]string{"typeof " + g.someVar(false) + "===\"undefined\"", "typeof " + g.someVar(false) + "!=\"function\"", g.someVar(false) + "===null||" + g.someVar(false) + "===undefined", g.someVar(false) + "!==void 0", "\"undefined\"==typeof " + g.someVar(false)})
	case 34:
		return "!(" + g.expr(d+1) + r.Pick([]string{"&&", "||", "==", "<", "===", "!=="}) + g.expr(d+1) + ")"
	case 35:
		return r.Pick([]string{"Math.max(" + g.args() + ")", "Math.pow(" + g.expr(d+1) + ",2)", "Math.floor(" + g.expr(d+1) + ")", "String(" + g.expr(d+1) + ")", "Number(" + g.expr(d+1) + ")", "Boolean(" + g.expr(d+1) + ")", "Array.isArray(" + g.expr(d+1) + ")", "JSON.stringify(" + g.expr(d+1) + ")", "parseInt(" + g.str() + ",10)", "Object.keys(" + g.objectLit() + ")", "Symbol.iterator in []"})
	case 36:
		if g.inGen && d <= 1 {
			switch r.Intn(7) {
			case 0: // a comma group as operand, alone or leading a binary / conditional operand
				return "(yield (" + g.expr(d+1) + "," + g.expr(d+1) + "))"
			case 1:
				return "(yield (" + g.expr(d+1) + "," + g.expr(d+1) + ")" + r.Pick([]string{"||", "&&", "??"}) + g.expr(d+1) + ")"
			case 2:
				return "(yield (" + g.expr(d+1) + "," + g.expr(d+1) + ")?" + g.expr(d+1) + ":" + g.expr(d+1) + ")"
			case 3: // yield as operand of unary and binary operators
				return "(" + r.Pick([]string{"typeof ", "!", "void ", "-"}) + "(yield " + g.expr(d+1) + "))"
			case 4:
				return "(" + g.expr(d+1) + r.Pick([]string{"+", "||", "&&", "===", ","}) + "(yield " + g.expr(d+1) + "))"
			}
			return "(yield " + g.expr(d+1) + ")"
		}
		return g.someVar(false)
	case 37:
		if g.inFunc > 0 && !g.strict && g.inClass == 0 {
			if g.simpleParams {
				return r.Pick([]string{"arguments.length", "arguments[0]"})
			}
			return "arguments.length" // indexed access only with simple parameter lists (the minifier may drop an unused non-simple parameter, which turns the arguments object into a mapped one)
		}
		return "this===undefined"
	case 38:
		return "(" + g.destructAssign(d) + ")"
	default:
		return g.number()
	}
}

func (g *jsGen) paren(e string) string {
	if g.r.Chance(1, 5) {
		return "(" + e + ")"
	}
	// keep sequences and arrows safe
	if strings.ContainsAny(e, ",") && !strings.HasPrefix(e, "(") && !strings.HasPrefix(e, "h(") && !strings.HasPrefix(e, "[") && !strings.HasPrefix(e, "{") {
		return "(" + e + ")"
	}
	if strings.Contains(e, "=>") || strings.HasPrefix(e, "function") || strings.HasPrefix(e, "{") || strings.HasPrefix(e, "yield") || strings.HasPrefix(e, "async") || strings.HasPrefix(e, "class") {
		return "(" + e + ")"
	}
	return e
}

func (g *jsGen) args() string {
	n := g.r.Intn(4)
	var parts []string
	for i := 0; i < n; i++ {
		if g.r.Chance(1, 8) {
			parts = append(parts, "..."+g.arrayish())
		} else {
			parts = append(parts, g.paren(g.expr(2)))
		}
	}
	return strings.Join(parts, ",")
}

func (g *jsGen) destructAssign(d int) string {
	a, b := g.someVar(true), g.someVar(true)
	if g.inObjMethod > 0 {
		return a + "=1," + b + "=2" // guard js-objmethod-nested-object: `[a,b]=...` is an array literal with identifiers
	}
	switch g.r.Intn(4) {
	case 0:
		return "[" + a + "," + b + "]=[" + g.expr(d+1) + "," + g.expr(d+1) + "]"
	case 1:
		return "{a:" + a + ",b:" + b + "=5}=" + g.objectLit()
	case 2:
		return "[" + a + "=1,..." + b + "]=" + g.arrayish()
	default:
		return "{x:" + a + ",...G1}={x:1,y:2,z:3}"
	}
}

func (g *jsGen) pattern() string {
	// declaring pattern: returns source; declares names in current scope as params/let by caller-chosen kind
	return ""
}

func (g *jsGen) params(declare bool) string {
	r := g.r
	n := r.Intn(4)
	var parts []string
	first := ""
	for i := 0; i < n; i++ {
		def := g.r.Pick([]string{g.number(), g.str(), "null", "true", "[]", "{}", "[1,2]", "{a:1}"}) // constants only: guard js-param-default-shadowed-by-body-var (and no TDZ self reference)
		p := g.declare("param")
		if i == 0 {
			first = p
		}
		switch r.Intn(8) {
		case 0:
			parts = append(parts, p+"="+def)
		case 1:
			if i > 0 {
				parts = append(parts, p+"="+first) // default refers to an earlier parameter
				break
			}
			parts = append(parts, p)
		case 2:
			q := g.declare("param")
			parts = append(parts, "{a:"+p+",b:"+q+"=2}={}")
		case 3:
			q := g.declare("param")
			parts = append(parts, "["+p+","+q+"]=[]")
		case 4:
			if i == n-1 {
				parts = append(parts, "..."+p)
				break
			}
			parts = append(parts, p)
		default:
			parts = append(parts, p)
		}
	}
	// guard js-arguments-mapping-after-param-removal: remember whether the parameter list is simple
	// (sticky for the rest of the program: `arguments` inside an arrow refers to an enclosing function, so the
	// innermost list is not the one that counts)
	for _, p := range parts {
		if strings.ContainsAny(p, "={[.") {
			g.nonSimpleSeen = true
		}
	}
	g.simpleParams = !g.nonSimpleSeen
	return strings.Join(parts, ",")
}

func (g *jsGen) funcBodyInline() string {
	g.inFunc++
	defer func() { g.inFunc-- }()
	var sb strings.Builder
	n := 1 + g.r.Intn(3)
	for i := 0; i < n; i++ {
		sb.WriteString(g.stmt())
	}
	if g.r.Chance(2, 3) {
		sb.WriteString("return " + g.retExpr() + ";")
	}
	return sb.String()
}

// retExpr: guard js-return-comma-void — a returned expression is never the literal undefined / void x
func (g *jsGen) retExpr() string {
	e := g.expr(2)
	t := strings.Trim(e, "() ")
	if t == "undefined" || strings.HasPrefix(t, "void ") || strings.HasPrefix(t, "void(") {
		return "null"
	}
	return e
}

func (g *jsGen) arrowFunc(d int) string {
	g.push(true)
	defer g.pop()
	savedGen, savedLoop, savedLabels := g.inGen, g.inLoop, g.labels
	g.inGen, g.inLoop, g.labels = false, 0, nil
	defer func() { g.inGen, g.inLoop, g.labels = savedGen, savedLoop, savedLabels }()
	ps := g.params(true)
	head := "(" + ps + ")=>"
	if !strings.ContainsAny(ps, ",=.{[") && ps != "" && g.r.Chance(1, 2) {
		head = ps + "=>"
	}
	if g.r.Chance(1, 2) {
		body := g.expr(d + 1)
		if strings.HasPrefix(body, "{") {
			body = "(" + body + ")"
		}
		return head + g.paren(body)
	}
	return head + "{" + g.funcBodyInline() + "}"
}

func (g *jsGen) funcExpr(d int) string {
	g.push(true)
	defer g.pop()
	savedGen, savedLoop, savedLabels := g.inGen, g.inLoop, g.labels
	g.inGen, g.inLoop, g.labels = false, 0, nil
	defer func() { g.inGen, g.inLoop, g.labels = savedGen, savedLoop, savedLabels }()
	ps := g.params(true)
	body := g.funcBodyInline()
	name := ""
	if g.r.Chance(1, 3) {
		name = " " + g.declare("func")
	}
	return "function" + name + "(" + ps + "){" + body + "}"
}

// ---------------------------------------------------------------- statements

func (g *jsGen) block() string {
	g.push(false)
	defer g.pop()
	var sb strings.Builder
	n := g.r.Intn(4)
	for i := 0; i < n; i++ {
		sb.WriteString(g.stmt())
	}
	return "{" + sb.String() + "}"
}

func (g *jsGen) body() string {
	// statement body for if/loops: block, single statement, or empty
	switch g.r.Intn(6) {
	case 0:
		return ";"
	case 1, 2:
		return g.simpleStmt()
	default:
		return g.block()
	}
}

// elseBody: guard js-else-lexical-unwrapped — after a body that ends in a flow statement the else part declares nothing lexical
func (g *jsGen) elseBody(first string) string {
	for _, kw := range []string{"return", "throw", "break", "continue"} {
		if strings.Contains(first, kw) {
			return g.exprStmt()
		}
	}
	return g.body()
}

func (g *jsGen) simpleStmt() string {
	r := g.r
	switch r.Intn(8) {
	case 0:
		if g.inFunc > 0 {
			return "return " + g.retExpr() + ";"
		}
	case 1:
		if g.inLoop > 0 {
			return r.Pick([]string{"break;", "continue;"})
		}
	case 2:
		if g.inFunc > 0 {
			return "return;"
		}
	case 3:
		return "throw " + g.expr(2) + ";"
	}
	return g.exprStmt()
}

func (g *jsGen) exprStmt() string {
	e := g.expr(1)
	// statements that begin with tokens that matter for ASI and statement/expression ambiguity
	if strings.HasPrefix(e, "{") || strings.HasPrefix(e, "function") || strings.HasPrefix(e, "class") || strings.HasPrefix(e, "let[") {
		e = "(" + e + ")"
	}
	return e + ";"
}

func (g *jsGen) stmt() string {
	r := g.r
	g.depth++
	defer func() { g.depth-- }()
	g.budget--
	if g.depth > 4 || g.budget < 0 {
		return "h(" + g.nextSite() + "," + g.someVar(false) + ");"
	}
	switch r.Intn(44) {
	case 0, 1, 2:
		kind := r.Pick([]string{"var", "var", "let", "const"})
		n := 1 + r.Intn(3)
		var parts []string
		for i := 0; i < n; i++ {
			init := g.expr(1) // evaluated before the name becomes visible (no TDZ self reference)
			name := g.declare(kind)
			if kind != "const" && r.Chance(1, 4) {
				parts = append(parts, name)
			} else {
				parts = append(parts, name+"="+g.paren(init))
			}
		}
		return kind + " " + strings.Join(parts, ",") + ";"
	case 3:
		if r.Chance(1, 3) {
			// plain and destructuring declarators mixed in one statement, each initializer observable
			kind := r.Pick([]string{"var", "var", "let"})
			i1, i2, i3 := "h("+g.nextSite()+",1)", "[h("+g.nextSite()+",2)]", "{a:h("+g.nextSite()+",3)}"
			a, b, c := g.declare(kind), g.declare(kind), g.declare(kind)
			parts := []string{a + "=" + i1, "[" + b + "]=" + i2, "{a:" + c + "}=" + i3}
			if r.Bool() {
				parts[0], parts[1] = parts[1], parts[0]
			}
			if r.Chance(1, 3) {
				parts = append(parts, "["+g.declare(kind)+"]=["+a+"]") // refers to an earlier declarator
			}
			tail := ""
			if kind == "var" && r.Bool() {
				tail = "var " + g.declare("var") + ";" // a second var statement makes the minifier merge them
			}
			return kind + " " + strings.Join(parts, ",") + ";" + tail
		}
		// destructuring declaration
		kind := r.Pick([]string{"var", "let", "const"})
		init := r.Pick([]string{"[1,2,3]", "[[1],{a:2}]", "\"xyz\""})
		a, b := g.declare(kind), g.declare(kind)
		if r.Bool() {
			return kind + " [" + a + "," + b + "=7]=" + init + ";"
		}
		return kind + " {a:" + a + ",b:{c:" + b + "}={c:9}}=" + g.objectLit() + ";"
	case 4, 5, 6, 7:
		return g.exprStmt()
	case 8, 9, 10:
		return "h(" + g.nextSite() + "," + g.someVar(false) + "," + g.someVar(false) + ");"
	case 11, 12, 13, 14:
		// if shapes
		c := g.expr(1)
		switch r.Intn(10) {
		case 0:
			return "if(" + c + ")" + g.body()
		case 1:
			b1 := g.body()
			return "if(" + c + ")" + b1 + "else " + g.elseBody(b1)
		case 2:
			b1 := g.body()
			return "if(!(" + c + "))" + b1 + "else " + g.elseBody(b1)
		case 3:
			return "if(" + c + "){}else " + g.body()
		case 4:
			return "if(" + c + ")" + g.exprStmt() + "else if(" + g.expr(1) + ")" + g.exprStmt() + "else " + g.exprStmt()
		case 5:
			if g.inFunc > 0 {
				return "if(" + c + ")return " + g.retExpr() + ";else return " + g.retExpr() + ";"
			}
			return "if(" + c + ")" + g.exprStmt()
		case 6:
			if g.inFunc > 0 {
				return "if(" + c + "){" + g.exprStmt() + "return " + g.retExpr() + "}" + g.exprStmt()
			}
			return "if(" + c + "){" + g.exprStmt() + g.exprStmt() + "}"
		case 7:
			// dangling else
			return "if(" + c + ")if(" + g.expr(1) + ")" + g.exprStmt() + "else " + g.exprStmt()
		case 8:
			// one branch falls through, the other leaves; a flow statement follows the if
			if g.inFunc > 0 {
				leave := func() string {
					return r.Pick([]string{"return " + g.retExpr() + ";", "return;", "throw " + g.number() + ";"})
				}
				work := "{h(" + g.nextSite() + "," + g.someVar(false) + ");" + g.exprStmt() + "}"
				switch r.Intn(4) {
				case 0:
					return "if(" + c + ")" + work + "else{" + leave() + "}" + leave()
				case 1:
					return "if(" + c + "){" + leave() + "}else" + work + leave()
				case 2:
					return "if(" + c + ")" + work + "else " + leave() + "h(" + g.nextSite() + ",0);" + leave()
				default:
					return "if(!(" + c + "))" + work + "else{" + leave() + "}" + leave()
				}
			}
			if g.inLoop > 0 && r.Bool() {
				// braces that decide which `if` an `else` belongs to: the inner chain ends in an if without else whose arms
				// cannot be turned into expressions (break / continue / a loop)
				c2, c3 := g.expr(1), g.expr(1)
				leave := r.Pick([]string{"break;", "continue;", "for(;;){break}", "{break}"})
				inner := "if(" + c2 + ")h(" + g.nextSite() + ",1);else if(" + c3 + ")" + leave
				if r.Chance(1, 3) {
					inner = "if(" + c2 + ")" + leave + "else if(" + c3 + ")h(" + g.nextSite() + ",1);else if(" + g.expr(1) + ")" + leave
				}
				return "if(" + c + "){" + inner + "}else h(" + g.nextSite() + ",2);"
			}
			if g.inLoop > 0 {
				work := "{h(" + g.nextSite() + "," + g.someVar(false) + ")}"
				return "if(" + c + ")" + work + "else{break;}" + r.Pick([]string{"break;", "continue;"})
			}
			return "if(" + c + "){" + g.exprStmt() + "}else{" + g.exprStmt() + "}"
		default:
			return "if(" + c + "){if(" + g.expr(1) + ")" + g.exprStmt() + "}else " + g.exprStmt()
		}
	case 15, 16:
		g.push(false)
		defer g.pop()
		i := g.declare("let")
		g.inLoop++
		defer func() { g.inLoop-- }()
		kw := r.Pick([]string{"let", "let", "var"})
		if kw == "var" {
			// re-declare as var name
			g.sc.vars = g.sc.vars[:len(g.sc.vars)-1]
			i = g.declare("var")
		}
		g.freeze(i)
		return "for(" + kw + " " + i + "=0;" + i + "<" + fmt.Sprint(1+r.Intn(3)) + ";" + i + "++)" + g.body()
	case 17:
		g.push(false)
		defer g.pop()
		g.inLoop++
		defer func() { g.inLoop-- }()
		kw := r.Pick([]string{"const", "let", "var"})
		k := g.declare(kw)
		if r.Bool() {
			return "for(" + kw + " " + k + " of " + g.arrayish() + ")" + g.body()
		}
		return "for(" + kw + " " + k + " in " + r.Pick([]string{"{a:1,b:2}", "[7,8]", "\"ab\""}) + ")" + g.body()
	case 18:
		g.inLoop++
		defer func() { g.inLoop-- }()
		v := g.declare("var")
		g.freeze(v)
		return "var " + v + "=0;while(" + v + "++<" + fmt.Sprint(1+r.Intn(3)) + ")" + g.body()
	case 19:
		g.inLoop++
		defer func() { g.inLoop-- }()
		v := g.declare("var")
		g.freeze(v)
		return "var " + v + "=0;do " + g.block() + " while(++" + v + "<2);"
	case 20:
		// for with expression init / 'in' inside initialiser
		g.inLoop++
		defer func() { g.inLoop-- }()
		v := g.declare("var")
		g.freeze(v)
		if r.Bool() {
			// string-literal index convertible to dot form followed by a parenthesised `in` inside a for initialiser
			w := g.declare("var")
			return "for(var " + v + "=GL[\"length\"]-2," + w + "=(\"a\" in {a:1});" + v + "<2;" + v + "++){h(" + g.nextSite() + "," + w + ");" + g.stmt() + "}"
		}
		if r.Chance(1, 3) {
			// an arrow function whose (expression or return-only) body has an unparenthesised `in`, declared or assigned
			// right before a for statement: statement merging moves it into the for initialiser, where the body still
			// needs its parentheses (round-4 seed)
			f := g.declare("var")
			g.freeze(f)
			p := "q" + g.nextSite()
			body := r.Pick([]string{p + " in {a:1}", "{return " + p + " in {a:1}}", "\"a\" in " + p, "{return \"b\" in " + p + "}", p + " in {a:1}?1:2"})
			argv := r.Pick([]string{"\"a\"", "\"b\"", "{a:1}", "{}"})
			if strings.Contains(body, "in "+p) {
				argv = r.Pick([]string{"{a:1}", "{b:2}", "[]"})
			}
			decl := r.Pick([]string{"var " + f + "=" + p + "=>" + body + ";", "var " + f + "=(" + p + ")=>" + body + ";", "var " + f + ";" + f + "=" + p + "=>" + body + ";"})
			return decl + "for(" + r.Pick([]string{"var ", ""}) + v + "=0;" + v + "<2;" + v + "++){h(" + g.nextSite() + "," + f + "(" + argv + "));" + g.stmt() + "}"
		}
		return "var " + v + ";for(" + v + "=(\"a\" in {a:1})?0:1;" + v + "<2;" + v + "++)" + g.body()
	case 21, 22:
		// switch
		g.push(false)
		defer g.pop()
		g.inLoop++ // break allowed
		defer func() { g.inLoop-- }()
		var sb strings.Builder
		sb.WriteString("switch(" + g.expr(1) + "){")
		n := 1 + r.Intn(3)
		def := r.Intn(n + 1)
		for i := 0; i < n; i++ {
			if i == def {
				sb.WriteString("default:" + g.exprStmt())
			}
			sb.WriteString("case " + g.literal() + ":" + g.exprStmt())
			if r.Chance(2, 3) {
				sb.WriteString("break;")
			}
		}
		sb.WriteString("}")
		return strings.ReplaceAll(sb.String(), "continue;", "break;")
	case 23, 24, 25:
		// try/catch/finally
		var sb strings.Builder
		sb.WriteString("try" + g.block())
		k := r.Intn(4)
		if k != 3 {
			g.push(false)
			if k == 0 {
				sb.WriteString("catch" + g.block())
			} else if r.Chance(1, 3) {
				// an unused binding whose source name is one of the first short names the renamer hands out
				sb.WriteString("catch(" + r.Pick([]string{"e", "t", "n", "r", "i"}) + "){" + g.stmt() + g.stmt() + "}")
			} else {
				e := g.declare("catch")
				sb.WriteString("catch(" + e + "){h(" + g.nextSite() + "," + e + ");" + g.stmt() + "}")
			}
			g.pop()
		}
		if k == 3 || r.Chance(1, 3) {
			if g.inFunc > 0 && r.Chance(1, 3) {
				// a flow statement whose else block declares a lexical name that looks like a generated short name
				n := r.Pick([]string{"e", "t", "n", "r", "i"})
				sb.WriteString("finally{if(" + g.expr(2) + ")return " + g.retExpr() + ";else{let " + n + "=" + g.number() + ";h(" + g.nextSite() + "," + n + "," + g.someVar(false) + "," + g.someVar(false) + ")}}")
			} else {
				sb.WriteString("finally" + g.block())
			}
		}
		return sb.String()
	case 26:
		// labeled loop
		lbl := fmt.Sprintf("L%d", len(g.labels))
		g.labels = append(g.labels, lbl)
		g.inLoop++
		defer func() { g.inLoop--; g.labels = g.labels[:len(g.labels)-1] }()
		g.push(false)
		defer g.pop()
		i := g.declare("let")
		g.freeze(i)
		return lbl + ":for(let " + i + "=0;" + i + "<2;" + i + "++){" + g.stmt() + "if(" + g.expr(2) + ")" + r.Pick([]string{"break ", "continue "}) + lbl + ";" + g.stmt() + "}"
	case 27, 28, 29:
		// function declaration, then call it
		if !g.sc.fn || g.depth > 1 {
			return g.exprStmt() // guard js-block-function-unwrapped: function declarations only directly in a function body or at program level
		}
		g.push(true)
		savedGen, savedLoop, savedLabels := g.inGen, g.inLoop, g.labels
		g.inGen, g.inLoop, g.labels = false, 0, nil
		kind := r.Intn(8)
		head := "function "
		if kind == 0 {
			head = "function* "
			g.inGen = true
		}
		ps := g.params(true)
		body := g.funcBodyInline()
		g.inGen, g.inLoop, g.labels = savedGen, savedLoop, savedLabels
		g.pop()
		name := g.declare("func") // declared after its body was generated: no recursion
		s := head + name + "(" + ps + "){" + body + "}"
		if kind == 0 {
			return s + "h(" + g.nextSite() + ",[..." + name + "(" + g.args() + ")]);"
		}
		return s + "h(" + g.nextSite() + "," + name + "(" + g.args() + "));" + r.Pick([]string{"", "h(" + g.nextSite() + "," + name + "(" + g.args() + "));"})
	case 30, 31:
		return g.classDecl()
	case 32:
		return g.block()
	case 33:
		if !g.strict && g.inFunc == 0 && r.Chance(1, 2) {
			return "with({a:1,b:2})h(" + g.nextSite() + ",a,b);"
		}
		if g.inGen {
			return "if(" + g.expr(2) + ")yield " + g.expr(2) + ";"
		}
		if !g.strict && g.inFunc == 0 {
			// sloppy-mode object-literal method, getter or setter whose body uses `with`: its locals and parameters
			// may be shadowed by the with-object
			site := g.nextSite()
			obj := "{name:" + g.str() + ",p:" + g.number() + ",e:1,t:2,n:3}"
			body := "var name=" + g.number() + ",count=" + g.number() + ";with(" + obj + "){h(" + site + ",name,p,count)}"
			switch r.Intn(3) {
			case 0:
				return "({m(p){" + body + "}}).m(" + g.number() + ");"
			case 1:
				return "({set s(p){" + body + "}}).s=" + g.number() + ";"
			}
			return "({get g(){var p=" + g.number() + ";" + body + "return 1}}).g;"
		}
		// a block that holds nothing but a comment the minifier keeps (`/*! … */`): it is still the body
		switch r.Intn(5) {
		case 0:
			return "if(" + g.expr(2) + "){/*! keep */}else " + g.exprStmt()
		case 1:
			return "if(" + g.expr(2) + ")" + g.exprStmt() + "else{//! keep\n}" + g.exprStmt()
		case 2:
			return "for(var k7=0;k7<2;k7++){/*! keep */}" + g.exprStmt()
		case 3:
			return "if(" + g.expr(2) + "){\n//! keep\n}" + g.exprStmt()
		}
		return ";"
	case 34:
		// closure capturing loop variable
		g.push(false)
		defer g.pop()
		arr := g.someVar(true)
		i := g.declare("let")
		g.freeze(i)
		return arr + "=[];for(let " + i + "=0;" + i + "<3;" + i + "++)" + arr + ".push(()=>" + i + "*2);h(" + g.nextSite() + "," + arr + ".map(q=>q()));"
	case 35:
		// statements that start with tokens relevant for ASI
		return r.Pick([]string{"(" + g.expr(2) + ");", "[" + g.expr(2) + "].length;", "`t`.length;", "+" + g.paren(g.expr(2)) + ";", "-" + g.paren(g.expr(2)) + ";", g.regex() + ".test(\"a\");", "!function(){h(" + g.nextSite() + ")}();", "(function(){h(" + g.nextSite() + ")})();", "(()=>{h(" + g.nextSite() + ")})();"})
	case 36:
		// expression sequences that merge into following statements
		if g.inFunc > 0 {
			return g.exprStmt() + g.exprStmt() + "return " + g.retExpr() + ";"
		}
		return g.exprStmt() + g.exprStmt() + "if(" + g.expr(2) + ")" + g.exprStmt()
	case 37:
		return g.exprStmt() + "throw " + g.expr(2) + ";"
	case 38:
		// var scattered in blocks (hoisting)
		v := g.declare("var")
		return "{var " + v + "=" + g.expr(2) + ";}h(" + g.nextSite() + "," + v + ");"
	case 39:
		v := g.declare("var")
		return "if(" + g.expr(2) + "){var " + v + "=1}else{" + v + "=2}h(" + g.nextSite() + "," + v + ");"
	case 40:
		// async function (observed through the microtask drain)
		if !g.sc.fn || g.depth > 1 {
			return g.exprStmt()
		}
		g.push(true)
		abody := "h(" + g.nextSite() + ",await " + g.paren(g.expr(2)) + ");return " + g.expr(2)
		g.pop()
		name := g.declare("func")
		return "async function " + name + "(){" + abody + "}" + name + "().then(h,h);"
	case 41:
		return "setTimeout(function(){h(" + g.nextSite() + "," + g.someVar(false) + ")},0);"
	default:
		return g.exprStmt()
	}
}

func (g *jsGen) classDecl() string {
	r := g.r
	if g.depth > 2 && !g.sc.fn {
		return g.exprStmt()
	}
	savedStrict := g.strict
	g.strict = true // class bodies are strict code
	g.inClass++
	defer func() { g.strict = savedStrict; g.inClass-- }()
	name := g.declare("class")
	var sb strings.Builder
	ext := ""
	if r.Chance(1, 3) {
		ext = " extends " + r.Pick([]string{"Object", "Array", "(class{m(){return 1}})", "Error"})
	}
	sb.WriteString("class " + name + ext + "{")
	n := r.Intn(5)
	hasCtor := false
	for i := 0; i < n; i++ {
		g.push(true)
		g.inFunc++
		switch r.Intn(9) {
		case 0:
			if !hasCtor {
				hasCtor = true
				sup := ""
				if ext != "" {
					sup = "super();"
				}
				sb.WriteString("constructor(" + g.params(true) + "){" + sup + "this.q=" + g.expr(2) + ";h(" + g.nextSite() + ",this.q)}")
			}
		case 1:
			sb.WriteString(r.Pick([]string{"x", "#p", "static s", "y", "\"z w\"", "[\"c\"+1]", "0"}) + "=" + g.paren(g.expr(2)) + ";")
		case 2:
			sb.WriteString("get " + r.Pick([]string{"g", "v"}) + "(){h(" + g.nextSite() + ");return " + g.expr(2) + "}")
		case 3:
			sb.WriteString("set " + r.Pick([]string{"g", "v"}) + "(w){h(" + g.nextSite() + ",w)}")
		case 4:
			sb.WriteString("static " + r.Pick([]string{"sm", "create", "of"}) + "(" + g.params(true) + "){" + g.funcBodyInline() + "}")
		case 5:
			if r.Bool() {
				// a field directly before the static block: the two need a separator in the output
				sb.WriteString(r.Pick([]string{"f5", "static t5", "#q5", "\"k 5\"", "5"}) + r.Pick([]string{"", "=" + g.number(), "=" + g.paren(g.expr(2))}) + ";")
			}
			if r.Bool() {
				// a lexical name inside the static block that looks like a generated short name
				n := r.Pick([]string{"e", "t", "n", "r", "i"})
				sb.WriteString("static{let " + n + "=" + g.number() + ";h(" + g.nextSite() + "," + n + "," + g.someVar(false) + "," + g.someVar(false) + ")}")
			} else {
				sb.WriteString("static{h(" + g.nextSite() + "," + g.expr(2) + ")}")
			}
		case 6:
			sb.WriteString("*gen(){yield 1;yield " + g.expr(2) + "}")
		default:
			sb.WriteString(r.Pick([]string{"m", "n", "if", "get", "static", "of"}) + "(" + g.params(true) + "){" + g.funcBodyInline() + "}")
		}
		g.inFunc--
		g.pop()
	}
	sb.WriteString("}")
	ctorArgs := g.args() // before the instance name is declared: no self reference (TDZ)
	inst := g.declare("let")
	sb.WriteString("let " + inst + "=new " + name + "(" + ctorArgs + ");h(" + g.nextSite() + "," + inst + ");")
	sb.WriteString("try{h(" + g.nextSite() + "," + inst + ".m&&" + inst + ".m(" + g.args() + ")," + inst + ".g," + name + ".s)}catch(" + "ee" + "){h(" + g.nextSite() + ",ee)}")
	return sb.String()
}

// genJSProgram builds one program. The returned flags describe the variant.
func genJSProgram(r *core.Rand) (src string, strict bool) {
	g := &jsGen{r: r, counter: map[string]int{}, budget: 120 + r.Intn(200)}
	g.strict = r.Chance(1, 3)
	g.sc = &jsScope{fn: true}
	var sb strings.Builder
	if g.strict {
		sb.WriteString("\"use strict\";")
	}
	// GL is read (GL["length"]) but never assigned by generated code: a function value cannot reach it, so
	// finding js-function-length-after-param-removal (unused parameters are dropped, f.length changes) stays out.
	sb.WriteString("var G0=1,G1=\"s\",G2=[1,2],GL=[1,2],GN=7;") // GL and GN are never assigned
	n := 3 + r.Intn(10)
	sep := r.Pick([]string{"", "\n", "\n"})
	for i := 0; i < n; i++ {
		before := len(g.sc.vars)
		st := g.stmt()
		if r.Chance(2, 3) && !strings.HasPrefix(st, "function") && !strings.HasPrefix(st, "async function") {
			// keep going after run-time errors: later statements stay observable (function declarations stay at program level)
			st = "try{" + st + "}catch(E){h(\"E\",E)}"
			// declarations made inside the try block are block scoped: forget the lexical ones (and block-level functions)
			keep := g.sc.vars[:before:before]
			for _, v := range g.sc.vars[before:] {
				if v.kind == "var" {
					keep = append(keep, v)
				}
			}
			g.sc.vars = keep
		}
		sb.WriteString(st + sep)
	}
	// final observation of everything visible at top level
	var names []string
	for _, v := range g.visible(false) {
		if v.kind != "func" && v.kind != "class" {
			names = append(names, v.name)
		}
	}
	sb.WriteString("h(\"end\"," + strings.Join(append(names, "G0", "G1", "G2"), ",") + ");")
	return sb.String(), g.strict
}
