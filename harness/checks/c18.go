package checks

// C18 — data URI and media type helpers preserve what they encode.
// Oracle: my own RFC 2397 decoder + media type normaliser; canary redzones.

import (
	"bytes"
	"encoding/base64"
	"fmt"
	"io"
	"regexp"
	"strings"

	"github.com/tdewolff/minify/v2"
	"github.com/tdewolff/parse/v2"
	"verif/harness/core"
)

func isHex(c byte) bool {
	return c >= '0' && c <= '9' || c >= 'a' && c <= 'f' || c >= 'A' && c <= 'F'
}
func unhex(c byte) byte {
	switch {
	case c <= '9':
		return c - '0'
	case c <= 'F':
		return c - 'A' + 10
	}
	return c - 'a' + 10
}

// mustEscape: bytes that may not appear raw in the data part of a URI.
func mustEscape(c byte) bool {
	return c <= 0x20 || c >= 0x7f || c == '%' || c == '#' || c == '"' || c == '<' || c == '>'
}

type dataURIParts struct {
	mediatype string // text between "data:" and the comma, without ;base64
	b64       bool
	payload   []byte
	validEnc  bool // payload part was validly encoded
	rawAmp    bool // payload part contains a raw byte of the dependency's stricter must-escape table
}

// rfc2397Decode: independent decoder. ok=false when not a data URI at all.
func rfc2397Decode(u []byte) (p dataURIParts, ok bool) {
	if len(u) < 5 || !strings.EqualFold(string(u[:5]), "data:") {
		return p, false
	}
	rest := u[5:]
	inQ := false
	comma := -1
	for i, c := range rest {
		if c == '"' {
			inQ = !inQ
		} else if c == ',' && !inQ {
			comma = i
			break
		}
	}
	if comma < 0 {
		return p, false
	}
	mt := string(rest[:comma])
	data := rest[comma+1:]
	trim := strings.TrimRight(mt, " \t\n\r\f")
	if len(trim) >= 7 && strings.EqualFold(trim[len(trim)-7:], ";base64") {
		p.b64 = true
		mt = trim[:len(trim)-7]
	}
	p.mediatype = mt
	if p.b64 {
		dec, err := base64.StdEncoding.DecodeString(string(data))
		if err != nil {
			return p, false
		}
		p.payload = dec
		p.validEnc = true
		return p, true
	}
	p.validEnc = true
	for i := 0; i < len(data); i++ {
		c := data[i]
		if c == '%' && i+2 < len(data)+0 && i+2 <= len(data)-1 && isHex(data[i+1]) && isHex(data[i+2]) {
			p.payload = append(p.payload, unhex(data[i+1])<<4|unhex(data[i+2]))
			i += 2
			continue
		}
		if mustEscape(c) {
			p.validEnc = false
		}
		if parse.DataURIEncodingTable[c] {
			p.rawAmp = true // raw byte that the dependency's (stricter) escaping table wants escaped: &, [, ], \, ^, `, {, |, }
		}
		p.payload = append(p.payload, c)
	}
	return p, true
}

// normMediatype: lower-case and strip whitespace outside quoted strings, make the
// default explicit, then drop the default text/plain and charset=us-ascii.
func normMediatype(mt string) string {
	var sb strings.Builder
	inQ := false
	for i := 0; i < len(mt); i++ {
		c := mt[i]
		if c == '"' {
			inQ = !inQ
			sb.WriteByte(c)
			continue
		}
		if !inQ {
			if c == ' ' || c == '\t' || c == '\n' || c == '\r' || c == '\f' {
				continue
			}
			if c >= 'A' && c <= 'Z' {
				c += 32
			}
		}
		sb.WriteByte(c)
	}
	s := sb.String()
	parts := strings.Split(s, ";") // generator never puts ';' inside quotes
	typ := parts[0]
	if typ == "" {
		typ = "text/plain"
	}
	var out []string
	for _, p := range parts[1:] {
		if p == "charset=us-ascii" {
			continue
		}
		out = append(out, p)
	}
	if typ == "text/plain" {
		typ = ""
	}
	if len(out) == 0 {
		return typ
	}
	return typ + ";" + strings.Join(out, ";")
}

type c18Reg struct {
	name string
	m    *minify.M
}

func c18Registries() []c18Reg {
	empty := minify.New()
	stub := minify.New()
	stub.AddFunc("text/x-upper", func(_ *minify.M, w io.Writer, r io.Reader, _ map[string]string) error {
		b, _ := io.ReadAll(r)
		for i, c := range b { // ASCII-only, length preserving
			if c >= 'a' && c <= 'z' {
				b[i] = c - 32
			}
		}
		_, err := w.Write(b)
		return err
	})
	stub.AddFunc("text/x-quote", func(_ *minify.M, w io.Writer, r io.Reader, _ map[string]string) error {
		b, _ := io.ReadAll(r)
		for i, c := range b { // length preserving, but every quote it writes needs an escape in a URI
			if c == '\'' {
				b[i] = '"'
			}
		}
		_, err := w.Write(b)
		return err
	})
	stub.AddFunc("text/x-fail", func(_ *minify.M, w io.Writer, r io.Reader, _ map[string]string) error {
		b, _ := io.ReadAll(r)
		w.Write(b[:len(b)/2])
		return fmt.Errorf("stub failure")
	})
	// a registry that minifies plain text (the default type of a data URI) and everything under a pattern
	plain := minify.New()
	upper := func(_ *minify.M, w io.Writer, r io.Reader, _ map[string]string) error {
		b, _ := io.ReadAll(r)
		for i, c := range b {
			if c >= 'a' && c <= 'z' {
				b[i] = c - 32
			}
		}
		_, err := w.Write(b)
		return err
	}
	plain.AddFunc("text/plain", upper)
	plain.AddFuncRegexp(regexp.MustCompile(`^(image|application)/`), upper)
	return []c18Reg{{"empty", empty}, {"stub", stub}, {"real", newM(nil)}, {"plain", plain}}
}

var c18Types = []string{"", "text/plain", "TEXT/Plain", "text/plainx", "text/plain-x", "text/html", "image/svg+xml", "text/css", "application/json", "application/javascript", "text/x-upper", "text/x-quote", "text/x-quote", "text/x-fail", "image/png", "application/octet-stream", "Text/X-Upper"}
var c18Params = []string{"charset=us-ascii", "charset=US-ASCII", "CHARSET=us-ascii", "charset=utf-8", "charset=us-asciiz", "xcharset=us-ascii", "version=2.0", `name="A B"`, `Name="Annual Report"`, "q=1", `p="C:\\"`}

func c18GenPayload(r *core.Rand, typ string) []byte {
	lt := strings.ToLower(typ)
	if r.Chance(2, 3) {
		switch lt {
		case "text/css", "text/html", "application/json", "application/javascript", "image/svg+xml":
			key := lt
			return []byte(r.Pick(smallInputs[key]))
		}
	}
	if lt == "text/x-quote" {
		// apostrophes (rewritten to quotes, which encode longer) and an ending that is or is not an escape
		return []byte(r.Pick([]string{"alert('hi')", "it's", "'a','b','c'", "f('x')+g('y')", "plain"}) + r.Pick([]string{";", "#", "\"", "%", " ", "", "x", "<"}))
	}
	n := r.Intn(30)
	if r.Chance(1, 10) {
		n = 50 + r.Intn(300)
	}
	pEsc := r.Intn(101) // percentage of must-escape bytes: crosses the base64 break-even from both sides
	b := make([]byte, n)
	for i := range b {
		if r.Intn(100) < pEsc {
			switch r.Intn(5) {
			case 0:
				b[i] = byte(r.Intn(0x21))
			case 1:
				b[i] = byte(0x7f + r.Intn(0x81))
			case 2:
				b[i] = "%#\"<> "[r.Intn(6)]
			default:
				b[i] = byte(r.Intn(256))
			}
		} else {
			b[i] = "abcdefghijklmnopqrstuvwxyzABCXYZ0123456789-._~!$'()*;:@/?="[r.Intn(58)]
		}
	}
	return b
}

func c18Encode(r *core.Rand, payload []byte, b64 bool) []byte {
	if b64 {
		return []byte(base64.StdEncoding.EncodeToString(payload))
	}
	var out []byte
	extra := r.Intn(4) == 0
	upper := r.Bool()
	for _, c := range payload {
		// '+' is always escaped: guard for known finding C18 datauri-plus-decoded-as-space
		if mustEscape(c) || c == '+' || c == ',' && false || (extra && r.Chance(1, 4)) {
			if upper {
				out = append(out, fmt.Sprintf("%%%02X", c)...)
			} else {
				out = append(out, fmt.Sprintf("%%%02x", c)...)
			}
		} else {
			out = append(out, c)
		}
	}
	return out
}

func c18GenURI(r *core.Rand) (uri []byte, typ string) {
	typ = r.Pick(c18Types)
	var sb strings.Builder
	sb.WriteString("data:")
	ws := func() string {
		if r.Chance(1, 5) {
			return " "
		}
		return ""
	}
	sb.WriteString(typ)
	np := r.Intn(3)
	if typ == "" {
		np = 0 // guard for known finding C18 datauri-empty-type-params-dropped
	}
	for i := 0; i < np; i++ {
		p := r.Pick(c18Params)
		sb.WriteString(ws() + ";" + ws())
		if eq := strings.IndexByte(p, '='); eq > 0 && r.Chance(1, 5) {
			sb.WriteString(p[:eq] + " = " + p[eq+1:])
		} else {
			sb.WriteString(p)
		}
	}
	b64 := r.Chance(2, 5)
	if b64 {
		sb.WriteString(r.Pick([]string{";base64", ";base64", ";base64", ";base64", ";BASE64", ";Base64"})) // (the token is case-insensitive)
	}
	sb.WriteString(",")
	payload := c18GenPayload(r, typ)
	sb.Write(c18Encode(r, payload, b64))
	return []byte(sb.String()), typ
}

var c18Malformed = []string{"", "data:", "data:,", "data", "DATA:,x", "data:text/plain", "data:;base64,@@@", "data:;base64,dGV4dA", "data:;base64,dGV4dA=", "data:,%", "data:,%4", "data:,%zz", "data:,a%", "datx:,x", "data:text/html;base64", "data:;;;,x", "data:=,x", "data:a=b,x", "data:,\x00\xff", "data:;base64,", "data:text/css;base64,YXtiOmN9", "data:;base64 ,dGV4dA=="}

// c18CheckDataURI returns "" or a description of the violation. inconclusive=true when the oracle cannot judge.
func c18CheckDataURI(reg c18Reg, uri []byte, totalityOnly bool) (bad string, nontrivial bool, inconclusive bool) {
	const pad = 32
	// (no spare-capacity variant: the helper may legitimately use the capacity of the slice it is given)
	for _, spare := range []bool{false} {
		buf := make([]byte, pad+len(uri)+pad)
		for i := range buf {
			buf[i] = 0xA5
		}
		copy(buf[pad:], uri)
		arg := buf[pad : pad+len(uri) : pad+len(uri)]
		if spare {
			arg = buf[pad : pad+len(uri)]
		}
		var out []byte
		pan := ""
		func() {
			defer func() {
				if r := recover(); r != nil {
					pan = fmt.Sprint(r)
				}
			}()
			out = minify.DataURI(reg.m, arg)
		}()
		if pan != "" {
			return "panic: " + pan, false, false
		}
		for i := 0; i < pad; i++ {
			if buf[i] != 0xA5 || buf[pad+len(uri)+i] != 0xA5 {
				return "memory outside the argument was modified", false, false
			}
		}
		out = append([]byte{}, out...)
		in, ok := rfc2397Decode(uri)
		if !ok || totalityOnly {
			// malformed: only totality and canaries apply
			continue
		}
		o, ok := rfc2397Decode(out)
		if !ok {
			return fmt.Sprintf("result %q is not a decodable data URI", core.Trunc(string(out), 200)), false, false
		}
		if a, b := normMediatype(in.mediatype), normMediatype(o.mediatype); a != b {
			return fmt.Sprintf("media type changed: %q -> %q (normalised %q vs %q)", in.mediatype, o.mediatype, a, b), false, false
		}
		// expected payload
		want := in.payload
		mtFull := in.mediatype
		if strings.TrimSpace(mtFull) == "" {
			mtFull = "text/plain"
		}
		sub, err, pan2 := minifyBytes(reg.m, strings.TrimSpace(mtFull), in.payload)
		if pan2 != "" {
			return "", false, true
		}
		if err == nil {
			want = sub
		}
		encLen := func(mt string, p []byte) int {
			b := len("data:") + len(mt) + len(";base64,") + base64.StdEncoding.EncodedLen(len(p))
			a := len("data:") + len(mt) + 1 + len(p)
			for _, c := range p {
				if parse.DataURIEncodingTable[c] {
					a += 2
				}
			}
			if a < b {
				return a
			}
			return b
		}
		if bytes.Equal(out, uri) && in.validEnc && encLen(o.mediatype, want) > len(uri) {
			// "never more bytes than it was given" wins over "payload is the minifier's output": the properly
			// encoded input is handed back when every encoding of the minified payload would be longer
			nontrivial = false
			continue
		}
		if !bytes.Equal(o.payload, want) {
			return fmt.Sprintf("payload differs: got %q want %q", core.Trunc(string(o.payload), 120), core.Trunc(string(want), 120)), false, false
		}
		if !o.validEnc {
			return "result leaves characters unescaped that must be escaped", false, false
		}
		// shorter of the valid encodings
		mtOut := o.mediatype
		b64Len := len("data:") + len(mtOut) + len(";base64,") + base64.StdEncoding.EncodedLen(len(want))
		pctLen := len("data:") + len(mtOut) + 1 + len(want)
		for _, c := range want {
			if parse.DataURIEncodingTable[c] {
				pctLen += 2
			}
		}
		best := b64Len
		if pctLen < best {
			best = pctLen
		}
		if len(uri) < best && bytes.Equal(in.payload, want) && in.validEnc && !in.rawAmp {
			best = len(uri)
		}
		if len(out) > best {
			return fmt.Sprintf("result (%d bytes) is not the shorter valid encoding (%d bytes possible)", len(out), best), false, false
		}
		if in.validEnc && !in.rawAmp && len(want) <= len(in.payload) && len(out) > len(uri) {
			return fmt.Sprintf("result longer than the validly encoded input (%d > %d)", len(out), len(uri)), false, false
		}
		nontrivial = !bytes.Equal(out, uri)
	}
	return "", nontrivial, false
}

// c18ViaCSS: the same data URI inside a style sheet's url(), in both quote styles: what a CSS consumer reads out of
// the minified sheet must decode to what the helper returns for the URI alone.
func c18ViaCSS(m *minify.M, uri []byte) (bad string, applicable bool) {
	defer func() {
		if r := recover(); r != nil {
			bad, applicable = fmt.Sprintf("panic: %v", r), true
		}
	}()
	in, ok := rfc2397Decode(uri)
	if !ok || !in.validEnc {
		return "", false
	}
	for _, c := range uri {
		if c <= ' ' || c >= 0x7f || c == '"' || c == '\'' || c == '\\' || c == '(' || c == ')' {
			return "", false // would need CSS escapes of its own
		}
	}
	direct := minify.DataURI(m, append([]byte{}, uri...))
	dd, ok := rfc2397Decode(direct)
	if !ok {
		return "", false
	}
	for vi, q := range []string{`"`, `'`, `"`, `'`, `"`} {
		// (the quoted URI as it is, and broken over lines with a continuation behind the opening or in front of the
		// closing quote: a continuation is not part of the URI)
		body := []string{string(uri), string(uri), "\\\n" + string(uri), string(uri) + "\\\n", string(uri[:len(uri)/2]) + "\\\r\n" + string(uri[len(uri)/2:]) + "\\\r"}[vi]
		sheet := "a{background:url(" + q + body + q + ")}"
		out, err := m.Bytes("text/css", []byte(sheet))
		if err != nil {
			return fmt.Sprintf("style sheet %q fails: %v", core.Trunc(sheet, 200), err), true
		}
		toks, terr := cssTokens(string(out))
		got, found := "", false
		if terr == "" {
			for i, t := range toks {
				if t.K == 'u' {
					got, found = t.S, true
					break
				}
				if t.K == 'f' && strings.EqualFold(t.S, "url") {
					for _, a := range append(append([]cTok{}, t.Args...), toks[i+1:]...) {
						if a.K == 's' {
							got, found = a.S, true
							break
						}
					}
					break
				}
			}
		}
		if !found {
			return fmt.Sprintf("url(%s...%s) in a style sheet: the minified sheet %q has no readable url()", q, q, core.Trunc(string(out), 200)), true
		}
		gd, ok := rfc2397Decode([]byte(got))
		if !ok || normMediatype(gd.mediatype) != normMediatype(dd.mediatype) || !bytes.Equal(gd.payload, dd.payload) {
			return fmt.Sprintf("url(%s...%s) in a style sheet: the minified sheet %q carries %q, the helper alone gives %q", q, q, core.Trunc(string(out), 200), core.Trunc(got, 120), core.Trunc(string(direct), 120)), true
		}
	}
	return "", true
}

// refMediatype: reference for minify.Mediatype — lower-case and strip whitespace outside quoted strings.
func refMediatype(b []byte) []byte {
	var out []byte
	inQ := false
	for i := 0; i < len(b); i++ {
		c := b[i]
		if inQ {
			out = append(out, c)
			if c == '\\' && i+1 < len(b) {
				i++
				out = append(out, b[i])
			} else if c == '"' {
				inQ = false
			}
			continue
		}
		if c == '"' {
			inQ = true
			out = append(out, c)
			continue
		}
		if c == ' ' || c == '\t' || c == '\n' || c == '\r' || c == '\f' {
			continue
		}
		if c >= 'A' && c <= 'Z' {
			c += 32
		}
		out = append(out, c)
	}
	return out
}

func c18GenMediatype(r *core.Rand) []byte {
	var sb strings.Builder
	ws := func() {
		for r.Chance(1, 3) {
			sb.WriteByte(" \t\n"[r.Intn(3)])
		}
	}
	word := func() {
		n := 1 + r.Intn(8)
		for i := 0; i < n; i++ {
			if r.Chance(1, 12) {
				// bytes outside ASCII (UTF-8 sequences whose lead bytes fall into 0xC0..0xDE, and lone high bytes):
				// only ASCII letters have a lower case here
				sb.WriteString(r.Pick([]string{"é", "É", "Ü", "ß", "Ω", "\xc3", "\xd0\x9f", "\xde", "\xc0", "\xff"}))
				continue
			}
			sb.WriteByte("abcxyzABCXYZ0189-+.*"[r.Intn(20)])
		}
	}
	ws()
	word()
	ws()
	sb.WriteByte('/')
	ws()
	word()
	np := r.Intn(5)
	for i := 0; i < np; i++ {
		ws()
		sb.WriteByte(";,"[r.Intn(10)/9])
		ws()
		word()
		ws()
		sb.WriteByte('=')
		ws()
		if r.Chance(1, 2) {
			sb.WriteByte('"')
			n := r.Intn(10)
			if r.Chance(1, 30) {
				n = 1000 + r.Intn(200)
			}
			for j := 0; j < n; j++ {
				// guard for known finding C18 mediatype-escaped-quote: no \" inside strings; a backslash is always doubled
				cs := "abcXYZ  ;=,/\t\\'(')"
				c := cs[r.Intn(len(cs))]
				sb.WriteByte(c)
				if c == '\\' {
					sb.WriteByte('\\')
				}
			}
			sb.WriteByte('"')
		} else {
			word()
		}
	}
	ws()
	return []byte(sb.String())
}

func c18CheckMediatype(in []byte) string {
	const pad = 16
	buf := make([]byte, pad+len(in)+pad)
	for i := range buf {
		buf[i] = 0xA5
	}
	copy(buf[pad:], in)
	arg := buf[pad : pad+len(in)]
	var out []byte
	pan := ""
	func() {
		defer func() {
			if r := recover(); r != nil {
				pan = fmt.Sprint(r)
			}
		}()
		out = minify.Mediatype(arg)
	}()
	if pan != "" {
		return "panic: " + pan
	}
	for i := 0; i < pad; i++ {
		if buf[i] != 0xA5 || buf[pad+len(in)+i] != 0xA5 {
			return "memory outside the argument was modified"
		}
	}
	want := refMediatype(in)
	if !bytes.Equal(out, want) {
		return fmt.Sprintf("Mediatype(%q) = %q, reference %q", core.Trunc(string(in), 150), core.Trunc(string(out), 150), core.Trunc(string(want), 150))
	}
	return ""
}

func C18(run *core.Run) {
	regs := c18Registries()
	regByName := map[string]c18Reg{}
	for _, g := range regs {
		regByName[g.name] = g
	}
	run.ReplayWitnesses(func(f core.Finding, w core.Witness) (bool, string) {
		if w.Extra["fn"] == "Mediatype" {
			bad := c18CheckMediatype([]byte(w.Input))
			return bad != "", bad
		}
		bad, _, _ := c18CheckDataURI(regByName[w.Extra["registry"]], []byte(w.Input), false)
		return bad != "", bad
	})
	doURI := func(reg c18Reg, uri []byte, label string) {
		run.Eval()
		cfg := "DataURI registry=" + reg.name
		bad, nt, inc := c18CheckDataURI(reg, uri, label == "malformed")
		if inc {
			run.Inconclusive()
			return
		}
		if bad != "" {
			run.Violation(core.Key(cfg, uri), fmt.Sprintf("%s %s: %s | input %q", cfg, label, bad, core.Trunc(string(uri), 200)), map[string]interface{}{"config": cfg, "input": string(uri)})
			return
		}
		if nt {
			run.NonTrivial([]byte(cfg), uri)
		}
	}
	// every single-byte payload x encodings x 4 media types
	for b := 0; b < 256; b++ {
		for _, typ := range []string{"", "text/html", "image/png;charset=utf-8", "text/plain;charset=us-ascii"} {
			p := []byte{byte(b)}
			u1 := []byte("data:" + typ + ";base64," + base64.StdEncoding.EncodeToString(p))
			u2 := []byte(fmt.Sprintf("data:%s,%%%02x", typ, b))
			for _, g := range regs[:2] {
				doURI(g, u1, "byte-b64")
				doURI(g, u2, "byte-pct")
				if !mustEscape(byte(b)) && b != '+' && b != ',' {
					doURI(g, []byte("data:"+typ+","+string(p)+"x"+string(p)), "byte-raw")
				}
			}
		}
	}
	for _, s := range c18Malformed {
		for _, g := range regs {
			doURI(g, []byte(s), "malformed")
		}
	}
	n := run.N(60000, 3000000)
	core.ParallelFor(n, 0, func(i int) {
		r := run.CaseRand("uri", i, n*3/5)
		uri, _ := c18GenURI(r)
		g := regs[r.Intn(len(regs))]
		if i < 4 {
			run.Sample(map[string]string{"fn": "DataURI", "registry": g.name, "input": core.Trunc(string(uri), 200)})
		}
		doURI(g, uri, "gen")
		if g.name == "real" || i%5 == 0 {
			run.Eval()
			bad, app := c18ViaCSS(regByName["real"].m, uri)
			if bad != "" {
				run.Violation(core.Key("DataURI via css url()", uri), bad+" | input "+fmt.Sprintf("%q", core.Trunc(string(uri), 200)), map[string]interface{}{"config": "DataURI via css url()", "input": string(uri)})
			} else if app {
				run.Count("via_css_url")
			}
		}
	})
	nm := run.N(40000, 2000000)
	core.ParallelFor(nm, 0, func(i int) {
		r := run.CaseRand("mt", i, nm*3/5)
		in := c18GenMediatype(r)
		run.Eval()
		if i < 3 {
			run.Sample(map[string]string{"fn": "Mediatype", "input": core.Trunc(string(in), 200)})
		}
		if bad := c18CheckMediatype(in); bad != "" {
			run.Violation(core.Key("Mediatype", in), bad, map[string]interface{}{"fn": "Mediatype", "input": string(in)})
			return
		}
		if !bytes.Equal(in, refMediatype(in)) {
			run.NonTrivial([]byte("Mediatype"), in)
		}
	})
	run.Finish("data URIs: every single payload byte 0..255 in base64/percent/raw form x 4 media types (exhaustive), a list of malformed forms, and seeded generated URIs (15 type spellings, 0-2 parameters with optional whitespace and quoted values, base64 or percent-encoding with varying proportions of must-escape bytes, payloads that the registered minifiers rewrite) against three registries (empty, stub, real); media type strings with quoted parameters, whitespace everywhere and >1024-byte strings; a case is (function, registry, input); non-trivial = the helper changed the bytes",
		[]string{"my RFC 2397 decoder ('+' literal, invalid escapes literal) and media-type normaliser are the oracle", "length optimality is judged with the dependency's DataURIEncodingTable", "guards: '+' always escaped in percent-encoded payloads; empty media type never carries parameters; no \\\" inside quoted strings (known findings)"}, 1000, false)
}
