package checks

// Shared JS machinery: node bridge access, minifier invocation, observation comparison.

import (
	"bytes"
	"errors"
	"fmt"
	"io"
	"os"
	"strings"
	"sync"

	"github.com/tdewolff/minify/v2"
	mjs "github.com/tdewolff/minify/v2/js"
	"verif/harness/core"
	"verif/harness/nodebridge"
)

var (
	jsPoolOnce sync.Once
	jsPool     *nodebridge.Pool
)

func nodePool() *nodebridge.Pool {
	jsPoolOnce.Do(func() {
		p, err := nodebridge.New(0)
		if err != nil {
			fmt.Fprintln(os.Stderr, "TOOLING-MISSING:", err)
			os.Exit(2)
		}
		jsPool = p
	})
	return jsPool
}

type jsAnalysis struct {
	Free         []string
	TopLexical   []string
	TopVar       []string
	DefaultLocal string // local name of `export default function NAME(){}` / class NAME (may be dropped when unused)
	Props        []string
	Labels       []string
	Imexp        []string
	Idents       []string
	WithIdents   []string
	Imports      map[string]interface{}
	Scopes       int
	Bindings     int
	MaxScope     int
	MaxDepth     int
	UsesEval     bool
	UsesWith     bool
	Kind         string
	FreeCounts   map[string]float64
}

func strList(v interface{}) []string {
	a, _ := v.([]interface{})
	out := make([]string, 0, len(a))
	for _, x := range a {
		if s, ok := x.(string); ok {
			out = append(out, s)
		}
	}
	return out
}

// jsAnalyze parses src with acorn (script first, then module).
func jsAnalyze(src string) (*jsAnalysis, error) {
	for _, kind := range []string{"script", "module"} {
		rep, err := nodePool().Call(map[string]interface{}{"op": "analyze", "src": src, "kind": kind})
		if err != nil && rep == nil {
			return nil, err
		}
		if _, bad := rep["error"]; bad {
			continue
		}
		a := &jsAnalysis{Kind: kind, Free: strList(rep["free"]), TopLexical: strList(rep["topLexical"]), TopVar: strList(rep["topVar"]), Props: strList(rep["props"]),
			DefaultLocal: fmt.Sprint(rep["defaultLocal"]), Labels: strList(rep["labels"]), Imexp: strList(rep["imexp"]), Idents: strList(rep["idents"]), WithIdents: strList(rep["withIdents"])}
		a.Imports, _ = rep["imports"].(map[string]interface{})
		if f, ok := rep["scopes"].(float64); ok {
			a.Scopes = int(f)
		}
		if f, ok := rep["bindings"].(float64); ok {
			a.Bindings = int(f)
		}
		if f, ok := rep["maxScopeBindings"].(float64); ok {
			a.MaxScope = int(f)
		}
		if f, ok := rep["maxDepth"].(float64); ok {
			a.MaxDepth = int(f)
		}
		a.UsesEval, _ = rep["usesEval"].(bool)
		a.UsesWith, _ = rep["usesWith"].(bool)
		a.FreeCounts = map[string]float64{}
		if fc, ok := rep["freeCounts"].(map[string]interface{}); ok {
			for k, v := range fc {
				if f, ok := v.(float64); ok {
					a.FreeCounts[k] = f
				}
			}
		}
		return a, nil
	}
	return nil, errors.New("rejected by acorn")
}

type jsObs struct {
	Log          []string
	Globals      []string
	Lexicals     []string
	Completion   string
	Inconclusive string
}

func jsExec(src string, a *jsAnalysis, maxEvents int) (*jsObs, error) {
	req := map[string]interface{}{"op": "exec", "src": src, "kind": a.Kind, "mocks": a.Free, "lexicals": a.TopLexical, "imports": a.Imports, "maxEvents": maxEvents, "timeout": 3000}
	rep, err := nodePool().Call(req)
	if err != nil {
		return nil, err
	}
	o := &jsObs{Log: strList(rep["log"]), Globals: strList(rep["globals"]), Lexicals: strList(rep["lexicals"])}
	o.Completion, _ = rep["completion"].(string)
	if s, ok := rep["inconclusive"].(string); ok {
		o.Inconclusive = s
	}
	return o, nil
}

type jsSyntaxVerdict struct {
	Acorn, V8 bool
	Msg       string
}

func jsSyntax(src, kind string, ecmaVersion int, acornOnly bool) (jsSyntaxVerdict, error) {
	req := map[string]interface{}{"op": "syntax", "src": src, "kind": kind, "acornOnly": acornOnly}
	if ecmaVersion != 0 {
		req["ecmaVersion"] = ecmaVersion
	}
	rep, err := nodePool().Call(req)
	if err != nil {
		return jsSyntaxVerdict{}, err
	}
	v := jsSyntaxVerdict{}
	v.Acorn, _ = rep["acorn"].(bool)
	v.V8, _ = rep["v8"].(bool)
	if m, ok := rep["acornMsg"].(string); ok {
		v.Msg = m
	}
	if m, ok := rep["v8Msg"].(string); ok {
		v.Msg += " | v8: " + m
	}
	return v, nil
}

type jsConfig struct {
	KeepVarNames bool
	Version      int
	Precision    int
	Inline       bool
	Warm         bool // the Minifier value has minified an ordinary program before (state must not stick to it)
}

func (c jsConfig) String() string {
	s := fmt.Sprintf("js keepvarnames=%v version=%d precision=%d inline=%v", c.KeepVarNames, c.Version, c.Precision, c.Inline)
	if c.Warm {
		s += " warm=true"
	}
	return s
}

const jsWarmProgram = "var total=0;function add(first,second){var sum=first+second;return total+=sum}for(let index=0;index<3;index++){add(index,1)}"

func jsMinify(src string, c jsConfig) (string, error, string) {
	var out bytes.Buffer
	var err error
	pan := ""
	func() {
		defer func() {
			if r := recover(); r != nil {
				pan = fmt.Sprint(r)
			}
		}()
		o := &mjs.Minifier{KeepVarNames: c.KeepVarNames, Version: c.Version, Precision: c.Precision}
		var params map[string]string
		if c.Inline {
			params = map[string]string{"inline": "1"}
		}
		if c.Warm {
			o.Minify(minify.New(), io.Discard, strings.NewReader(jsWarmProgram), nil)
		}
		err = o.Minify(minify.New(), &out, strings.NewReader(src), params)
	}()
	return out.String(), err, pan
}

func diffObs(a, b *jsObs) string {
	if len(a.Log) != len(b.Log) {
		k := 0
		for k < len(a.Log) && k < len(b.Log) && a.Log[k] == b.Log[k] {
			k++
		}
		x, y := "<end>", "<end>"
		if k < len(a.Log) {
			x = a.Log[k]
		}
		if k < len(b.Log) {
			y = b.Log[k]
		}
		return fmt.Sprintf("host call sequence differs at event %d (of %d vs %d): %s vs %s", k, len(a.Log), len(b.Log), core.Trunc(x, 150), core.Trunc(y, 150))
	}
	for k := range a.Log {
		if a.Log[k] != b.Log[k] {
			return fmt.Sprintf("host call %d differs: %s vs %s", k, core.Trunc(a.Log[k], 150), core.Trunc(b.Log[k], 150))
		}
	}
	if a.Completion != b.Completion {
		return fmt.Sprintf("completion differs: %s vs %s", a.Completion, b.Completion)
	}
	if strings.Join(a.Globals, "\x00") != strings.Join(b.Globals, "\x00") {
		return fmt.Sprintf("final globals differ: %s vs %s", core.Trunc(strings.Join(a.Globals, " "), 200), core.Trunc(strings.Join(b.Globals, " "), 200))
	}
	if strings.Join(a.Lexicals, "\x00") != strings.Join(b.Lexicals, "\x00") {
		return fmt.Sprintf("final top-level let/const/class values differ: %s vs %s", core.Trunc(strings.Join(a.Lexicals, " "), 200), core.Trunc(strings.Join(b.Lexicals, " "), 200))
	}
	return ""
}

// jsJudge decides one (program, configuration) pair.
// verdict: "" held, "INCONCLUSIVE:<why>", "REJECTED" (minifier did not accept), or a violation text.
type jsVerdict struct {
	Verdict string
	Out     string
	Events  int
	In      *jsAnalysis
}

func jsJudge(src string, c jsConfig) jsVerdict {
	a, err := jsAnalyze(src)
	if err != nil {
		return jsVerdict{Verdict: "INCONCLUSIVE:input " + err.Error()}
	}
	if a.UsesEval {
		return jsVerdict{Verdict: "INCONCLUSIVE:direct eval", In: a}
	}
	out, merr, pan := jsMinify(src, c)
	if pan != "" {
		return jsVerdict{Verdict: "minifier panicked: " + pan, In: a}
	}
	if merr != nil {
		return jsVerdict{Verdict: "REJECTED", In: a}
	}
	oi, err := jsExec(src, a, 3000)
	if err != nil {
		return jsVerdict{Verdict: "INCONCLUSIVE:worker " + err.Error(), Out: out, In: a}
	}
	if oi.Inconclusive != "" {
		return jsVerdict{Verdict: "INCONCLUSIVE:input " + oi.Inconclusive, Out: out, In: a}
	}
	if oi.Completion == "compile-error" {
		return jsVerdict{Verdict: "INCONCLUSIVE:input does not compile in V8", Out: out, In: a}
	}
	if strings.HasPrefix(oi.Completion, "throw err(ReferenceError)") {
		return jsVerdict{Verdict: "INCONCLUSIVE:input throws ReferenceError (TDZ, excluded)", Out: out, In: a}
	}
	for _, l := range oi.Log {
		// every free name is defined by the mock environment, so a ReferenceError seen by the program is a TDZ error: excluded domain
		if strings.Contains(l, "err(ReferenceError)") {
			return jsVerdict{Verdict: "INCONCLUSIVE:input observes a ReferenceError (TDZ, excluded)", Out: out, In: a}
		}
	}
	oo, err := jsExec(out, a, 6000)
	if err != nil {
		return jsVerdict{Verdict: "INCONCLUSIVE:worker " + err.Error(), Out: out, In: a}
	}
	if oo.Completion == "compile-error" {
		sv, _ := jsSyntax(out, a.Kind, 0, false)
		if sv.Acorn || strings.Contains(sv.Msg, "Invalid destructuring assignment target") {
			// (V8 rejects `f([1],{}={})` although the grammar allows it: a V8 quirk, whatever acorn says about the rest)
			// the two independent parsers disagree about the OUTPUT (e.g. V8 rejects `f([1],{}={})`, which the grammar allows): not decidable here
			return jsVerdict{Verdict: "INCONCLUSIVE:output accepted by acorn but rejected by V8", Out: out, In: a}
		}
		return jsVerdict{Verdict: "output does not compile in V8 while the input does (" + sv.Msg + ")", Out: out, Events: len(oi.Log), In: a}
	}
	if oo.Inconclusive != "" {
		return jsVerdict{Verdict: "INCONCLUSIVE:output " + oo.Inconclusive, Out: out, In: a}
	}
	if d := diffObs(oi, oo); d != "" {
		return jsVerdict{Verdict: d, Out: out, Events: len(oi.Log), In: a}
	}
	return jsVerdict{Out: out, Events: len(oi.Log) + len(oi.Globals) + len(oi.Lexicals), In: a}
}

func coreStream(i int) *core.Rand { return core.Stream(77, "jsgen-stats", fmt.Sprint(i)) }

func min(a, b int) int {
	if a < b {
		return a
	}
	return b
}
