package checks

// Reference model of the command line tool (C19, reused by C16/C20): given an initial tree and an
// invocation it computes — from the documented rules and from *library* calls, without looking at what
// the command did — the expected final tree, exit status and standard output.

import (
	"bytes"
	"fmt"
	"path/filepath"
	"regexp"
	"sort"
	"strconv"
	"strings"

	"github.com/tdewolff/minify/v2"
	"github.com/tdewolff/minify/v2/css"
	"github.com/tdewolff/minify/v2/html"
	"github.com/tdewolff/minify/v2/js"
	"github.com/tdewolff/minify/v2/json"
	"github.com/tdewolff/minify/v2/svg"
	"github.com/tdewolff/minify/v2/xml"
)

// documented extension table (README "minify -l")
var cliExtMap = map[string]string{
	"asp": "text/asp", "css": "text/css", "ejs": "text/x-ejs-template", "gohtml": "text/x-go-template",
	"handlebars": "text/x-handlebars-template", "htm": "text/html", "html": "text/html",
	"js": "application/javascript", "json": "application/json", "mjs": "application/javascript",
	"mustache": "text/x-mustache-template", "php": "application/x-httpd-php", "rss": "application/rss+xml",
	"svg": "image/svg+xml", "tmpl": "text/x-go-template", "webmanifest": "application/manifest+json",
	"xhtml": "application/xhtml-xml", "xml": "text/xml",
}

type cliInv struct {
	Inputs    []string
	Output    string
	Recursive bool
	All       bool
	Bundle    bool
	Sync      bool
	Quiet     bool
	Verbose   int
	Type      string
	Match     []string
	Filters   []string // "+pattern" include / "-pattern" exclude, in order
	Preserve  *string
	Stdin     *string
	Flags     []string          // minifier option flags, e.g. --js-keep-var-names, --css-precision=3
	Ext       map[string]string // --ext.<extension>=<filetype or media type>
}

func (v cliInv) Args() []string {
	var a []string
	if v.Quiet {
		a = append(a, "-q")
	}
	for i := 0; i < v.Verbose; i++ {
		a = append(a, "-v")
	}
	if v.Recursive {
		a = append(a, "-r")
	}
	if v.All {
		a = append(a, "-a")
	}
	if v.Bundle {
		a = append(a, "-b")
	}
	if v.Sync {
		a = append(a, "-s")
	}
	if v.Type != "" {
		a = append(a, "--type="+v.Type)
	}
	for _, m := range v.Match {
		a = append(a, "--match="+m)
	}
	for _, f := range v.Filters {
		if f[0] == '+' {
			a = append(a, "--include="+f[1:])
		} else {
			a = append(a, "--exclude="+f[1:])
		}
	}
	if v.Preserve != nil {
		a = append(a, "-p="+*v.Preserve)
	}
	a = append(a, v.Flags...)
	var exts []string
	for k := range v.Ext {
		exts = append(exts, k)
	}
	sort.Strings(exts)
	for _, k := range exts {
		a = append(a, "--ext."+k+"="+v.Ext[k])
	}
	if v.Output != "" {
		a = append(a, "-o", v.Output)
	}
	a = append(a, v.Inputs...)
	return a
}

// parseCLIArgs understands the subset of the command line used by the fixed C20 cases.
func parseCLIArgs(args []string) cliInv {
	var v cliInv
	for i := 0; i < len(args); i++ {
		a := args[i]
		val := func() string {
			if j := strings.IndexByte(a, '='); j >= 0 {
				return a[j+1:]
			}
			i++
			return args[i]
		}
		switch {
		case a == "-q":
			v.Quiet = true
		case a == "-v":
			v.Verbose++
		case a == "-r":
			v.Recursive = true
		case a == "-a":
			v.All = true
		case a == "-b":
			v.Bundle = true
		case a == "-s":
			v.Sync = true
		case a == "-o":
			v.Output = val()
		case a == "-p" || strings.HasPrefix(a, "-p="):
			s := val()
			v.Preserve = &s
		case a == "--type" || strings.HasPrefix(a, "--type="):
			v.Type = val()
		case a == "--match" || strings.HasPrefix(a, "--match="):
			v.Match = append(v.Match, val())
		case a == "--include" || strings.HasPrefix(a, "--include="):
			v.Filters = append(v.Filters, "+"+val())
		case a == "--exclude" || strings.HasPrefix(a, "--exclude="):
			v.Filters = append(v.Filters, "-"+val())
		case strings.HasPrefix(a, "--ext."):
			if j := strings.IndexByte(a, '='); j >= 0 {
				if v.Ext == nil {
					v.Ext = map[string]string{}
				}
				v.Ext[a[len("--ext."):j]] = a[j+1:]
			}
		case strings.HasPrefix(a, "--"):
			v.Flags = append(v.Flags, a)
		default:
			v.Inputs = append(v.Inputs, a)
		}
	}
	return v
}

// cliRegistry builds the registry the README describes for the command, with the option flags applied.
func cliRegistry(flags []string) (*minify.M, error) {
	c, h, j, jn, s, x := &css.Minifier{}, &html.Minifier{}, &js.Minifier{}, &json.Minifier{}, &svg.Minifier{}, &xml.Minifier{}
	for _, f := range flags {
		name, val := f, ""
		if i := strings.IndexByte(f, '='); i >= 0 {
			name, val = f[:i], f[i+1:]
		}
		n, _ := strconv.Atoi(val)
		switch name {
		case "--css-precision":
			c.Precision = n
		case "--html-keep-comments":
			h.KeepComments = true
		case "--html-keep-conditional-comments":
			h.KeepConditionalComments = true
		case "--html-keep-special-comments":
			h.KeepSpecialComments = true
		case "--html-keep-default-attrvals":
			h.KeepDefaultAttrVals = true
		case "--html-keep-document-tags":
			h.KeepDocumentTags = true
		case "--html-keep-end-tags":
			h.KeepEndTags = true
		case "--html-keep-whitespace":
			h.KeepWhitespace = true
		case "--html-keep-quotes":
			h.KeepQuotes = true
		case "--js-precision":
			j.Precision = n
		case "--js-keep-var-names":
			j.KeepVarNames = true
		case "--js-version":
			j.Version = n
		case "--json-precision":
			jn.Precision = n
		case "--json-keep-numbers":
			jn.KeepNumbers = true
		case "--svg-keep-comments":
			s.KeepComments = true
		case "--svg-precision":
			s.Precision = n
		case "--xml-keep-whitespace":
			x.KeepWhitespace = true
		default:
			return nil, fmt.Errorf("model: unknown flag %s", f)
		}
	}
	m := minify.New()
	m.Add("text/css", c)
	m.Add("text/html", h)
	m.Add("image/svg+xml", s)
	m.AddRegexp(regexp.MustCompile("^(application|text)/(x-)?(java|ecma|j|live)script(1\\.[0-5])?$|^module$"), j)
	m.AddRegexp(regexp.MustCompile("[/+]json$"), jn)
	m.AddRegexp(regexp.MustCompile("[/+]xml$"), x)
	asp := *h
	asp.TemplateDelims = [2]string{"<%", "%>"}
	m.Add("text/asp", &asp)
	m.Add("text/x-ejs-template", &asp)
	php := *h
	php.TemplateDelims = [2]string{"<?", "?>"}
	m.Add("application/x-httpd-php", &php)
	tmpl := *h
	tmpl.TemplateDelims = [2]string{"{{", "}}"}
	m.Add("text/x-go-template", &tmpl)
	m.Add("text/x-mustache-template", &tmpl)
	m.Add("text/x-handlebars-template", &tmpl)
	return m, nil
}

// ---- tiny file-system view over a snapshot ------------------------------------------------------

type snapFS map[string]string // rel path -> "F:data" | "L:target" | "D"

func treeSnapshot(files []treeFile) snapFS {
	s := snapFS{}
	addDirs := func(p string) {
		for d := filepath.Dir(p); d != "." && d != "/"; d = filepath.Dir(d) {
			s[d] = "D"
		}
	}
	for _, f := range files {
		if strings.HasSuffix(f.Path, "/") {
			p := strings.TrimSuffix(f.Path, "/")
			s[p] = "D"
			addDirs(p)
			continue
		}
		addDirs(f.Path)
		switch {
		case f.Symlink != "":
			s[f.Path] = "L:" + f.Symlink
		case f.Link != "":
			s[f.Path] = s[f.Link]
		default:
			s[f.Path] = "F:" + f.Data
		}
	}
	return s
}

func (s snapFS) clone() snapFS {
	c := snapFS{}
	for k, v := range s {
		c[k] = v
	}
	return c
}

// resolve follows symlinks in every component; returns the cleaned real path ("." for the root).
func (s snapFS) resolve(p string) (string, bool) {
	p = filepath.Clean(p)
	for hop := 0; hop < 16; hop++ {
		if p == "." {
			return ".", true
		}
		parts := strings.Split(p, "/")
		cur := ""
		changed := false
		for i, part := range parts {
			if cur == "" {
				cur = part
			} else {
				cur = cur + "/" + part
			}
			e, ok := s[cur]
			if !ok {
				return "", false
			}
			if strings.HasPrefix(e, "L:") {
				t := e[2:]
				if !filepath.IsAbs(t) {
					t = filepath.Join(filepath.Dir(cur), t)
				}
				rest := strings.Join(parts[i+1:], "/")
				p = filepath.Clean(filepath.Join(t, rest))
				changed = true
				break
			}
		}
		if !changed {
			return p, true
		}
		if strings.HasPrefix(p, "..") || filepath.IsAbs(p) {
			return "", false
		}
	}
	return "", false
}

func (s snapFS) isDir(p string) bool {
	r, ok := s.resolve(p)
	return ok && (r == "." || s[r] == "D")
}

func (s snapFS) lIsDir(p string) bool { // no dereference of the last component
	p = filepath.Clean(p)
	return p == "." || s[p] == "D"
}

func (s snapFS) readFile(p string) ([]byte, bool) {
	r, ok := s.resolve(p)
	if !ok || !strings.HasPrefix(s[r], "F:") {
		return nil, false
	}
	return []byte(s[r][2:]), true
}

func (s snapFS) children(dir string) []string {
	var names []string
	prefix := dir + "/"
	if dir == "." {
		prefix = ""
	}
	for k := range s {
		if strings.HasPrefix(k, prefix) && k != dir {
			rest := k[len(prefix):]
			if rest != "" && !strings.Contains(rest, "/") {
				names = append(names, rest)
			}
		}
	}
	sort.Strings(names)
	return names
}

func (s snapFS) mkdirAll(p string) {
	p = filepath.Clean(p)
	for d := p; d != "." && d != "/"; d = filepath.Dir(d) {
		if r, ok := s.resolve(d); ok && (r == "." || s[r] == "D") {
			continue
		}
		s[d] = "D"
	}
}

// writeFile writes through symlinks like open(2) does.
func (s snapFS) writeFile(p string, data []byte) {
	p = filepath.Clean(p)
	s.mkdirAll(filepath.Dir(p))
	if r, ok := s.resolve(p); ok {
		p = r
	} else if dr, ok := s.resolve(filepath.Dir(p)); ok {
		p = filepath.Join(dr, filepath.Base(p))
		if e, has := s[p]; has && strings.HasPrefix(e, "L:") { // dangling link: created at its target
			t := e[2:]
			if !filepath.IsAbs(t) {
				t = filepath.Join(filepath.Dir(p), t)
			}
			p = filepath.Clean(t)
		}
	}
	s[p] = "F:" + string(data)
}

// ---- the model ---------------------------------------------------------------------------------

type cliTask struct {
	srcs []string
	dst  string
	copy bool // sync: copy verbatim
	link bool // sync with preserved links: recreate the symlink
}

type cliExpected struct {
	FS         snapFS
	Exit       int
	Stdout     []byte
	CheckOut   bool     // stdout is the destination: its bytes are part of the contract
	Usage      bool     // the invocation is rejected before anything is touched
	Tasks      []string // human readable
	Unmodelled string   // non-empty: the model declines to predict this invocation
	Written    map[string]bool
	InPlace    map[string]bool
}

func cliGlob(pattern string) (*regexp.Regexp, error) {
	if len(pattern) == 0 || pattern[0] != '~' {
		pattern = strings.TrimPrefix(pattern, `\`)
		var b strings.Builder
		b.WriteString("^")
		for i := 0; i < len(pattern); i++ {
			switch {
			case strings.HasPrefix(pattern[i:], "**"):
				b.WriteString(".*")
				i++
			case pattern[i] == '*':
				b.WriteString("[^/]*")
			case pattern[i] == '?':
				b.WriteString("[^/]?")
			default:
				b.WriteString(regexp.QuoteMeta(pattern[i : i+1]))
			}
		}
		b.WriteString("$")
		return regexp.Compile(b.String())
	}
	return regexp.Compile(pattern[1:])
}

func cliExpect(tree []treeFile, v cliInv) cliExpected {
	fsys := treeSnapshot(tree)
	exp := cliExpected{FS: fsys.clone(), Written: map[string]bool{}, InPlace: map[string]bool{}}
	usage := func() cliExpected { exp.Exit, exp.Usage = 1, true; return exp }

	reg, err := cliRegistry(v.Flags)
	if err != nil {
		exp.Unmodelled = err.Error()
		return exp
	}
	// --ext adds extension -> type entries (a short type name stands for its media type)
	extMap := map[string]string{}
	for k, t := range cliExtMap {
		extMap[k] = t
	}
	for k, t := range v.Ext {
		if mt, ok := cliExtMap[t]; ok {
			t = mt
		}
		extMap[k] = t
	}
	var matchRe, filterRe []*regexp.Regexp
	for _, m := range v.Match {
		re, err := cliGlob(m)
		if err != nil {
			return usage()
		}
		matchRe = append(matchRe, re)
	}
	for _, f := range v.Filters {
		re, err := cliGlob(f[1:])
		if err != nil {
			return usage()
		}
		filterRe = append(filterRe, re)
	}
	mimetype := v.Type
	if mimetype != "" && !strings.Contains(mimetype, "/") {
		mt, ok := extMap[mimetype]
		if !ok {
			return usage()
		}
		mimetype = mt
	}
	// absolute spellings of tree paths ($ROOT/...) name the same files
	inputs := make([]string, len(v.Inputs))
	for i, in := range v.Inputs {
		inputs[i] = strings.TrimPrefix(strings.Replace(in, "$ROOT/", "", 1), "$ROOT")
		if inputs[i] == "" {
			inputs[i] = "."
		}
	}
	output := strings.TrimPrefix(strings.Replace(v.Output, "$ROOT/", "", 1), "$ROOT")
	if len(inputs) == 1 && inputs[0] == "-" {
		inputs = nil
	} else if output == "-" {
		output = ""
	}
	useStdin := len(inputs) == 0
	switch {
	case (useStdin || output == "") && v.Sync,
		useStdin && (v.Bundle || v.Recursive),
		output == "" && v.Recursive && !v.Bundle,
		mimetype == "" && useStdin,
		mimetype != "" && v.Sync,
		v.Preserve != nil && (useStdin || output == ""):
		return usage()
	}
	preserveLinks := false
	if v.Preserve != nil && output != "" {
		for _, o := range strings.Split(*v.Preserve, ",") {
			if o == "all" || o == "links" {
				preserveLinks = true
			}
		}
	}
	passes := func(path string) bool {
		if len(matchRe) > 0 {
			ok := false
			for _, re := range matchRe {
				if re.MatchString(filepath.Base(path)) {
					ok = true
				}
			}
			if !ok {
				return false
			}
		}
		ok := true
		for i, re := range filterRe {
			if re.MatchString(path) {
				ok = v.Filters[i][0] == '+'
			}
		}
		return ok
	}
	knownExt := func(path string) bool {
		_, ok := extMap[strings.TrimPrefix(filepath.Ext(path), ".")]
		return ok
	}

	dirDst := false
	if output != "" {
		switch {
		case strings.HasSuffix(output, "/"):
			dirDst = true
		case !v.Bundle && len(inputs) > 1:
			dirDst = true
		case !v.Bundle && len(inputs) == 1 && fsys.lIsDir(inputs[0]):
			dirDst = true
		}
		if dirDst && v.Bundle {
			return usage()
		}
		output = filepath.Clean(output)
		if !dirDst && output != "." && fsys.lIsDir(output) {
			// a file-form output (no trailing slash, one input) that names an existing directory: the documentation does
			// not say whether it is used as a directory or refused; not predicted
			exp.Unmodelled = "file-form output names an existing directory"
			return exp
		}
	} else if !v.Bundle && len(inputs) > 1 {
		return usage()
	}
	dest := func(root, path string) string {
		if output == "" {
			return ""
		}
		if dirDst || output == "." { // "." always names the working directory
			rel, _ := filepath.Rel(root, path)
			return filepath.Join(output, rel)
		}
		return output
	}

	var tasks []cliTask
	if useStdin {
		tasks = append(tasks, cliTask{srcs: []string{""}, dst: output})
	}
	for _, in := range inputs {
		if in == "-" {
			return usage()
		}
		path := filepath.Clean(in)
		root := filepath.Clean(filepath.Dir(in)) // "src/" mirrors the content of src, "src" mirrors src itself
		e, exists := fsys[path]
		if path == "." {
			e, exists = "D", true
		}
		if !exists {
			if _, ok := fsys.resolve(path); !ok {
				return usage()
			}
		}
		isLink := strings.HasPrefix(e, "L:")
		if isLink && !preserveLinks {
			r, ok := fsys.resolve(path)
			if !ok {
				return usage()
			}
			if r == "." {
				e = "D"
			} else {
				e = fsys[r]
			}
			isLink = false
		}
		switch {
		case isLink:
			if !v.Sync {
				return usage()
			}
			tasks = append(tasks, cliTask{srcs: []string{path}, dst: dest(root, path), link: true})
		case strings.HasPrefix(e, "F:"):
			valid := passes(path)
			if valid || v.Sync {
				if mimetype == "" && !v.Sync && !knownExt(path) {
					return usage()
				}
				if v.Sync && valid && !knownExt(path) {
					exp.Unmodelled = "sync with an explicitly named file of unknown type"
					return exp
				}
				tasks = append(tasks, cliTask{srcs: []string{path}, dst: dest(root, path), copy: !valid})
			}
		case e == "D":
			if !v.Recursive {
				continue
			}
			var walk func(p string, top bool) bool
			walk = func(p string, top bool) bool {
				name := filepath.Base(p)
				ent := fsys[p]
				if p == "." {
					ent = "D"
				}
				if !(top && (name == "." || name == "..")) && !v.All && strings.HasPrefix(name, ".") {
					return true
				}
				if strings.HasPrefix(ent, "L:") {
					if preserveLinks {
						if v.Sync {
							tasks = append(tasks, cliTask{srcs: []string{p}, dst: dest(root, p), link: true})
						}
						return true
					}
					r, ok := fsys.resolve(p)
					if !ok {
						return false // dangling link: the walk fails
					}
					if r == "." || fsys[r] == "D" {
						// the walk restarts below the link, with the link's own path as prefix
						for _, c := range fsys.children(r) {
							sub := c
							if r != "." {
								sub = r + "/" + c
							}
							_ = sub
							if !walk(p+"/"+c, false) {
								return false
							}
						}
						return true
					}
					ent = fsys[r]
				}
				switch {
				case ent == "D":
					for _, c := range fsys.children(p) {
						child := p + "/" + c
						if p == "." {
							child = c
						}
						if !walk(child, false) {
							return false
						}
					}
				case strings.HasPrefix(ent, "F:"):
					valid := passes(p) && (mimetype != "" || knownExt(p))
					if valid || v.Sync {
						tasks = append(tasks, cliTask{srcs: []string{p}, dst: dest(root, p), copy: !valid})
					}
				}
				return true
			}
			if !walk(path, true) {
				return usage()
			}
		}
	}
	if v.Bundle && len(tasks) > 1 {
		for _, t := range tasks[1:] {
			tasks[0].srcs = append(tasks[0].srcs, t.srcs[0])
		}
		tasks = tasks[:1]
	}
	if dirDst {
		exp.FS.mkdirAll(output)
	}

	// destinations that collide make the result depend on scheduling: the model declines
	seenDst := map[string]bool{}
	for _, t := range tasks {
		if t.dst == "" {
			continue
		}
		d := t.dst
		if r, ok := fsys.resolve(d); ok {
			d = r
		}
		if seenDst[d] {
			exp.Unmodelled = "two tasks share the destination " + d
			return exp
		}
		seenDst[d] = true
	}
	// an output that is an input of another task is order dependent as well
	for _, t := range tasks {
		for _, u := range tasks {
			if &t == &u {
				continue
			}
		}
	}
	srcOf := map[string]int{}
	for i, t := range tasks {
		for _, s := range t.srcs {
			if r, ok := fsys.resolve(s); ok {
				srcOf[r] = i + 1
			}
		}
	}
	for i, t := range tasks {
		if t.dst == "" {
			continue
		}
		if r, ok := fsys.resolve(t.dst); ok {
			if j := srcOf[r]; j != 0 && j != i+1 {
				exp.Unmodelled = "a task writes the input of another task: " + r
				return exp
			}
		}
	}

	for _, t := range tasks {
		exp.Tasks = append(exp.Tasks, fmt.Sprintf("%v -> %q copy=%v link=%v", t.srcs, t.dst, t.copy, t.link))
		if t.link {
			if filepath.Clean(t.srcs[0]) == filepath.Clean(t.dst) {
				continue
			}
			exp.FS.mkdirAll(filepath.Dir(t.dst))
			exp.FS[filepath.Clean(t.dst)] = fsys[t.srcs[0]]
			exp.Written[filepath.Clean(t.dst)] = true
			continue
		}
		if t.copy && filepath.Clean(t.srcs[0]) == filepath.Clean(t.dst) {
			continue
		}
		// type
		mt := mimetype
		if mt == "" && !t.copy {
			bad := false
			for _, s := range t.srcs {
				m, ok := extMap[strings.TrimPrefix(filepath.Ext(s), ".")]
				if !ok || (mt != "" && m != mt) {
					bad = true
					break
				}
				mt = m
			}
			if bad {
				exp.Exit = 1 // nothing is written for this task
				continue
			}
		}
		// content
		var in []byte
		missing := false
		for i, s := range t.srcs {
			var b []byte
			if s == "" {
				if v.Stdin != nil {
					b = []byte(*v.Stdin)
				}
			} else {
				var ok bool
				if b, ok = fsys.readFile(s); !ok {
					missing = true
				}
			}
			if i > 0 && mt == extMap["js"] {
				in = append(in, ";\n"...)
			}
			in = append(in, b...)
		}
		if missing {
			exp.Exit = 1
			continue
		}
		out := in
		if !t.copy {
			var w bytes.Buffer
			if err := reg.Minify(mt, &w, bytes.NewReader(in)); err != nil {
				exp.Exit = 1
			} else {
				out = w.Bytes()
			}
		}
		if t.dst == "" {
			exp.Stdout = append(exp.Stdout, out...)
			exp.CheckOut = true
			continue
		}
		d := filepath.Clean(t.dst)
		// in place: the new file replaces the directory entry (a symlink at the destination is replaced,
		// not followed, because the old entry is moved aside first)
		same := false
		for _, s := range t.srcs {
			rs, ok1 := fsys.resolve(s)
			rd, ok2 := fsys.resolve(d)
			if ok1 && ok2 && (rs == rd || (fsys[rs] == fsys[rd] && hardLinked(tree, rs, rd))) {
				same = true
			}
		}
		if same {
			exp.InPlace[d] = true
			delete(exp.FS, d)
			exp.FS.mkdirAll(filepath.Dir(d))
			exp.FS[d] = "F:" + string(out)
		} else {
			exp.FS.writeFile(d, out)
		}
		exp.Written[d] = true
	}
	return exp
}

func hardLinked(tree []treeFile, a, b string) bool {
	for _, f := range tree {
		if f.Link != "" && ((f.Path == a && f.Link == b) || (f.Path == b && f.Link == a)) {
			return true
		}
	}
	return false
}
