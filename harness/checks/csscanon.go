package checks

// Independent CSS value interpreter for C04: turns a declaration into the longhands it sets, each with a
// canonical value (numbers by value, zero lengths unitless, colours as RGBA, strings/URLs by content,
// shorthands expanded with omitted components at their initial values).

import (
	"fmt"
	"math"
	"sort"
	"strconv"
	"strings"
)

var cssLengthUnits = setOf("px", "em", "rem", "ex", "ch", "vw", "vh", "vmin", "vmax", "cm", "mm", "q", "in", "pt", "pc", "lh", "rlh", "vi", "vb", "svw", "svh", "lvw", "lvh", "dvw", "dvh", "cap", "ic")

var cssColorProps = setOf("color", "background", "background-color", "border", "border-color", "border-top", "border-right", "border-bottom", "border-left",
	"border-top-color", "border-right-color", "border-bottom-color", "border-left-color", "outline", "outline-color", "text-decoration", "text-decoration-color",
	"box-shadow", "text-shadow", "fill", "stroke", "column-rule", "column-rule-color", "caret-color", "stop-color", "flood-color", "lighting-color", "text-emphasis-color", "text-emphasis", "accent-color", "scrollbar-color")

// properties whose identifiers are author-defined names (case-sensitive): never folded
var cssCustomIdentProps = setOf("animation", "animation-name", "grid-area", "grid-template-areas", "grid-row", "grid-column", "grid-template-columns", "grid-template-rows",
	"counter-reset", "counter-increment", "counter-set", "will-change", "transition", "transition-property", "list-style", "list-style-type", "container", "container-name", "view-transition-name", "font-feature-settings", "voice-family", "page")

func cssNum(lex string) (float64, bool) {
	f, err := strconv.ParseFloat(lex, 64)
	if err != nil && !math.IsInf(f, 0) {
		return 0, false
	}
	return f, true
}

func fmtNum(f float64) string {
	if f == 0 {
		return "0"
	}
	return strconv.FormatFloat(f, 'g', -1, 64)
}

func clamp255(f float64) int {
	v := int(math.Floor(f + 0.5))
	if v < 0 {
		return 0
	}
	if v > 255 {
		return 255
	}
	return v
}

func fmtColor(r, g, b int, a float64) string {
	if a <= 0 {
		return "rgba(0,0,0,0)" // every fully transparent colour paints the same
	}
	if a > 1 {
		a = 1
	}
	return fmt.Sprintf("rgba(%d,%d,%d,%s)", r, g, b, fmtNum(math.Round(a*1000)/1000))
}

func hexColor(h string) (string, bool) {
	for i := 0; i < len(h); i++ {
		if !isHexDigitC(h[i]) {
			return "", false
		}
	}
	x := func(s string) int { v, _ := strconv.ParseInt(s, 16, 32); return int(v) }
	switch len(h) {
	case 3, 4:
		a := 1.0
		if len(h) == 4 {
			a = float64(x(h[3:4]+h[3:4])) / 255
		}
		return fmtColor(x(h[0:1]+h[0:1]), x(h[1:2]+h[1:2]), x(h[2:3]+h[2:3]), a), true
	case 6, 8:
		a := 1.0
		if len(h) == 8 {
			a = float64(x(h[6:8])) / 255
		}
		return fmtColor(x(h[0:2]), x(h[2:4]), x(h[4:6]), a), true
	}
	return "", false
}

func hue2rgb(p, q, t float64) float64 {
	if t < 0 {
		t++
	}
	if t > 1 {
		t--
	}
	switch {
	case t < 1.0/6:
		return p + (q-p)*6*t
	case t < 1.0/2:
		return q
	case t < 2.0/3:
		return p + (q-p)*(2.0/3-t)*6
	}
	return p
}

// colorFunction evaluates rgb()/rgba()/hsl()/hsla() in legacy (comma) and modern (space, slash) syntax.
func colorFunction(name string, args []cTok) (string, bool) {
	var comps []cTok
	slash := false
	commas := false
	for _, a := range args {
		switch a.K {
		case ',':
			commas = true
		case 'w':
		case 'c':
			if a.S == "/" {
				slash = true
			} else {
				return "", false
			}
		case 'n', '%', 'd':
			comps = append(comps, a)
		default:
			return "", false // var(), calc(), none ...
		}
	}
	_ = slash
	if len(comps) != 3 && len(comps) != 4 {
		return "", false
	}
	alpha := 1.0
	if len(comps) == 4 {
		f, ok := cssNum(comps[3].Num)
		if !ok || comps[3].K == 'd' {
			return "", false
		}
		if comps[3].K == '%' {
			f /= 100
		}
		alpha = f
	}
	switch name {
	case "rgb", "rgba":
		var v [3]int
		for i := 0; i < 3; i++ {
			f, ok := cssNum(comps[i].Num)
			if !ok || comps[i].K == 'd' {
				return "", false
			}
			if comps[i].K == '%' {
				f = f * 255 / 100
			}
			v[i] = clamp255(f)
		}
		if commas && (comps[0].K != comps[1].K || comps[1].K != comps[2].K) {
			return "", false // mixing numbers and percentages is invalid in the legacy syntax
		}
		return fmtColor(v[0], v[1], v[2], alpha), true
	case "hsl", "hsla":
		h, ok := cssNum(comps[0].Num)
		if !ok || math.Abs(h) > 1e9 {
			return "", false // beyond exact floating-point reduction
		}
		if comps[0].K == 'd' {
			switch strings.ToLower(comps[0].Unit) {
			case "deg":
			case "turn":
				h *= 360
			case "rad":
				h = h * 180 / math.Pi
			case "grad":
				h = h * 0.9
			default:
				return "", false
			}
		} else if comps[0].K == '%' {
			return "", false
		}
		if comps[1].K != '%' || comps[2].K != '%' {
			return "", false
		}
		s, _ := cssNum(comps[1].Num)
		l, _ := cssNum(comps[2].Num)
		s, l = math.Max(0, math.Min(100, s))/100, math.Max(0, math.Min(100, l))/100
		h = math.Mod(h, 360)
		if h < 0 {
			h += 360
		}
		h /= 360
		var r, g, b float64
		if s == 0 {
			r, g, b = l, l, l
		} else {
			q := l + s - l*s
			if l < 0.5 {
				q = l * (1 + s)
			}
			p := 2*l - q
			r, g, b = hue2rgb(p, q, h+1.0/3), hue2rgb(p, q, h), hue2rgb(p, q, h-1.0/3)
		}
		return fmtColor(clamp255(r*255), clamp255(g*255), clamp255(b*255), alpha), true
	}
	return "", false
}

// functions whose angle argument may be written as a unitless zero (css-transforms, filter-effects)
var cssZeroAngleFuncs = setOf("rotate", "rotatex", "rotatey", "rotatez", "rotate3d", "skew", "skewx", "skewy", "hue-rotate")

// canonURL: data: URIs are compared by media type and decoded payload (their encoding is C18's subject).
func canonURL(u string) string {
	u = strings.TrimSpace(u)
	if len(u) > 5 && strings.EqualFold(u[:5], "data:") {
		// inside a CSS string or url() raw spaces, quotes and parentheses are ordinary payload bytes; only a `%` that
		// does not start an escape leaves the meaning to the consumer
		if p, ok := rfc2397Decode([]byte(u)); ok && (p.validEnc || !strayPercent(u)) {
			mt := normMediatype(p.mediatype)
			if mt == "" {
				mt = "text/plain;charset=us-ascii"
			}
			return fmt.Sprintf("url(data:%s,%x)", mt, p.payload)
		}
	}
	return "url(" + u + ")"
}

func strayPercent(u string) bool {
	isHex := func(c byte) bool { return c >= '0' && c <= '9' || c >= 'a' && c <= 'f' || c >= 'A' && c <= 'F' }
	for i := 0; i < len(u); i++ {
		if u[i] == '%' && !(i+2 < len(u) && isHex(u[i+1]) && isHex(u[i+2])) {
			return true
		}
	}
	return false
}

type canonCtx struct {
	zeroAngle bool
	prop      string
	colors    bool
	foldIdent bool
	zeroUnit  bool // a zero length may be written without unit here
}

func ctxFor(prop string) canonCtx {
	return canonCtx{prop: prop, colors: cssColorProps[prop], foldIdent: !cssCustomIdentProps[prop] && prop != "font-family" && prop != "font" && prop != "content" && prop != "quotes",
		zeroUnit: prop != "flex" && !strings.HasPrefix(prop, "--")}
}

// canonTok gives the canonical spelling of one component value.
func canonTok(t cTok, c canonCtx) string {
	switch t.K {
	case 'n':
		f, ok := cssNum(t.Num)
		if !ok {
			return t.Raw
		}
		return fmtNum(f)
	case '%':
		f, ok := cssNum(t.Num)
		if !ok {
			return t.Raw
		}
		return fmtNum(f) + "%"
	case 'd':
		f, ok := cssNum(t.Num)
		if !ok {
			return t.Raw
		}
		u := strings.ToLower(t.Unit)
		if f == 0 && cssLengthUnits[u] && c.zeroUnit {
			return "0"
		}
		if f == 0 && c.zeroAngle && (u == "deg" || u == "rad" || u == "grad" || u == "turn") {
			return "0"
		}
		return fmtNum(f) + u
	case '#':
		if col, ok := hexColor(t.S); ok {
			return col
		}
		return "#" + t.S
	case 'i':
		l := strings.ToLower(t.S)
		if c.colors {
			if l == "transparent" {
				return fmtColor(0, 0, 0, 0)
			}
			if hex, ok := cssNamedColors[l]; ok {
				col, _ := hexColor(strings.TrimPrefix(hex, "#"))
				return col
			}
		}
		if c.foldIdent {
			return l
		}
		return t.S
	case 's':
		return "\"" + t.S + "\""
	case 'u':
		return canonURL(t.S)
	case 'f':
		name := strings.ToLower(t.S)
		switch name {
		case "rgb", "rgba", "hsl", "hsla":
			if col, ok := colorFunction(name, t.Args); ok {
				return col
			}
		case "url":
			for _, a := range t.Args {
				if a.K == 's' {
					return canonURL(a.S)
				}
			}
		case "local":
			// local("Font Name") == local(Font Name)
			var words []string
			for _, a := range t.Args {
				switch a.K {
				case 's':
					words = append(words, strings.Fields(a.S)...)
				case 'i':
					words = append(words, a.S)
				case 'w':
				default:
					words = append(words, canonTok(a, c))
				}
			}
			return "local(" + strings.Join(words, " ") + ")"
		case "var", "env", "attr":
			return name + "(" + canonSeq(t.Args, canonCtx{}, false) + ")"
		}
		inner := c
		inner.zeroAngle = cssZeroAngleFuncs[name]
		if name == "calc" || name == "min" || name == "max" || name == "clamp" {
			inner.zeroUnit = false // 0px and 0 differ inside math functions
			return name + "(" + canonSeq(t.Args, inner, true) + ")"
		}
		return name + "(" + canonSeq(t.Args, inner, false) + ")"
	case 'w':
		return " "
	case 'c':
		return t.S
	}
	return string(t.K)
}

// canonSeq joins canonical tokens with single spaces; no space next to a comma or slash.  Inside math
// functions + and - keep their spaces, * and / lose them.  Whitespace in the source never matters: two
// adjacent tokens are two component values whether or not a space separates them.
func canonSeq(ts []cTok, c canonCtx, math bool) string {
	var parts []string
	for _, t := range ts {
		if t.K == 'w' {
			continue
		}
		parts = append(parts, canonTok(t, c))
	}
	var b strings.Builder
	for i, p := range parts {
		if i > 0 {
			prev := parts[i-1]
			tight := prev == "," || prev == "/" || p == "," || p == "/"
			if math && (prev == "*" || p == "*") {
				tight = true
			}
			if !tight {
				b.WriteString(" ")
			}
		}
		b.WriteString(p)
	}
	return b.String()
}

// splitTop splits a value into component values: every top-level token is one (whitespace only separates).
func splitTop(ts []cTok) [][]cTok {
	var out [][]cTok
	for _, t := range ts {
		if t.K == 'w' {
			continue
		}
		out = append(out, []cTok{t})
	}
	return out
}

func splitCommas(comps [][]cTok) [][][]cTok {
	var out [][][]cTok
	var cur [][]cTok
	for _, c := range comps {
		if len(c) == 1 && c[0].K == ',' {
			out = append(out, cur)
			cur = nil
			continue
		}
		cur = append(cur, c)
	}
	out = append(out, cur)
	return out
}

func isLenPct(t cTok) bool {
	return t.K == 'd' || t.K == '%' || t.K == 'n' || (t.K == 'f' && (strings.EqualFold(t.S, "calc") || strings.EqualFold(t.S, "var") || strings.EqualFold(t.S, "min") || strings.EqualFold(t.S, "max") || strings.EqualFold(t.S, "clamp")))
}

func identOf(c []cTok) string {
	if len(c) == 1 && c[0].K == 'i' {
		return strings.ToLower(c[0].S)
	}
	return ""
}

var cssWide = setOf("inherit", "initial", "unset", "revert", "revert-layer")

var borderStyles = setOf("none", "hidden", "dotted", "dashed", "solid", "double", "groove", "ridge", "inset", "outset")
var borderWidthsKW = setOf("thin", "medium", "thick")

func isColorComp(c []cTok) bool {
	if len(c) != 1 {
		return false
	}
	t := c[0]
	switch t.K {
	case '#':
		return true
	case 'i':
		l := strings.ToLower(t.S)
		_, named := cssNamedColors[l]
		return named || l == "transparent" || l == "currentcolor"
	case 'f':
		n := strings.ToLower(t.S)
		return n == "rgb" || n == "rgba" || n == "hsl" || n == "hsla" || n == "color" || n == "hwb" || n == "lab" || n == "lch" || n == "oklab" || n == "oklch" || n == "color-mix"
	}
	return false
}

func four(vals []string) (string, string, string, string, bool) {
	switch len(vals) {
	case 1:
		return vals[0], vals[0], vals[0], vals[0], true
	case 2:
		return vals[0], vals[1], vals[0], vals[1], true
	case 3:
		return vals[0], vals[1], vals[2], vals[1], true
	case 4:
		return vals[0], vals[1], vals[2], vals[3], true
	}
	return "", "", "", "", false
}

// bgPosition canonicalises a <position> given as 1..4 components to "x y" (edge offsets kept symbolic).
func bgPosition(comps [][]cTok, c canonCtx) (string, bool) {
	type item struct {
		kw  string
		val string
	}
	var items []item
	for _, cp := range comps {
		if kw := identOf(cp); kw != "" {
			switch kw {
			case "left", "right", "top", "bottom", "center":
				items = append(items, item{kw: kw})
			default:
				return "", false
			}
		} else if len(cp) == 1 && isLenPct(cp[0]) {
			items = append(items, item{val: canonTok(cp[0], c)})
		} else {
			return "", false
		}
	}
	pct := map[string]string{"left": "0%", "top": "0%", "center": "50%", "right": "100%", "bottom": "100%"}
	zeroPct := func(s string) string {
		if s == "0" {
			return "0%" // zero offset is the same as 0%
		}
		return s
	}
	switch len(items) {
	case 1:
		it := items[0]
		if it.kw == "top" || it.kw == "bottom" {
			return "50% " + pct[it.kw], true
		}
		if it.kw != "" {
			return pct[it.kw] + " 50%", true
		}
		return zeroPct(it.val) + " 50%", true
	case 2:
		a, b := items[0], items[1]
		// keyword pairs may come in either order
		if (a.kw == "top" || a.kw == "bottom") && (b.kw == "left" || b.kw == "right" || b.kw == "center") || (b.kw == "left" || b.kw == "right") && a.kw == "center" {
			a, b = b, a
		}
		x, y := a.val, b.val
		if a.kw != "" {
			if a.kw == "top" || a.kw == "bottom" {
				return "", false
			}
			x = pct[a.kw]
		}
		if b.kw != "" {
			if b.kw == "left" || b.kw == "right" {
				return "", false
			}
			y = pct[b.kw]
		}
		return zeroPct(x) + " " + zeroPct(y), true
	case 3, 4:
		// [ left|right|center [offset]? ] && [ top|bottom|center [offset]? ]
		x, y := "", ""
		centers := 0
		edge := func(kw, off string) string {
			if off == "" || off == "0" || off == "0%" {
				return pct[kw]
			}
			if kw == "left" || kw == "top" {
				return off
			}
			if strings.HasSuffix(off, "%") {
				if f, err := strconv.ParseFloat(strings.TrimSuffix(off, "%"), 64); err == nil {
					return fmtNum(100-f) + "%"
				}
			}
			return kw + "+" + off
		}
		for i := 0; i < len(items); i++ {
			it := items[i]
			if it.kw == "" {
				return "", false
			}
			off := ""
			if it.kw != "center" && i+1 < len(items) && items[i+1].kw == "" {
				off = items[i+1].val
				i++
			}
			switch it.kw {
			case "left", "right":
				if x != "" {
					return "", false
				}
				x = edge(it.kw, off)
			case "top", "bottom":
				if y != "" {
					return "", false
				}
				y = edge(it.kw, off)
			default:
				centers++
			}
		}
		if x == "" && centers > 0 {
			x = "50%"
			centers--
		}
		if y == "" && centers > 0 {
			y = "50%"
			centers--
		}
		if x == "" || y == "" || centers > 0 {
			return "", false
		}
		return x + " " + y, true
	}
	return "", false
}

func bgRepeat(a, b string) string {
	if b == "" {
		switch a {
		case "repeat-x":
			return "repeat no-repeat"
		case "repeat-y":
			return "no-repeat repeat"
		}
		return a + " " + a
	}
	return a + " " + b
}

// backgroundLayer expands one layer of the background shorthand.
func backgroundLayer(comps [][]cTok, c canonCtx, final bool) (map[string]string, bool) {
	l := map[string]string{"image": "none", "position": "0% 0%", "size": "auto auto", "repeat": "repeat repeat", "attachment": "scroll", "origin": "padding-box", "clip": "border-box"}
	if final {
		l["color"] = fmtColor(0, 0, 0, 0)
	}
	var pos [][]cTok
	var boxes []string
	var reps []string
	i := 0
	for i < len(comps) {
		cp := comps[i]
		kw := identOf(cp)
		switch {
		case len(cp) == 1 && cp[0].K == 'c' && cp[0].S == "/":
			// size follows
			var sz []string
			i++
			for i < len(comps) && len(sz) < 2 {
				k := identOf(comps[i])
				if k == "cover" || k == "contain" {
					if len(sz) == 0 {
						sz = append(sz, k)
						i++
					}
					break
				}
				if k == "auto" || (len(comps[i]) == 1 && isLenPct(comps[i][0])) {
					sz = append(sz, canonSeq(comps[i], c, false))
					i++
					continue
				}
				break
			}
			if len(sz) == 0 {
				return nil, false
			}
			if len(sz) == 1 && sz[0] != "cover" && sz[0] != "contain" {
				sz = append(sz, "auto")
			}
			l["size"] = strings.Join(sz, " ")
			continue
		case kw == "none":
			l["image"] = "none"
		case kw == "scroll" || kw == "fixed" || kw == "local":
			l["attachment"] = kw
		case kw == "repeat-x" || kw == "repeat-y" || kw == "repeat" || kw == "no-repeat" || kw == "space" || kw == "round":
			reps = append(reps, kw)
		case kw == "border-box" || kw == "padding-box" || kw == "content-box":
			boxes = append(boxes, kw)
		case kw == "left" || kw == "right" || kw == "top" || kw == "bottom" || kw == "center" || (len(cp) == 1 && isLenPct(cp[0]) && !(cp[0].K == 'f' && strings.EqualFold(cp[0].S, "var"))):
			pos = append(pos, cp)
		case len(cp) == 1 && (cp[0].K == 'u' || (cp[0].K == 'f' && !isColorComp(cp))):
			l["image"] = canonTok(cp[0], c)
		case isColorComp(cp):
			if !final {
				return nil, false
			}
			l["color"] = canonTok(cp[0], c)
		default:
			return nil, false
		}
		i++
	}
	if len(pos) > 0 {
		p, ok := bgPosition(pos, c)
		if !ok {
			return nil, false
		}
		l["position"] = p
	}
	switch len(reps) {
	case 1:
		l["repeat"] = bgRepeat(reps[0], "")
	case 2:
		l["repeat"] = bgRepeat(reps[0], reps[1])
	}
	switch len(boxes) {
	case 1:
		l["origin"], l["clip"] = boxes[0], boxes[0]
	case 2:
		l["origin"], l["clip"] = boxes[0], boxes[1]
	}
	return l, true
}

// expandDecl returns longhand -> canonical value.
func expandDecl(prop string, val []cTok) map[string]string {
	c := ctxFor(prop)
	modelled := false
	generic := func() map[string]string {
		m := map[string]string{prop: canonSeq(val, c, false)}
		if modelled {
			m["\x00not-understood"] = "1" // a shorthand this interpreter models, in a form it does not accept
		}
		return m
	}
	comps := splitTop(val)
	if len(comps) == 1 && cssWide[identOf(comps[0])] {
		if identOf(comps[0]) == "initial" {
			switch {
			case prop == "background-color":
				return map[string]string{prop: fmtColor(0, 0, 0, 0)}
			case strings.HasPrefix(prop, "border-") && strings.HasSuffix(prop, "-color") && prop != "border-color", prop == "text-decoration-color", prop == "text-emphasis-color":
				return map[string]string{prop: "currentcolor"}
			case prop == "border-color":
				return map[string]string{"border-top-color": "currentcolor", "border-right-color": "currentcolor", "border-bottom-color": "currentcolor", "border-left-color": "currentcolor"}
			case prop == "flex":
				return map[string]string{"flex-grow": "0", "flex-shrink": "1", "flex-basis": "auto"}
			case prop == "box-shadow" || prop == "text-shadow":
				return map[string]string{prop: "none"}
			case prop == "flex-basis":
				return map[string]string{prop: "auto"}
			case prop == "flex-grow" || prop == "order":
				return map[string]string{prop: "0"}
			case prop == "flex-shrink":
				return map[string]string{prop: "1"}
			case prop == "unicode-range":
				return map[string]string{prop: "0-10ffff,"}
			}
		}
		return generic()
	}
	for _, t := range val {
		if t.K == 'f' && strings.EqualFold(t.S, "var") {
			// anything with var() is only known at computed-value time: token stream, and not judged for the
			// shorthands this interpreter models
			m := generic()
			switch prop {
			case "background", "font", "border", "border-top", "border-right", "border-bottom", "border-left", "outline", "flex", "box-shadow", "text-shadow", "background-position", "column-rule":
				m["\x00not-understood"] = "1"
			}
			return m
		}
	}
	strs := func(cs [][]cTok) []string {
		var s []string
		for _, x := range cs {
			s = append(s, canonSeq(x, c, false))
		}
		return s
	}
	sides := []string{"top", "right", "bottom", "left"}
	modelled = true
	switch prop {
	case "-ms-filter", "filter":
		modelled = false
		if len(val) == 1 && val[0].K == 's' {
			return map[string]string{prop: "\"" + strings.Replace(val[0].S, "progid:DXImageTransform.Microsoft.Alpha(Opacity=", "alpha(opacity=", 1) + "\""}
		}
		if len(val) > 0 && val[0].K == 'i' && strings.EqualFold(val[0].S, "progid") {
			m := generic()
			m["\x00not-understood"] = "1" // legacy IE filter syntax, not CSS
			return m
		}
		return generic()
	case "margin", "padding", "border-width", "border-style", "border-color", "inset", "scroll-margin", "scroll-padding":
		t, r, b, l, ok := four(strs(comps))
		if !ok {
			return generic()
		}
		out := map[string]string{}
		for i, v := range []string{t, r, b, l} {
			name := prop + "-" + sides[i]
			if strings.HasPrefix(prop, "border-") {
				name = "border-" + sides[i] + "-" + strings.TrimPrefix(prop, "border-")
			}
			out[name] = v
		}
		return out
	case "border-radius":
		var h, v []string
		cur := &h
		for _, cp := range comps {
			if len(cp) == 1 && cp[0].K == 'c' && cp[0].S == "/" {
				cur = &v
				continue
			}
			*cur = append(*cur, canonSeq(cp, c, false))
		}
		if len(v) == 0 {
			v = h
		}
		a1, a2, a3, a4, ok1 := four(h)
		b1, b2, b3, b4, ok2 := four(v)
		if !ok1 || !ok2 {
			return generic()
		}
		return map[string]string{"border-top-left-radius": a1 + " " + b1, "border-top-right-radius": a2 + " " + b2, "border-bottom-right-radius": a3 + " " + b3, "border-bottom-left-radius": a4 + " " + b4}
	case "border", "border-top", "border-right", "border-bottom", "border-left", "outline", "column-rule":
		w, s, col := "medium", "none", "currentcolor"
		if prop == "outline" {
			col = "auto-or-invert" // initial outline-color (invert / currentcolor depending on the UA)
		}
		seen := map[string]bool{}
		for _, cp := range comps {
			kw := identOf(cp)
			switch {
			case borderStyles[kw] || (prop == "outline" && kw == "auto"):
				if seen["s"] {
					return generic()
				}
				seen["s"], s = true, kw
			case borderWidthsKW[kw] || (len(cp) == 1 && (cp[0].K == 'd' || cp[0].K == 'n' || (cp[0].K == 'f' && strings.EqualFold(cp[0].S, "calc")))):
				if seen["w"] {
					return generic()
				}
				seen["w"], w = true, canonSeq(cp, c, false)
			case kw == "invert" && prop == "outline":
				seen["c"], col = true, "auto-or-invert"
			case isColorComp(cp):
				if seen["c"] {
					return generic()
				}
				seen["c"], col = true, canonSeq(cp, c, false)
			default:
				return generic()
			}
		}
		out := map[string]string{}
		if prop == "border" {
			for _, sd := range sides {
				out["border-"+sd+"-width"], out["border-"+sd+"-style"], out["border-"+sd+"-color"] = w, s, col
			}
			out["border-image"] = "none"
		} else {
			out[prop+"-width"], out[prop+"-style"], out[prop+"-color"] = w, s, col
		}
		return out
	case "font-weight":
		switch identOf(comps[0]) {
		case "normal":
			return map[string]string{prop: "400"}
		case "bold":
			return map[string]string{prop: "700"}
		}
		return generic()
	case "font-family":
		return map[string]string{prop: fontFamilies(comps)}
	case "font":
		return expandFont(comps, c)
	case "flex":
		g, sh, ba := "0", "1", "auto"
		if len(comps) == 1 {
			switch identOf(comps[0]) {
			case "none":
				return map[string]string{"flex-grow": "0", "flex-shrink": "0", "flex-basis": "auto"}
			case "auto":
				return map[string]string{"flex-grow": "1", "flex-shrink": "1", "flex-basis": "auto"}
			}
		}
		nums := 0
		basis := false
		for _, cp := range comps {
			if len(cp) == 1 && cp[0].K == 'n' {
				if nums == 0 {
					g = canonTok(cp[0], c)
				} else if nums == 1 {
					sh = canonTok(cp[0], c)
				} else if !basis && canonTok(cp[0], c) == "0" {
					ba, basis = "0", true
				} else {
					return generic()
				}
				nums++
				continue
			}
			if basis {
				return generic()
			}
			ba, basis = canonSeq(cp, c, false), true
		}
		if nums > 0 && !basis {
			ba = "0%" // flex: <number> sets the basis to zero (written 0% in the spec)
		}
		if ba == "0" || ba == "0px" {
			ba = "0%"
		}
		return map[string]string{"flex-grow": g, "flex-shrink": sh, "flex-basis": ba}
	case "background":
		layers := splitCommas(comps)
		out := map[string]string{}
		var imgs, poss, sizes, reps, atts, origs, clips []string
		for i, ly := range layers {
			l, ok := backgroundLayer(ly, c, i == len(layers)-1)
			if !ok {
				return generic()
			}
			imgs, poss, sizes, reps, atts, origs, clips = append(imgs, l["image"]), append(poss, l["position"]), append(sizes, l["size"]), append(reps, l["repeat"]), append(atts, l["attachment"]), append(origs, l["origin"]), append(clips, l["clip"])
			if col, ok := l["color"]; ok {
				out["background-color"] = col
			}
		}
		out["background-image"], out["background-position"], out["background-size"], out["background-repeat"] = strings.Join(imgs, ","), strings.Join(poss, ","), strings.Join(sizes, ","), strings.Join(reps, ",")
		out["background-attachment"], out["background-origin"], out["background-clip"] = strings.Join(atts, ","), strings.Join(origs, ","), strings.Join(clips, ",")
		return out
	case "background-position":
		var res []string
		for _, ly := range splitCommas(comps) {
			p, ok := bgPosition(ly, c)
			if !ok {
				return generic()
			}
			res = append(res, p)
		}
		return map[string]string{prop: strings.Join(res, ",")}
	case "background-size":
		var res []string
		for _, ly := range splitCommas(comps) {
			s := strs(ly)
			if len(s) == 1 && s[0] != "cover" && s[0] != "contain" {
				s = append(s, "auto")
			}
			res = append(res, strings.Join(s, " "))
		}
		return map[string]string{prop: strings.Join(res, ",")}
	case "background-repeat":
		var res []string
		for _, ly := range splitCommas(comps) {
			s := strs(ly)
			switch len(s) {
			case 1:
				res = append(res, bgRepeat(s[0], ""))
			case 2:
				res = append(res, bgRepeat(s[0], s[1]))
			default:
				return generic()
			}
		}
		return map[string]string{prop: strings.Join(res, ",")}
	case "box-shadow", "text-shadow":
		if len(comps) == 1 && identOf(comps[0]) == "none" {
			return map[string]string{prop: "none"}
		}
		var res []string
		for _, ly := range splitCommas(comps) {
			var lens []string
			col, inset := "currentcolor", ""
			for _, cp := range ly {
				switch {
				case identOf(cp) == "inset":
					inset = " inset"
				case isColorComp(cp):
					col = canonSeq(cp, c, false)
				case len(cp) == 1 && isLenPct(cp[0]):
					lens = append(lens, canonTok(cp[0], c))
				default:
					return generic()
				}
			}
			for len(lens) < 4 && len(lens) >= 2 {
				lens = append(lens, "0")
			}
			res = append(res, strings.Join(lens, " ")+" "+col+inset)
		}
		return map[string]string{prop: strings.Join(res, ",")}
	case "unicode-range":
		return map[string]string{prop: unicodeRangeSet(val)}
	case "text-decoration":
		lines, style, col, thick := []string{}, "solid", "currentcolor", "auto"
		for _, cp := range comps {
			kw := identOf(cp)
			switch {
			case kw == "none":
			case kw == "underline" || kw == "overline" || kw == "line-through" || kw == "blink":
				lines = append(lines, kw)
			case kw == "solid" || kw == "double" || kw == "dotted" || kw == "dashed" || kw == "wavy":
				style = kw
			case kw == "auto" || kw == "from-font" || (len(cp) == 1 && (cp[0].K == 'd' || cp[0].K == '%')):
				thick = canonSeq(cp, c, false)
			case isColorComp(cp):
				col = canonSeq(cp, c, false)
			default:
				return generic()
			}
		}
		sort.Strings(lines)
		l := strings.Join(lines, " ")
		if l == "" {
			l = "none"
		}
		return map[string]string{"text-decoration-line": l, "text-decoration-style": style, "text-decoration-color": col, "text-decoration-thickness": thick}
	case "text-emphasis":
		style, col := "none", "currentcolor"
		var st []string
		for _, cp := range comps {
			kw := identOf(cp)
			switch {
			case kw == "none":
			case isColorComp(cp):
				col = canonSeq(cp, c, false)
			default:
				st = append(st, canonSeq(cp, c, false))
			}
		}
		if len(st) > 0 {
			style = strings.Join(st, " ")
		}
		return map[string]string{"text-emphasis-style": style, "text-emphasis-color": col}
	}
	modelled = false
	return generic()
}

func fontFamilies(comps [][]cTok) string {
	var fams []string
	var cur []string
	flush := func() {
		if len(cur) > 0 {
			fams = append(fams, strings.Join(cur, " "))
			cur = nil
		}
	}
	for _, cp := range comps {
		if len(cp) == 1 && cp[0].K == ',' {
			flush()
			continue
		}
		for _, t := range cp {
			switch t.K {
			case 's':
				if len(cp) == 1 && cssWideKW[strings.ToLower(t.S)] {
					// a family whose quoted name spells a CSS-wide keyword: without the quotes it would be the keyword
					cur = append(cur, "\""+strings.ToLower(t.S)+"\"")
				} else {
					cur = append(cur, strings.ToLower(t.S))
				}
			case 'i':
				cur = append(cur, strings.ToLower(t.S))
			default:
				cur = append(cur, canonTok(t, canonCtx{}))
			}
		}
	}
	flush()
	return strings.Join(fams, ",")
}

var cssWideKW = setOf("initial", "inherit", "unset", "revert", "revert-layer", "default")
var fontSizeKW = setOf("xx-small", "x-small", "small", "medium", "large", "x-large", "xx-large", "xxx-large", "smaller", "larger")
var fontStyleKW = setOf("italic", "oblique")
var fontStretchKW = setOf("ultra-condensed", "extra-condensed", "condensed", "semi-condensed", "semi-expanded", "expanded", "extra-expanded", "ultra-expanded")

func expandFont(comps [][]cTok, c canonCtx) map[string]string {
	generic := func() map[string]string {
		var s []string
		for _, x := range comps {
			s = append(s, canonSeq(x, c, false))
		}
		return map[string]string{"font": strings.Join(s, " ")}
	}
	if len(comps) == 1 {
		return generic() // system fonts (caption, menu, ...)
	}
	out := map[string]string{"font-style": "normal", "font-variant": "normal", "font-weight": "400", "font-stretch": "normal", "line-height": "normal"}
	i := 0
	for ; i < len(comps); i++ {
		cp := comps[i]
		kw := identOf(cp)
		switch {
		case kw == "normal":
		case fontStyleKW[kw]:
			out["font-style"] = kw
		case kw == "small-caps":
			out["font-variant"] = kw
		case kw == "bold":
			out["font-weight"] = "700"
		case kw == "bolder" || kw == "lighter":
			out["font-weight"] = kw
		case fontStretchKW[kw]:
			out["font-stretch"] = kw
		case len(cp) == 1 && cp[0].K == 'n' && i+1 < len(comps) && canonTok(cp[0], c) != "0":
			// a number before the size is the weight
			nxt := comps[i+1]
			if fontSizeKW[identOf(nxt)] || (len(nxt) == 1 && (nxt[0].K == 'd' || nxt[0].K == '%' || nxt[0].K == 'n')) || identOf(nxt) != "" {
				out["font-weight"] = canonTok(cp[0], c)
				continue
			}
			goto size
		default:
			goto size
		}
	}
size:
	if i >= len(comps) {
		return generic()
	}
	cp := comps[i]
	if !(fontSizeKW[identOf(cp)] || (len(cp) == 1 && (cp[0].K == 'd' || cp[0].K == '%' || (cp[0].K == 'n' && canonTok(cp[0], c) == "0") || cp[0].K == 'f'))) {
		return generic()
	}
	out["font-size"] = canonSeq(cp, c, false)
	i++
	if i+1 < len(comps) && len(comps[i]) == 1 && comps[i][0].K == 'c' && comps[i][0].S == "/" {
		lc := c
		lc.zeroUnit = false
		out["line-height"] = canonSeq(comps[i+1], lc, false)
		i += 2
	}
	if i >= len(comps) {
		return generic()
	}
	out["font-family"] = fontFamilies(comps[i:])
	return out
}

func unicodeRangeSet(val []cTok) string {
	raw := strings.ToLower(strings.ReplaceAll(tokString(val), " ", ""))
	var ranges [][2]int64
	for _, part := range strings.Split(raw, ",") {
		part = strings.TrimPrefix(part, "u+")
		if part == "" {
			continue
		}
		lo, hi := part, part
		if i := strings.IndexByte(part, '-'); i >= 0 {
			lo, hi = part[:i], part[i+1:]
		} else if strings.Contains(part, "?") {
			lo, hi = strings.ReplaceAll(part, "?", "0"), strings.ReplaceAll(part, "?", "f")
		}
		a, e1 := strconv.ParseInt(lo, 16, 64)
		b, e2 := strconv.ParseInt(hi, 16, 64)
		if e1 != nil || e2 != nil {
			return "raw:" + raw
		}
		ranges = append(ranges, [2]int64{a, b})
	}
	sort.Slice(ranges, func(i, j int) bool { return ranges[i][0] < ranges[j][0] })
	var merged [][2]int64
	for _, r := range ranges {
		if n := len(merged); n > 0 && r[0] <= merged[n-1][1]+1 {
			if r[1] > merged[n-1][1] {
				merged[n-1][1] = r[1]
			}
			continue
		}
		merged = append(merged, r)
	}
	var b strings.Builder
	for _, r := range merged {
		fmt.Fprintf(&b, "%x-%x,", r[0], r[1])
	}
	return b.String()
}
