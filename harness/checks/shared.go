package checks

import (
	"bytes"
	"fmt"
	"os"

	"path/filepath"
	"regexp"
	"sort"
	"strings"
	"verif/harness/core"

	"github.com/tdewolff/minify/v2"
	"github.com/tdewolff/minify/v2/css"
	"github.com/tdewolff/minify/v2/html"
	"github.com/tdewolff/minify/v2/js"
	"github.com/tdewolff/minify/v2/json"
	"github.com/tdewolff/minify/v2/svg"
	"github.com/tdewolff/minify/v2/xml"
)

var jsRegexp = regexp.MustCompile("^(application|text)/(x-)?(java|ecma|j|live)script(1\\.[0-5])?$|^module$")
var jsonRegexp = regexp.MustCompile("[/+]json$")
var xmlRegexp = regexp.MustCompile("[/+]xml$")

// Opts bundles one option struct per minifier.
type Opts struct {
	CSS  css.Minifier
	HTML html.Minifier
	JS   js.Minifier
	JSON json.Minifier
	SVG  svg.Minifier
	XML  xml.Minifier
}

// newM builds a fully registered registry the way the README and the CLI do.
func newM(o *Opts) *minify.M {
	if o == nil {
		o = &Opts{}
	}
	m := minify.New()
	m.Add("text/css", &o.CSS)
	m.Add("text/html", &o.HTML)
	m.Add("image/svg+xml", &o.SVG)
	m.AddRegexp(jsRegexp, &o.JS)
	m.AddRegexp(jsonRegexp, &o.JSON)
	m.AddRegexp(xmlRegexp, &o.XML)
	return m
}

var sixTypes = []string{"text/html", "text/css", "application/javascript", "application/json", "image/svg+xml", "text/xml"}

// smallInputs: hand-written inputs per media type with embedded content that
// re-enters the registry.
var smallInputs = map[string][]string{
	"text/html": {
		`<!doctype html><html><head><title>T &amp; t</title><style>p { color: #ff0000; margin: 0px 0px; }</style></head><body><p class=" a  b ">Hello   <b>world</b> !</p><script>var x = 1 + 2; function f(a){ return a*2 }</script></body></html>`,
		`<div id="x" style="color: red; background: url(data:image/svg+xml;base64,PHN2ZyB4bWxucz0iaHR0cDovL3d3dy53My5vcmcvMjAwMC9zdmciPjwvc3ZnPg==)"><a href="http://example.com/a b" onclick="javascript:alert( 1 );">x</a></div>`,
		`<p>a<p>b<ul><li>1<li>2</ul><table><tr><td>x<td>y</table><svg width="10px" height="10"><path d="M 10 10 L 20 20 Z"/></svg>`,
		`<pre>  keep   this </pre><textarea>  and
 this</textarea><input type="text" value="" disabled="disabled"><!-- comment --><span> a </span> <span> b </span>`,
		`<script type="application/ld+json">{ "a" : [ 1.0 , 2e3 ] }</script><script type="text/template"><b> raw </b></script><style media="all">@media screen { a { margin : 10px 10px 10px 10px } }</style>`,
		`<p>text</p><?php echo 1 ?><!-- trailing comment --><![CDATA[ x ]]><style>a{b:c}</style><script>x=1</script><textarea>t</textarea>`,
		`x`, ``, `<`, `<a`, `<!--`, `<p title="&quot;a&quot;">&lt;&amp;&gt; &#39; &copy;</p>`,
		// typed raw elements followed by untyped ones that carry other attributes (the type of one element says nothing about the next)
		"<style type=\"text/css\">a { b : c }</style><script nonce=\"n1\">var t = { // table\n k : 1 };\nvar x = t.k; // setup\nif (x) { // then\n y( x )\n}\nfunction g(a){\n // double\n return a*2\n}\n</script><script type=\"text/template\"><i> raw </i></script><style media=\"screen\" id=\"s2\">/* c */ p > b { margin : 0px 0px }</style><script id=\"s3\" data-x=\"1\">z = 2 // two\nw = z * 2</script>",
		"<script type=\"module\">import { a } from \"./a.js\" ; export const b = a + 1 ;</script><script type=\"Module\" async>import(\"./c.js\").then( m => m.run( ) ) ; export default 1</script><script type=\"importmap\">{ \"imports\" : { \"a\" : \"./a.js\" } }</script>",
		"<script type=\"application/ld+json\">{ \"a\" : 1.0 }</script><script async id=\"a1\">var q = [ 1 , 2 ] // list\nq.push( 3 )</script><style type=\"text/css\" media=\"all\">a{b:c}</style>",
	},
	"text/css": {
		`a { color : #ff0000 ; margin : 0px 0px 0px 0px ; } /* c */ @media screen and (min-width: 100px) { b { font-weight: bold; background: url("data:image/svg+xml,%3Csvg xmlns='http://www.w3.org/2000/svg'%3E%3C/svg%3E") } }`,
		`@import url("foo.css") screen; @font-face { font-family: "X Y"; src: url(x.woff); unicode-range: U+0000-00FF; } .a>.b ~ .c + .d{transform:rotate(0deg) translate(0.50px,1e2px)}`,
		`:root{--x: {a:b}; --y:  1px }a{width:calc( 1px + 2% );color:rgba(255,0,0,.5);color:hsl(120,100%,50%)}`,
		`a{b:c}/* trailing comment */@charset "x";@media print{a{b:"str"}}/*! keep */`,
		`a{`, `}`, ``, `a{b:c`, `@media{`, `a{background:url(}`,
	},
	"application/javascript": {
		`var a = 1, b = 2; function f(x, y) { if (x) { return y + 1; } else { return y - 1; } } console.log(f(a, b), "str" + 'ing', /re/g, ` + "`t${a}`" + `);`,
		`(function(){ 'use strict'; let q = [1,2,3].map(v => v * 2); for (const i of q) { if (i > 2) continue; h(i) } class A extends B { constructor(){ super() } get x(){ return 1 } static s = 2 } })()`,
		`a ? b : c; x = y ?? z; o?.p?.[k]?.(1); label: for(;;){ break label } try { t() } catch { } finally { u() } switch (v) { case 1: w(); default: }`,
		"a=1;/* trailing */b=`t${a}`;c=/re/g;d='s';// line comment\n/*! keep */",
		`var`, `(`, `{`, ``, `a +`, `"unterminated`, `/re`, "`tpl", `function(`, `1.0.toFixed()`,
		// module syntax with string names, hexadecimal and other literal forms at their boundaries
		"var x = 1 ; export { x as \"it's \\\"q\\\"\" , x as \"a\\nb\" , x as \"plain name\" } ; import { \"it's \\\"q\\\"\" as y , \"a b\" as z } from \"./m.js\" ; export * as \"all of it\" from './n.js'",
		"m = 0xFFFFFFFFFF ; n = 0xffffffffff ; o = 0XABCDEF0123 ; p = 0b1111111111111111111111111111111111111111 ; q = 0o7777777777777 ; r = 0xFFFFFFFFFFFFF ; s = 1_000_000 ; t = .5e-7 ; u = 0xFn ; v = 0x3E8n ; w = 0xF4240n ; x = 0o1750n ; y = 0b1111101000n ; z = 0x3E8",
	},
	"application/json": {
		`{ "a" : [ 1.0 , 2e3 , -0.50 , true , null ] , "b" : { "c" : "d\n" } }`, `[ ]`, `  "str"  `, `1.500`, `{"a":{"b":{"c":[[[1,2,[3]]]]}}}`,
		`{`, `[1,`, ``, `{"a"`, `tru`,
	},
	"image/svg+xml": {
		`<svg xmlns="http://www.w3.org/2000/svg"><style>b[title="&#60;x"]{fill:red}a:after{content:"&#38;"}</style><rect class="b"/></svg>`,
		`<?xml version="1.0" encoding="UTF-8"?><!DOCTYPE svg PUBLIC "-//W3C//DTD SVG 1.1//EN" "http://www.w3.org/Graphics/SVG/1.1/DTD/svg11.dtd"><svg xmlns="http://www.w3.org/2000/svg" version="1.1" width="100px" height="100px" viewBox="0 0 100 100"><!-- c --><g fill="#ff0000"><path d="M 10,10 L 20,20 L 30,10 z M 0 0 c 1 1 2 2 3 3"/><rect x="0" y="0" width="10" height="10" style="fill: red; stroke: #000000"/></g><style type="text/css"><![CDATA[ a { color : red } ]]></style><text> a  b </text></svg>`,
		`<svg><circle cx="5" cy="5" r="4.000"/><metadata>x</metadata><defs></defs><use href="#a"/></svg>`,
		`<svg xmlns="http://www.w3.org/2000/svg"><path d="M0 0L1 1"/><text>t</text></svg><?php echo 1 ?><!-- trailing --><![CDATA[ x ]]>`,
		`<svg`, `<svg><path d="M0 0`, ``, `<svg><![CDATA[`, `<?xml`,
	},
	"text/xml": {
		`<?xml version="1.0"?><!DOCTYPE note [<!ENTITY e "v">]><note a = "1"  b='2'> <to> Tove </to> <![CDATA[ <x> & ]]> <!-- c --> <empty></empty> text &amp; more &e; </note>`,
		`<a><b x="&quot;q&quot;" y='it&apos;s'>  t  </b><c/><?pi data ?></a>`,
		`<r><a>t</a></r><?pi trailing ?><!-- trailing comment --><![CDATA[ tail ]]>`,
		`<a`, `<a><![CDATA[x`, ``, `<a b="`, `<!--`,
	},
}

type corpusFile struct {
	Name string
	Data []byte
}

var extToType = map[string]string{".html": "text/html", ".css": "text/css", ".js": "application/javascript", ".json": "application/json", ".svg": "image/svg+xml", ".xml": "text/xml"}

// repoCorpus returns files from the repository tree (benchmarks + fuzz corpora) of the given media type up to maxSize.
func repoCorpus(mt string, maxSize int) []corpusFile {
	var out []corpusFile
	dirOf := map[string]string{"text/html": "html", "text/css": "css", "application/javascript": "js", "application/json": "json", "image/svg+xml": "svg", "text/xml": "xml"}
	var files []string
	for ext, t := range extToType {
		if t == mt {
			m, _ := filepath.Glob(filepath.Join(repoDir(), "_benchmarks", "sample_*"+ext))
			files = append(files, m...)
		}
	}
	m, _ := filepath.Glob(filepath.Join(repoDir(), "tests", dirOf[mt], "corpus", "*"))
	files = append(files, m...)
	sort.Strings(files)
	for _, f := range files {
		b, err := os.ReadFile(f)
		if err != nil || len(b) == 0 || len(b) > maxSize {
			continue
		}
		out = append(out, corpusFile{strings.TrimPrefix(f, repoDir()+"/"), b})
	}
	return out
}

// minifyBytes runs m.Minify over a private copy of in, recovering panics.
func minifyBytes(m *minify.M, mt string, in []byte) (out []byte, err error, pan string) {
	var buf bytes.Buffer
	func() {
		defer func() {
			if r := recover(); r != nil {
				pan = fmt.Sprint(r)
			}
		}()
		err = m.Minify(mt, &buf, bytes.NewReader(append([]byte{}, in...)))
	}()
	return buf.Bytes(), err, pan
}

// scratchTMPDIR points TMPDIR at a scratch directory (the library never removes the temporary files of command
// minifiers); the returned function restores the variable and removes the directory.
func scratchTMPDIR(label string) func() {
	tmp := core.Scratch(label)
	old, had := os.LookupEnv("TMPDIR")
	os.Setenv("TMPDIR", tmp)
	return func() {
		if had {
			os.Setenv("TMPDIR", old)
		} else {
			os.Unsetenv("TMPDIR")
		}
		os.RemoveAll(tmp)
	}
}
