package checks

// C02 — JS identifier shortening is capture-free and leaves public names alone.
// Monitors: (1) execution: every binding holds a unique tagged value and every
// reference site is observed through h(), closures run after their scope exited;
// (2) acorn scope analysis of input and output: no new free names, top-level
// declarations / import-export names / names inside with-functions unchanged;
// (3) KeepVarNames: identifier set of the output is a subset of the input's.

import (
	"fmt"
	"regexp"
	"sort"
	"strings"

	"verif/harness/core"
)

// the first names the renamer hands out (frequency ordered alphabet), plus two-letter ones and near-keywords
var renamerNames = strings.Fields("e t n s o i a r c l d u h m f p g v b j y _ w O x C E k A S M F T z D N L R P H I B V $ W U K q Y G X Q Z J ee te ne et tt nt")

type scopeGen struct {
	r       *core.Rand
	sb      strings.Builder
	tag     int
	site    int
	stack   [][]string // visible names per scope
	fnNames []string
	depth   int
	strict  bool
	useWith bool
	bound   []bool
	fnUsed  []map[string]bool
	keep    bool // guard js-keepvarnames-var-hoisted-into-lexical-block: names are unique per function
}

func (g *scopeGen) w(s string) { g.sb.WriteString(s) }
func (g *scopeGen) nextTag() string {
	g.tag++
	return fmt.Sprintf("\"#%d\"", g.tag)
}
func (g *scopeGen) nextSite() int { g.site++; return g.site }

func (g *scopeGen) pool() []string {
	// small pool => shadowing at every level; includes names equal to what the renamer produces
	return []string{"a", "b", "c", "x", "y", "e", "t", "n", "val", "idx", "tmp"}
}

func (g *scopeGen) visible() []string {
	seen := map[string]bool{}
	var out []string
	for i := len(g.stack) - 1; i >= 0; i-- {
		for _, n := range g.stack[i] {
			if !seen[n] {
				seen[n] = true
				out = append(out, n)
			}
		}
	}
	sort.Strings(out)
	return out
}

func (g *scopeGen) observe() {
	// innermost names first: when the cap below cuts the list it cuts outer names, never the bindings of the scope
	// the observation site sits in
	seen := map[string]bool{}
	var args []string
	for i := len(g.stack) - 1; i >= 0; i-- {
		names := append([]string{}, g.stack[i]...)
		sort.Strings(names)
		for _, n := range names {
			if !seen[n] {
				seen[n] = true
				args = append(args, n)
			}
		}
	}
	if len(args) > 12 {
		args = args[:12]
	}
	vs := g.visible()
	// the same bindings as shorthand properties: the property keeps its name whatever the variable is called
	if len(args) >= 2 && g.r.Chance(1, 3) {
		k := len(args) - 1
		args = append(args, "{"+args[0]+","+args[k]+"}")
	}
	// free globals named like generated names, read from inside
	for k := 0; k < 2; k++ {
		fg := g.r.Pick(renamerNames)
		if !contains(vs, fg) && fg != "h" {
			args = append(args, "typeof "+fg+"!=\"undefined\"&&"+fg)
		}
	}
	g.w(fmt.Sprintf("h(%d,%s);", g.nextSite(), strings.Join(args, ",")))
}

func contains(xs []string, x string) bool {
	for _, y := range xs {
		if y == x {
			return true
		}
	}
	return false
}

func (g *scopeGen) freshNames(k int, avoid []string) []string {
	p := g.pool()
	var out []string
	for len(out) < k {
		n := p[g.r.Intn(len(p))]
		if contains(out, n) || contains(avoid, n) || g.keep && g.usedInFn(n) {
			if g.r.Chance(1, 6) {
				break
			}
			continue
		}
		out = append(out, n)
	}
	return out
}

// declsIn emits lexical/var declarations of fresh names inside the current scope frame.
func (g *scopeGen) declsIn(kindLexicalOnly bool) {
	cur := &g.stack[len(g.stack)-1]
	names := g.freshNames(1+g.r.Intn(3), *cur)
	for _, n := range names {
		kind := g.r.Pick([]string{"let", "const", "var"})
		if kindLexicalOnly {
			kind = g.r.Pick([]string{"let", "const"})
		}
		if kind == "var" && g.hoistConflict(n) {
			kind = "let"
		}
		if g.r.Chance(1, 5) {
			m := n + "2"
			if !contains(*cur, m) && !(kind == "var" && g.hoistConflict(m)) {
				g.w(fmt.Sprintf("%s {p:%s,q:[%s]}={p:%s,q:[%s]};", kind, n, m, g.nextTag(), g.nextTag()))
				*cur = append(*cur, n, m)
				g.markVar(kind, n)
				g.markVar(kind, m)
				continue
			}
		}
		g.w(fmt.Sprintf("%s %s=%s;", kind, n, g.nextTag()))
		*cur = append(*cur, n)
		g.markVar(kind, n)
	}
}

// var declarations hoist to the function: they must not collide with a lexical declaration of any enclosing block of the same function
type fnFrame struct{ lexical, vars map[string]bool }

var _ = fnFrame{}

func (g *scopeGen) hoistConflict(n string) bool {
	// conservative: a var may only be declared if the name is not visible in the current function at all
	for i := len(g.stack) - 1; i >= 0; i-- {
		if contains(g.stack[i], n) {
			return true
		}
		if g.isFnBoundary(i) {
			break
		}
	}
	return g.usedInFn(n)
}

func (g *scopeGen) isFnBoundary(i int) bool { return g.bound[i] }

func (g *scopeGen) usedInFn(n string) bool {
	for i := len(g.fnUsed) - 1; i >= 0; i-- {
		return g.fnUsed[i][n]
	}
	return false
}

func (g *scopeGen) markVar(kind, n string) {
	if len(g.fnUsed) > 0 {
		g.fnUsed[len(g.fnUsed)-1][n] = true
	}
}

func (g *scopeGen) push(fn bool) {
	g.stack = append(g.stack, nil)
	g.bound = append(g.bound, fn)
	if fn {
		g.fnUsed = append(g.fnUsed, map[string]bool{})
	}
}
func (g *scopeGen) pop() {
	if g.bound[len(g.bound)-1] {
		g.fnUsed = g.fnUsed[:len(g.fnUsed)-1]
	}
	g.stack = g.stack[:len(g.stack)-1]
	g.bound = g.bound[:len(g.bound)-1]
}

func (g *scopeGen) lexicalAllowed(n string) bool {
	// a lexical declaration may shadow outer names, but not a var already hoisted into this function from an inner block
	return !g.usedInFn(n) || true
}

func (g *scopeGen) body(depth int) {
	g.declsIn(false)
	g.observe()
	n := 1 + g.r.Intn(3)
	for i := 0; i < n && depth > 0; i++ {
		g.child(depth - 1)
	}
	// closure capturing this scope, invoked after the scope has exited
	g.w("Q.push(()=>{")
	g.observe()
	g.w("});")
	g.observe()
}

func (g *scopeGen) params() string {
	cur := &g.stack[len(g.stack)-1]
	names := g.freshNames(g.r.Intn(4), nil)
	var parts []string
	for i, n := range names {
		*cur = append(*cur, n)
		g.markVar("param", n)
		switch g.r.Intn(7) {
		case 6:
			// default that reads a variable of an enclosing scope (which the body reads again at its observation sites)
			outer := ""
			for k := len(g.stack) - 2; k >= 0 && outer == ""; k-- {
				for _, o := range g.stack[k] {
					// (not a name of this parameter list, nor one that a destructuring parameter of the list derives:
					// a default reading a later parameter of the same list is a reference error, not an outer read)
					if o != n && o != "Q" && !contains(names, o) && !(strings.HasSuffix(o, "3") && contains(names, o[:len(o)-1])) {
						outer = o
						break
					}
				}
			}
			if outer == "" {
				parts = append(parts, n)
			} else {
				parts = append(parts, n+"="+outer)
				g.markVar("outer", outer) // guard js-param-default-shadowed-by-body-var: no `var` of that name in this function
			}
		case 0:
			parts = append(parts, n+"="+g.nextTag())
		case 1:
			if i > 0 {
				parts = append(parts, n+"="+names[0])
			} else {
				parts = append(parts, n)
			}
		case 2:
			m := n + "3"
			*cur = append(*cur, m)
			g.markVar("param", m)
			parts = append(parts, "{k:"+n+"="+g.nextTag()+",["+g.nextTag()+"]:"+m+"="+g.nextTag()+"}={}")
		default:
			parts = append(parts, n)
		}
	}
	return strings.Join(parts, ",")
}

func (g *scopeGen) argsFor() string {
	return g.r.Pick([]string{"", g.nextTag(), g.nextTag() + "," + g.nextTag(), "undefined," + g.nextTag()})
}

func (g *scopeGen) child(depth int) {
	r := g.r
	k := r.Intn(13)
	if k == 12 && g.keep {
		k = 11 // guard js-keepvarnames-else-unscoped (open finding): with KeepVarNames the dissolved else block's names clash unrenamed
	}
	if k == 9 && r.Chance(1, 4) {
		// local bindings spelled like well-known globals (the `(function(window, undefined){…})` idiom): where
		// they keep their spelling they are still the local bindings, also when read from an inner function
		site := g.nextSite()
		g.w(fmt.Sprintf("(function(window,undefined){var Infinity=%s,NaN=%s;h(%d,undefined,Infinity,NaN);Q.push(()=>{h(%d,undefined,Infinity,NaN)});(function(){h(%d,undefined,Infinity)})()})(1,%s);", g.nextTag(), g.nextTag(), site, g.nextSite(), g.nextSite(), g.nextTag()))
		return
	}
	if k == 10 && r.Chance(1, 3) {
		// a named function expression that calls itself: its name is a binding of its own scope
		nm := g.freshNames(1, nil)
		if len(nm) == 0 {
			nm = []string{"self9"}
		}
		g.push(true)
		g.stack[len(g.stack)-1] = append(g.stack[len(g.stack)-1], nm[0], "k9")
		g.markVar("fname", nm[0])
		g.markVar("param", "k9")
		g.w("(function " + nm[0] + "(k9){if(k9>1)return k9;")
		g.body(depth)
		g.w("return " + nm[0] + "((k9|0)+1)})(0);")
		g.pop()
		return
	}
	if k == 11 && r.Bool() {
		// for-in/of over a target declared beforehand (the loop header declares nothing): the body is a scope of its own
		g.push(true)
		g.w("(function(){")
		g.declsIn(false)
		it := g.freshNames(1, g.stack[len(g.stack)-1])
		if len(it) == 0 || contains(g.stack[len(g.stack)-1], it[0]) {
			it = []string{"it9"}
		}
		g.stack[len(g.stack)-1] = append(g.stack[len(g.stack)-1], it[0])
		g.markVar("var", it[0])
		g.w("var " + it[0] + ";for(" + it[0] + " " + r.Pick([]string{"of [" + g.nextTag() + "," + g.nextTag() + "]", "in {k1:1,k2:2}"}) + "){")
		g.push(false)
		g.declsIn(true)
		g.observe()
		g.w("Q.push(()=>{")
		g.observe()
		g.w("});}")
		g.pop()
		g.observe()
		g.w("})();")
		g.pop()
		return
	}
	switch k {
	case 12:
		// try/finally (or catch) whose handler holds an if that leaves and an else block with lexical declarations:
		// the minifier dissolves the else block, its declarations move into the enclosing block scope
		g.push(true)
		g.w("(function(){")
		g.declsIn(false)
		g.w("try{")
		g.observe()
		if r.Bool() {
			g.w("}finally{")
		} else {
			g.w("throw 1}catch{")
		}
		g.push(false)
		g.w("if(Q.length<0){h(" + fmt.Sprint(g.nextSite()) + ");return}else{") // never taken (free identifiers are mocks, so no typeof test here)
		g.push(false)
		g.declsIn(true)
		g.observe()
		g.w("Q.push(()=>{")
		g.observe()
		g.w("});}")
		g.pop()
		g.observe()
		g.w("}")
		g.pop()
		g.w("})();")
		g.pop()
	case 0, 1:
		fn := fmt.Sprintf("fn%d", g.nextSite())
		g.push(true)
		ps := g.params()
		g.w("function " + fn + "(" + ps + "){")
		g.body(depth)
		g.w("}")
		g.pop()
		g.w(fn + "(" + g.argsFor() + ");")
	case 2:
		g.push(true)
		ps := g.params()
		g.w("((" + ps + ")=>{")
		g.body(depth)
		g.w("})(" + g.argsFor() + ");")
		g.pop()
	case 3:
		g.push(false)
		g.w("{")
		g.body(depth)
		g.w("}")
		g.pop()
	case 4:
		g.push(false)
		i := g.freshNames(1, nil)
		if len(i) == 0 {
			i = []string{"i9"}
		}
		g.stack[len(g.stack)-1] = append(g.stack[len(g.stack)-1], i[0])
		g.markVar("let", i[0])
		g.w("for(let " + i[0] + "=0;" + i[0] + "<2;" + i[0] + "++){")
		g.push(false)
		g.body(depth)
		g.pop()
		g.w("}")
		g.pop()
	case 5:
		g.push(false)
		e := g.freshNames(1, nil)
		if len(e) == 0 {
			e = []string{"e9"}
		}
		if r.Bool() {
			// a catch parameter nobody reads (it may be dropped for ES2019+, and must stay a binding below that), spelled
			// like a generated short name that is not in the declaration pool
			g.w("try{throw " + g.nextTag() + "}catch(" + r.Pick([]string{"s", "o", "i", "r"}) + "){")
		} else {
			g.w("try{throw " + g.nextTag() + "}catch(" + e[0] + "){")
			g.stack[len(g.stack)-1] = append(g.stack[len(g.stack)-1], e[0])
			g.markVar("catch", e[0])
		}
		g.body(depth)
		g.w("}")
		g.pop()
	case 6:
		g.push(false)
		g.w("switch(1){case 1:")
		g.declsIn(true)
		g.observe()
		g.w("default:")
		g.observe()
		g.w("}")
		g.pop()
	case 7:
		// class with method scopes
		cn := fmt.Sprintf("K%d", g.nextSite())
		g.w("class " + cn + "{")
		g.push(true)
		ps := g.params()
		g.w("m(" + ps + "){")
		g.body(depth)
		g.w("}")
		g.pop()
		g.w("static s=" + g.nextTag() + ";}")
		g.w("new " + cn + "().m(" + g.argsFor() + ");")
	case 8:
		// object method + property names equal to local names
		g.push(true)
		ps := g.params()
		vs := g.visible()
		key := "k"
		if len(vs) > 0 {
			key = vs[r.Intn(len(vs))]
		}
		g.w("({" + key + ":" + g.nextTag() + ",m(" + ps + "){")
		g.body(depth)
		g.w("}}).m(" + g.argsFor() + ");")
		g.pop()
	case 9:
		// label named like a local
		vs := g.visible()
		lbl := "lbl"
		if len(vs) > 0 {
			lbl = vs[r.Intn(len(vs))]
		}
		g.push(false)
		g.w(lbl + ":for(let q9=0;q9<1;q9++){")
		g.stack[len(g.stack)-1] = append(g.stack[len(g.stack)-1], "q9")
		g.observe()
		g.w("continue " + lbl + ";}")
		g.pop()
	case 10:
		if !g.strict && g.useWith {
			// function containing `with`, a nested function without it, and a later block scope with declarations
			fn := fmt.Sprintf("wf%d", g.nextSite())
			g.push(true)
			g.w("function " + fn + "(scope){var sum=" + g.nextTag() + ",index=" + g.nextTag() + ";")
			g.stack[len(g.stack)-1] = append(g.stack[len(g.stack)-1], "sum", "index", "scope")
			g.w("function inner(p){return p}inner(1);")
			g.w("for(let count=0;count<1;count++){let total=" + g.nextTag() + ";with(scope){h(" + fmt.Sprint(g.nextSite()) + ",sum,index,count,total,typeof zz1!=\"undefined\"&&zz1,typeof zz2!=\"undefined\"&&zz2)}}")
			g.w("try{throw " + g.nextTag() + "}catch(err){with(scope){h(" + fmt.Sprint(g.nextSite()) + ",err,sum)}}")
			g.w("}")
			g.pop()
			g.w(fn + "({sum:" + g.nextTag() + ",zz1:" + g.nextTag() + ",e:" + g.nextTag() + ",t:" + g.nextTag() + ",count:" + g.nextTag() + ",err:" + g.nextTag() + "});")
			return
		}
		fallthrough
	default:
		// var hoisting through blocks: an inner lexical name must avoid the hoisted var
		g.push(true)
		g.w("(function(){")
		g.w("{let " + "lx=" + g.nextTag() + ";{var hv=" + g.nextTag() + ",hw=" + g.nextTag() + ";}h(" + fmt.Sprint(g.nextSite()) + ",lx,hv,hw);}")
		g.w("{let ly=" + g.nextTag() + ";var hz=" + g.nextTag() + ";h(" + fmt.Sprint(g.nextSite()) + ",ly,hv,hz)}")
		g.stack[len(g.stack)-1] = append(g.stack[len(g.stack)-1], "hv", "hw", "hz")
		g.body(depth)
		g.w("})();")
		g.pop()
	}
}

func genScopeProgram(r *core.Rand, keep bool) string {
	g := &scopeGen{r: r, keep: keep}
	g.strict = r.Chance(1, 4)
	g.useWith = r.Chance(1, 2)
	module := r.Chance(1, 6)
	if module {
		g.strict, g.useWith = true, false // module code is strict
	}
	// a `with` at program level switches renaming off for the whole program, which then behaves as under KeepVarNames
	// (guard js-keepvarnames-var-hoisted-into-lexical-block: names unique within a function)
	topWith := !g.strict && g.useWith && r.Chance(1, 2)
	if topWith {
		g.keep = true
	}
	if g.strict {
		g.w("\"use strict\";")
	}
	g.w("var Q=[];")
	g.push(true)
	g.stack[0] = append(g.stack[0], "Q")
	n := 2 + r.Intn(3)
	for i := 0; i < n; i++ {
		g.child(1 + r.Intn(4))
	}
	if topWith {
		// `with` at program level next to block-scoped declarations outside any function: nothing of the program
		// may be renamed, the object has properties named like the renamer's first outputs
		site := g.nextSite()
		g.w(fmt.Sprintf("var scope%d={e:%s,t:%s,n:%s,r:%s,i:%s,o:%s,a:%s};", site, g.nextTag(), g.nextTag(), g.nextTag(), g.nextTag(), g.nextTag(), g.nextTag(), g.nextTag()))
		g.w(fmt.Sprintf("for(let index=0;index<1;index++){let total=%s;const limit=%s;with(scope%d){h(%d,index,total,limit)}}", g.nextTag(), g.nextTag(), site, site))
		g.w(fmt.Sprintf("{let first=%s;with(scope%d){Q.push(()=>h(%d,first))}}", g.nextTag(), site, g.nextSite()))
	}
	if module {
		// the module's interface: exported functions (called by the execution monitor after evaluation); the name of a
		// default-exported function declaration is a binding nobody uses
		k := 1 + r.Intn(2)
		for i := 0; i < k; i++ {
			head := ""
			switch {
			case i == 0 && r.Chance(2, 3):
				head = "export default function " + r.Pick([]string{fmt.Sprintf("handler%d", g.nextSite()), fmt.Sprintf("handler%d", g.nextSite()), ""})
			case i == 0:
				head = "export default async function " + fmt.Sprintf("handler%d", g.nextSite())
			default:
				head = "export function " + fmt.Sprintf("exp%d", g.nextSite())
			}
			g.push(true)
			ps := g.params()
			g.w(head + "(" + ps + "){")
			g.body(1 + r.Intn(2))
			g.w("}")
			g.pop()
			g.w(";")
		}
	}
	g.w("for(const q of Q)q();")
	return g.sb.String()
}

// genWideScope: one function with n bindings (beyond the one- and two-character name supply), skewed use counts,
// inner closures reading free globals named like generated names.
func genWideScope(r *core.Rand, n int) string {
	var sb strings.Builder
	sb.WriteString("function wide(){")
	sb.WriteString("var ")
	for i := 0; i < n; i++ {
		if i > 0 {
			sb.WriteByte(',')
		}
		fmt.Fprintf(&sb, "n%d=%d", i, i)
	}
	sb.WriteString(";var acc=0;")
	// skewed references: low indices used often
	for k := 0; k < n*2; k++ {
		i := r.Intn(n)
		if r.Chance(1, 2) {
			i = r.Intn(1 + n/50)
		}
		fmt.Fprintf(&sb, "acc+=n%d;", i)
	}
	// every binding observed once
	sb.WriteString("h(1,acc);h(2,[")
	for i := 0; i < n; i++ {
		if i > 0 {
			sb.WriteByte(',')
		}
		fmt.Fprintf(&sb, "n%d", i)
	}
	sb.WriteString("].join());")
	sb.WriteString("return function(){return [typeof e!=\"undefined\"&&e,typeof t!=\"undefined\"&&t,typeof ee!=\"undefined\"&&ee,typeof of!=\"undefined\"&&of,typeof as!=\"undefined\"&&as,n0,n1]}}h(3,wide()());")
	return sb.String()
}

func subset(a, b []string) (string, bool) {
	set := map[string]bool{}
	for _, x := range b {
		set[x] = true
	}
	for _, x := range a {
		if !set[x] {
			return x, false
		}
	}
	return "", true
}

func sameSet(a, b []string) bool {
	_, x := subset(a, b)
	_, y := subset(b, a)
	return x && y
}

// c02Static applies the scope-analysis monitors. "" = ok.
func c02Static(in *jsAnalysis, out string, c jsConfig) string {
	oa, err := jsAnalyze(out)
	if err != nil {
		return "" // compile problems are reported by the execution monitor
	}
	if x, ok := subset(oa.Free, in.Free); !ok && x != "undefined" && x != "NaN" && x != "Infinity" {
		return fmt.Sprintf("output has a free identifier %q that the input does not have (a renamed local leaked, or a global was renamed)", x)
	}
	inTop := append(append([]string{}, in.TopVar...), in.TopLexical...)
	outTop := append(append([]string{}, oa.TopVar...), oa.TopLexical...)
	if in.DefaultLocal != "" && !contains(outTop, in.DefaultLocal) {
		// `export default function NAME(){}`: NAME is only a local binding; dropping it when nothing refers to it is legal
		// (a remaining reference would show up as a new free identifier above)
		var kept []string
		for _, n := range inTop {
			if n != in.DefaultLocal {
				kept = append(kept, n)
			}
		}
		inTop = kept
	}
	if !sameSet(outTop, inTop) {
		return fmt.Sprintf("top-level declarations changed: %v -> %v", append(in.TopVar, in.TopLexical...), append(oa.TopVar, oa.TopLexical...))
	}
	if strings.Join(in.Imexp, ",") != strings.Join(oa.Imexp, ",") {
		return fmt.Sprintf("import/export names changed: %v -> %v", in.Imexp, oa.Imexp)
	}
	if x, ok := subset(oa.Labels, in.Labels); !ok {
		return fmt.Sprintf("label %q is not a label of the input", x)
	}
	if in.UsesWith {
		if x, ok := subset(oa.WithIdents, in.WithIdents); !ok {
			return fmt.Sprintf("identifier %q appears inside a function containing `with` but is not a name of the input there (renamed)", x)
		}
	}
	if c.KeepVarNames {
		if x, ok := subset(oa.Idents, in.Idents); !ok && x != "undefined" && x != "NaN" && x != "Infinity" {
			return fmt.Sprintf("KeepVarNames: identifier %q of the output does not occur in the input", x)
		}
	}
	return ""
}

// open finding (dependency parse/js, cover grammar): in `[x,({a:p,b:q=5}={})]` the array literal is first read as a
// possible pattern; its identifier `x` ends up bound to a scope of its own and is renamed to a name nothing declares
var c02CoverArrayAssign = regexp.MustCompile(`\[[A-Za-z_$][\w$]*,\(\{[^{}]*=[^{}]*\}=`)

func c02Case(run *core.Run, st *jsCaseStats, label, src string, c jsConfig) {
	run.Eval()
	v := jsJudge(src, c)
	cfg := c.String()
	key := core.Key(cfg, []byte(src))
	if run.IsKnown(core.Key("*", []byte(src))) {
		key = core.Key("*", []byte(src))
	}
	report := func(what string) {
		run.Violation(key, fmt.Sprintf("%s [%s]: %s | in=%s | out=%s", cfg, label, what, core.Trunc(src, 300), core.Trunc(v.Out, 300)),
			map[string]interface{}{"config": cfg, "input": src, "output": v.Out, "source": label})
	}
	switch {
	case v.Verdict == "REJECTED":
		run.Count("minifier_rejected")
		return
	case strings.HasPrefix(v.Verdict, "INCONCLUSIVE:"):
		run.Inconclusive()
		st.add(core.Trunc(v.Verdict[13:], 50))
		return
	case v.Verdict != "":
		report(v.Verdict)
		return
	}
	if s := c02Static(v.In, v.Out, c); s != "" {
		if strings.HasPrefix(s, "output has a free identifier") && c02CoverArrayAssign.MatchString(src) && run.KnownSignature("js-array-literal-before-destructuring-assignment-rescoped") {
			return
		}
		report(s)
		return
	}
	if v.In.Bindings >= 3 && v.Events >= 2 {
		run.NonTrivial([]byte(cfg), []byte(src))
		run.CountN("bindings_observed", int64(v.In.Bindings))
		if v.In.MaxDepth >= 5 {
			run.Count("programs_with_scope_depth_ge_5")
		}
	}
}

func C02(run *core.Run) {
	defer nodePool().Close()
	st := &jsCaseStats{}
	run.ReplayWitnesses(func(f core.Finding, w core.Witness) (bool, string) {
		var c jsConfig
		if w.Config != "*" && w.Config != "" {
			fmt.Sscanf(w.Config, "js keepvarnames=%t version=%d precision=%d inline=%t", &c.KeepVarNames, &c.Version, &c.Precision, &c.Inline)
		}
		v := jsJudge(w.Input, c)
		if v.Verdict == "" {
			if s := c02Static(v.In, v.Out, c); s != "" {
				return true, s
			}
			return false, ""
		}
		bad := v.Verdict != "REJECTED" && !strings.HasPrefix(v.Verdict, "INCONCLUSIVE")
		return bad, v.Verdict
	})
	type job struct {
		label, src string
		c          jsConfig
	}
	var jobs []job
	n := run.N(2500, 60000)
	for i := 0; i < n; i++ {
		r := run.CaseRand("scope", i, n*3/5)
		c := jsConfig{}
		if i%5 == 4 {
			c.KeepVarNames = true
		}
		src := genScopeProgram(r, c.KeepVarNames)
		if i%3 == 1 {
			// target editions change what the renamer may assume (e.g. below 2019 an unused catch binding stays in the text)
			c.Version = []int{2015, 2018, 2019, 2016, 2020, 2017, 2022, 2021}[(i/3)%8]
		}
		c.Warm = i%4 == 2
		if i < 2 {
			run.Sample(map[string]string{"source": "scope-tree", "config": c.String(), "input": core.Trunc(src, 1500)})
		}
		jobs = append(jobs, job{fmt.Sprintf("scope#%d", i), src, c})
	}
	// wide scopes around the 54 / 54+54*64 name-supply boundaries
	sizes := []int{50, 60, 120, 3000, 3600}
	if run.Thorough() {
		sizes = []int{40, 53, 54, 55, 60, 64, 120, 500, 3400, 3509, 3510, 3511, 3600, 4000}
	}
	for i, sz := range sizes {
		r := run.CaseRand("wide", i, len(sizes))
		src := genWideScope(r, sz)
		jobs = append(jobs, job{fmt.Sprintf("wide#%d", sz), src, jsConfig{}})
		if sz < 200 {
			jobs = append(jobs, job{fmt.Sprintf("wide#%d", sz), src, jsConfig{KeepVarNames: true}})
		}
	}
	// the closed-program generator of C01 at default and keep-names configuration
	m := run.N(1500, 20000)
	for i := 0; i < m; i++ {
		r := run.CaseRand("closed", i, m*3/5)
		src, _ := genJSProgram(r)
		jobs = append(jobs, job{fmt.Sprintf("gen#%d", i), src, jsConfig{KeepVarNames: i%3 == 0, Version: []int{0, 0, 2018, 0, 2015, 0, 2017, 2020}[i%8]}})
	}
	core.ParallelFor(len(jobs), 32, func(i int) {
		c02Case(run, st, jobs[i].label, jobs[i].src, jobs[i].c)
	})
	run.Set("inconclusive_reasons", st.reasons)
	run.Set("wide_scope_sizes", sizes)
	run.Finish("scope-stress programs: seeded random trees (depth<=6) of function/arrow/method/class/block/for/switch/catch scopes with names drawn from a small pool (shadowing at every level), parameters with defaults and destructuring, var hoisting through blocks, labels and property names equal to local names, functions containing `with`, free globals named like the renamer's first outputs, closures invoked after their scope exited; every binding holds a unique tagged value and every visible name is passed to h() at every observation site; plus wide scopes with up to 3600-4000 bindings, plus the C01 program generator; a case is (configuration, program); non-trivial = accepted, at least 3 bindings and 2 observation events compared",
		[]string{"V8 executes both texts; acorn + my scope builder give declared/free/top-level/with-function name sets", "static checks are sound but incomplete (set inclusion); capture along executed references is seen by the execution monitor"}, 300, false)
}
