package checks

// C01 — JS minification preserves program behaviour.
// Monitor: both texts executed by V8 (node vm) in a fresh deterministic realm with a
// logging host; observation = host-call log + final globals + completion.

import (
	"fmt"
	"strings"
	"sync"

	"verif/harness/core"
)

var c01Configs = []jsConfig{
	{}, {KeepVarNames: true}, {Version: 2015}, {Version: 2019}, {Version: 2020, KeepVarNames: true}, {Version: 2021}, {Version: 2022}, {Version: 5},
	{Version: 2016}, {Version: 2017}, {Version: 2018, KeepVarNames: true},
}

type jsCaseStats struct {
	mu      sync.Mutex
	reasons map[string]int
}

func (s *jsCaseStats) add(r string) {
	s.mu.Lock()
	if s.reasons == nil {
		s.reasons = map[string]int{}
	}
	s.reasons[r]++
	s.mu.Unlock()
}

func c01Case(run *core.Run, st *jsCaseStats, label, src string, c jsConfig) {
	run.Eval()
	v := jsJudge(src, c)
	cfg := c.String()
	switch {
	case v.Verdict == "":
		if v.Out != src && v.Events >= 1 {
			run.NonTrivial([]byte(cfg), []byte(src))
		}
	case v.Verdict == "REJECTED":
		run.Count("minifier_rejected")
	case strings.HasPrefix(v.Verdict, "INCONCLUSIVE:"):
		run.Inconclusive()
		r := v.Verdict[13:]
		if i := strings.IndexByte(r, ' '); i > 0 && strings.HasPrefix(r, "worker") {
			r = "worker"
		}
		st.add(core.Trunc(r, 60))
	default:
		key := core.Key(cfg, []byte(src))
		if run.IsKnown(core.Key("*", []byte(src))) {
			key = core.Key("*", []byte(src)) // finding recorded for every configuration
		}
		run.Violation(key, fmt.Sprintf("%s [%s]: %s | in=%s | out=%s", cfg, label, v.Verdict, core.Trunc(src, 300), core.Trunc(v.Out, 300)),
			map[string]interface{}{"config": cfg, "input": src, "output": v.Out, "source": label})
	}
}

var c01DefinitionEffects = []string{
	"{class A{[h(1)]=1}}h(2)", "{class A{static [h(1)]=1}}h(2)", "{class A{[h(1)](){}}}h(2)", "{class A{static [h(1)](){}}}h(2)",
	"{class A{get [h(1)](){return 1}}}h(2)", "{class A{static{h(1)}}}h(2)", "{class A extends h(1){}}h(2)", "{class A{static s=h(1)}}h(2)",
	"{class A{[h(1)]}}h(2)", "{class A{[h(1)];[h(3)]=4;static [h(5)]}}h(2)", "{class A{x=h(1)}}h(2)", "{class A{static x;y(){h(1)}}}h(2)",
	"if(h(0)){class A{[h(1)]=1}}h(2)", "if(h(0)){class A{[h(1)]}}else{class B{static [h(3)]}}h(2)", "function f(){{class A{[h(1)]=1}}}f();h(2)",
	"function f(){{class A{static [h(1)]}}return 3}h(f());h(2)", "for(var i=0;i<2;i++){class A{[h(i)]=1}}h(2)", "switch(1){case 1:class A{[h(1)]=1}}h(2)",
	"try{class A{[h(1)]=1}}finally{h(2)}", "l:{class A{[h(1)]=1}}h(2)", "{let o={[h(1)]:1}}h(2)", "{let [a=h(1)]=[]}h(2)", "{const {b=h(1)}={}}h(2)",
	"{let {[h(1)]:c}={}}h(2)", "{function g(a=h(1)){}}h(2)", "{class A{[h(1)]=1}class B{[h(3)]=1}}h(2)", "{{class A{[h(1)]=1}}}h(2)",
	"(()=>{{class A{[h(1)]=1}}})();h(2)", "{var C=class{[h(1)]=1}}h(2)", "{(class{[h(1)]=1})}h(2)", "{(class{static [h(1)]=1})}h(2)", "{(class extends h(1){})}h(2)",
}

func C01(run *core.Run) {
	defer nodePool().Close()
	st := &jsCaseStats{}
	run.ReplayWitnesses(func(f core.Finding, w core.Witness) (bool, string) {
		var c jsConfig
		if w.Config != "*" && w.Config != "" {
			fmt.Sscanf(w.Config, "js keepvarnames=%t version=%d precision=%d inline=%t", &c.KeepVarNames, &c.Version, &c.Precision, &c.Inline)
		}
		v := jsJudge(w.Input, c)
		bad := v.Verdict != "" && v.Verdict != "REJECTED" && !strings.HasPrefix(v.Verdict, "INCONCLUSIVE")
		return bad, v.Verdict
	})
	corpus := frozenCorpus("js")
	type job struct {
		label, src string
		c          jsConfig
	}
	var jobs []job
	for i, s := range corpus {
		cfgs := []jsConfig{c01Configs[0], c01Configs[1], c01Configs[2+i%(len(c01Configs)-2)]}
		if run.Thorough() {
			cfgs = c01Configs
		}
		for _, c := range cfgs {
			jobs = append(jobs, job{fmt.Sprintf("corpus#%d", i), s, c})
		}
	}
	// definition-time effects: a declaration whose name nobody uses, alone in a block, still runs what its
	// definition evaluates (computed keys, static initialisers and blocks, heritage, default values of patterns)
	for i, s := range c01DefinitionEffects {
		for _, c := range c01Configs {
			jobs = append(jobs, job{fmt.Sprintf("defeffect#%d", i), s, c})
		}
	}
	ng := run.N(3000, 120000)
	for i := 0; i < ng; i++ {
		r := run.CaseRand("closed", i, ng*3/5)
		src, _ := genJSProgram(r)
		c := c01Configs[r.Intn(len(c01Configs))]
		if i%3 == 0 {
			c = c01Configs[i/3%2]
		}
		if i < 3 {
			run.Sample(map[string]string{"source": "generated", "config": c.String(), "input": core.Trunc(src, 1500)})
		}
		jobs = append(jobs, job{fmt.Sprintf("gen#%d", i), src, c})
	}
	core.ParallelFor(len(jobs), 32, func(i int) {
		c01Case(run, st, jobs[i].label, jobs[i].src, jobs[i].c)
	})
	run.Set("inconclusive_reasons", st.reasons)
	run.Sample(map[string]string{"source": "corpus", "input": corpus[len(corpus)/2]})
	run.Finish("programs: (a) the frozen inputs of js/js_test.go and js/util_test.go executed as open fragments in a mock host environment (every free identifier is a logging mock object/function/primitive chosen by name hash), (b) seeded closed programs from a grammar-based generator (all statement forms, operator/precedence mixes with and without redundant parentheses, ASI-sensitive adjacency, var/let/const/function/class scoping with shadowing across functions, closures over loop variables, destructuring, generators, async functions, optional chaining, template/regex/numeric/string literal notations, getters with logged side effects, sloppy and strict); each under a configuration from the list (KeepVarNames x Version); a case is (configuration, program); non-trivial = accepted by acorn, V8 and the minifier, the minifier changed the text, and at least one observation event (host call / final global / completion) was compared",
		[]string{"V8 (node vm, fresh deterministic realm per execution) is the reference engine; acorn decides whether the input is in the language",
			"observation = ordered host-call log with structurally serialised arguments + final globals (sorted) + top-level let/const/class values + completion; functions serialise as 'fn', regexps by flags, errors by class",
			"excluded (inconclusive): input rejected by acorn/V8, direct eval, a ReferenceError observed by the input (TDZ), event budget or watchdog hit, output accepted by acorn but rejected by V8",
			"guards tied to known findings restrict the generator (see known_findings.json)"}, 500, false)
}
