package checks

// C20 — killing the CLI at any instant never loses the user's only copy.
//
// Monitor: the built command runs under strace; the syscall log is replayed on a file-system model (strace.go)
// and the invariant
//     for every input file f:  f holds orig(f)  ∨  f.bak holds orig(f)  ∨  f holds the complete new output
// is evaluated after every successful mutating call (every crash boundary) and in the middle of every write
// (torn states).  The model is validated against the real final disk state, and a sample (quick) or all
// (thorough) of the boundaries are also exercised with real SIGKILLs injected by strace, inspecting the disk
// afterwards.  Runs with injected write errors (ENOSPC) add the restore path to the explored traces.

import (
	"bytes"
	"fmt"
	"os"
	"os/exec"
	"path/filepath"
	"sort"
	"strings"
	"sync"
	"syscall"
	"time"

	"verif/harness/core"
)

type treeFile struct {
	Path    string
	Data    string
	Symlink string // non-empty: symbolic link to this target
	Link    string // non-empty: hard link to this (earlier) path
	Mode    os.FileMode
}

type cliCase struct {
	Name      string
	Files     []treeFile
	Args      []string
	NonInputs []string // files of the initial tree that the invocation does not read as inputs
	Stdin     string
}

func (c cliCase) String() string { return c.Name + ": minify " + strings.Join(c.Args, " ") }

func materialize(root string, files []treeFile) error {
	if err := os.MkdirAll(root, 0755); err != nil {
		return err
	}
	stamp := time.Unix(1700000000, 0)
	for _, f := range files {
		p := filepath.Join(root, f.Path)
		if strings.HasSuffix(f.Path, "/") {
			if err := os.MkdirAll(p, 0755); err != nil {
				return err
			}
			continue
		}
		if err := os.MkdirAll(filepath.Dir(p), 0755); err != nil {
			return err
		}
		switch {
		case f.Symlink != "":
			if err := os.Symlink(f.Symlink, p); err != nil {
				return err
			}
		case f.Link != "":
			if err := os.Link(filepath.Join(root, f.Link), p); err != nil {
				return err
			}
		default:
			mode := f.Mode
			if mode == 0 {
				mode = 0644
			}
			if err := os.WriteFile(p, []byte(f.Data), mode); err != nil {
				return err
			}
			os.Chmod(p, mode)
			os.Chtimes(p, stamp, stamp)
		}
	}
	return nil
}

// sample contents -----------------------------------------------------------

var cliSample = map[string]string{
	"js":   "var alpha = 1 + 2;\nfunction twice ( x ) {\n  return x * 2;\n}\nconsole.log( twice( alpha ) );\n",
	"css":  "a { color : #ff0000 ; margin : 0px 0px 0px 0px }\n\n.b > .c { background : url( \"x.png\" ) }\n",
	"html": "<!doctype html>\n<html>\n <head> <title> T </title> </head>\n <body>\n  <p class=\"a\"> hello   world </p>\n </body>\n</html>\n",
	"json": "{ \"a\" : [ 1 , 2.0 , 3e1 ] ,\n  \"b\" : \"x\" }\n",
	"svg":  "<svg xmlns=\"http://www.w3.org/2000/svg\" viewBox=\"0 0 10 10\">\n  <path d=\"M 0 0 L 10 10 L 10.0 0 Z\" />\n</svg>\n",
	"xml":  "<?xml version=\"1.0\"?>\n<root>\n   <item  a = \"1\" >  text  </item>\n</root>\n",
}

func sampleSized(ext string, size int) string {
	unit := cliSample[ext]
	if size <= 0 {
		return ""
	}
	switch ext {
	case "js":
		var b strings.Builder
		for i := 0; b.Len() < size; i++ {
			fmt.Fprintf(&b, "function fn%d ( x ) {\n  var local%d = x + %d ;\n  return local%d * 2 ;\n}\n", i, i, i, i)
		}
		return b.String()
	case "css":
		var b strings.Builder
		for i := 0; b.Len() < size; i++ {
			fmt.Fprintf(&b, ".c%d { margin : %dpx 0px ; color : #ff0000 }\n", i, i)
		}
		return b.String()
	case "html":
		var b strings.Builder
		b.WriteString("<!doctype html>\n<html><body>\n")
		for i := 0; b.Len() < size; i++ {
			fmt.Fprintf(&b, "  <p class=\"p%d\">  paragraph   %d  </p>\n", i, i)
		}
		b.WriteString("</body></html>\n")
		return b.String()
	case "json":
		var b strings.Builder
		b.WriteString("[ ")
		for i := 0; b.Len() < size; i++ {
			fmt.Fprintf(&b, "{ \"k%d\" : %d.0 } ,\n", i, i)
		}
		b.WriteString(" null ]")
		return b.String()
	case "svg":
		var b strings.Builder
		b.WriteString("<svg xmlns=\"http://www.w3.org/2000/svg\">\n")
		for i := 0; b.Len() < size; i++ {
			fmt.Fprintf(&b, "  <path d=\"M 0 0 L %d.0 10 Z\" />\n", i)
		}
		b.WriteString("</svg>\n")
		return b.String()
	case "xml":
		var b strings.Builder
		b.WriteString("<root>\n")
		for i := 0; b.Len() < size; i++ {
			fmt.Fprintf(&b, "   <item  n = \"%d\" >  text  </item>\n", i)
		}
		b.WriteString("</root>\n")
		return b.String()
	}
	return unit
}

var cliExts = []string{"js", "css", "html", "json", "svg", "xml"}

func c20Cases(run *core.Run) []cliCase {
	js, css, html := cliSample["js"], cliSample["css"], cliSample["html"]
	var cs []cliCase
	add := func(name string, files []treeFile, nonInputs []string, args ...string) {
		cs = append(cs, cliCase{Name: name, Files: files, Args: args, NonInputs: nonInputs})
	}
	for _, ext := range cliExts {
		f := "f." + ext
		add("inplace-"+ext, []treeFile{{Path: f, Data: cliSample[ext]}}, nil, "-o", f, f)
	}
	add("inplace-empty", []treeFile{{Path: "e.js", Data: ""}}, nil, "-o", "e.js", "e.js")
	add("inplace-invalid", []treeFile{{Path: "bad.js", Data: "var a = ;;; ) ( \n"}}, nil, "-o", "bad.js", "bad.js")
	add("inplace-invalid-html", []treeFile{{Path: "p.html", Data: c19Invalid["html"]}}, nil, "-o", "p.html", "p.html")
	add("inplace-invalid-html-dir", []treeFile{{Path: "w/p.html", Data: c19Invalid["html"]}, {Path: "w/q.css", Data: css}}, nil, "-r", "-o", "w/", "w/")
	add("sync-onto-itself-absolute", []treeFile{{Path: "site/a.js", Data: js}, {Path: "site/readme.txt", Data: "plain  text"}, {Path: "site/sub/i.png", Data: "\x89PNG\r\n"}}, nil, "-s", "-r", "-o", ".", "$ROOT/site")
	add("sync-onto-itself-dotslash", []treeFile{{Path: "site/a.js", Data: js}, {Path: "site/readme.txt", Data: strings.Repeat("plain text\n", 5000)}}, nil, "-s", "-r", "-o", "site/", "./site/")
	add("inplace-many", []treeFile{{Path: "a.js", Data: js}, {Path: "b.css", Data: css}, {Path: "c.html", Data: html}, {Path: "bad.json", Data: "{ \"a\" : }"}}, nil,
		"-o", ".", "a.js", "b.css", "c.html", "bad.json")
	add("inplace-recursive-dot", []treeFile{{Path: "a.js", Data: js}, {Path: "sub/b.css", Data: css}, {Path: "sub/deep/c.html", Data: html}, {Path: "sub/note.txt", Data: "plain"}, {Path: ".hidden.js", Data: js}}, nil,
		"-r", "-o", ".", ".")
	add("inplace-recursive-dir", []treeFile{{Path: "src/a.js", Data: js}, {Path: "src/sub/b.css", Data: css}, {Path: "src/sub/x.bin", Data: "\x00\x01"}}, nil,
		"-r", "-o", "src/", "src/")
	add("inplace-recursive-all", []treeFile{{Path: "src/a.js", Data: js}, {Path: "src/.h.css", Data: css}}, nil,
		"-r", "-a", "-o", "src/", "src/")
	add("inplace-dotslash-dst", []treeFile{{Path: "a.js", Data: js}}, nil, "-o", "./a.js", "a.js")
	add("inplace-dotslash-src", []treeFile{{Path: "a.js", Data: js}}, nil, "-o", "a.js", "./a.js")
	add("inplace-type-override", []treeFile{{Path: "a.txt", Data: js}}, nil, "--type=js", "-o", "a.txt", "a.txt")
	add("inplace-quiet-preserve-all", []treeFile{{Path: "a.js", Data: js, Mode: 0600}}, nil, "-q", "-p", "all", "-o", "a.js", "a.js")
	add("inplace-preserve-none", []treeFile{{Path: "a.css", Data: css, Mode: 0640}}, nil, "-p", "links", "-o", "a.css", "a.css")
	add("inplace-symlink-dst", []treeFile{{Path: "a.js", Data: js}, {Path: "link.js", Symlink: "a.js"}}, []string{"link.js"}, "-o", "link.js", "a.js")
	add("inplace-symlink-src", []treeFile{{Path: "a.js", Data: js}, {Path: "link.js", Symlink: "a.js"}}, []string{"a.js"}, "-o", "a.js", "link.js")
	add("inplace-hardlink", []treeFile{{Path: "a.js", Data: js}, {Path: "hl.js", Link: "a.js"}}, []string{"hl.js"}, "-o", "hl.js", "a.js")
	add("separate-file", []treeFile{{Path: "a.js", Data: js}}, nil, "-o", "out.js", "a.js")
	add("separate-file-existing", []treeFile{{Path: "a.js", Data: js}, {Path: "out.js", Data: "old output"}}, []string{"out.js"}, "-o", "out.js", "a.js")
	add("separate-dir", []treeFile{{Path: "src/a.js", Data: js}, {Path: "src/sub/b.css", Data: css}, {Path: "src/sub/c.html", Data: html}}, nil, "-r", "-o", "out/", "src/")
	add("separate-dir-nested-out", []treeFile{{Path: "src/a.js", Data: js}, {Path: "src/sub/b.css", Data: css}}, nil, "-r", "-o", "src/min/", "src/")
	// inputs from different directories into one output directory: each is read only, whatever the others' directories
	add("separate-dir-two-roots", []treeFile{{Path: "src/app.css", Data: css}, {Path: "lib/util.js", Data: js}}, nil, "-o", "out/", "src/app.css", "lib/util.js")
	add("separate-dir-two-roots-recursive", []treeFile{{Path: "src/app.css", Data: css}, {Path: "lib/deep/util.js", Data: js}, {Path: "lib/x.html", Data: html}}, nil, "-r", "-o", "out/", "src/", "lib/")
	add("inplace-two-roots", []treeFile{{Path: "src/app.css", Data: css}, {Path: "lib/util.js", Data: js}}, nil, "-o", ".", "src/app.css", "lib/util.js")
	add("stdout", []treeFile{{Path: "a.js", Data: js}}, nil, "a.js")
	add("bundle", []treeFile{{Path: "a.js", Data: js}, {Path: "b.js", Data: "let z = 3 ;\n"}}, nil, "-b", "-o", "out.js", "a.js", "b.js")
	add("bundle-onto-first", []treeFile{{Path: "a.js", Data: js}, {Path: "b.js", Data: "let z = 3 ;\n"}}, nil, "-b", "-o", "a.js", "a.js", "b.js")
	add("bundle-onto-second", []treeFile{{Path: "a.js", Data: js}, {Path: "b.js", Data: "let z = 3 ;\n"}}, nil, "-b", "-o", "b.js", "a.js", "b.js")
	// the backup rename cannot succeed: name.bak is a directory, or the name is too long to take a suffix
	add("bak-is-directory", []treeFile{{Path: "f.css", Data: css}, {Path: "f.css.bak/keep.txt", Data: "k"}}, nil, "-o", "f.css", "f.css")
	add("bak-is-directory-dir", []treeFile{{Path: "w/f.css", Data: css}, {Path: "w/f.css.bak/keep.txt", Data: "k"}, {Path: "w/g.js", Data: js}}, nil, "-r", "-o", "w/", "w/")
	longName := strings.Repeat("n", 248) + ".css"
	add("name-too-long-for-bak", []treeFile{{Path: longName, Data: css}, {Path: "g.js", Data: js}}, nil, "-o", ".", longName, "g.js")
	add("bundle-empty-middle-onto-last", []treeFile{{Path: "a.js", Data: js}, {Path: "empty.js", Data: ""}, {Path: "c.js", Data: "let z = 3 ;\n"}}, nil, "-b", "-o", "c.js", "a.js", "empty.js", "c.js")
	add("bundle-empty-first-onto-last", []treeFile{{Path: "empty.js", Data: ""}, {Path: "b.js", Data: js}, {Path: "c.js", Data: "let z = 3 ;\n"}}, nil, "-b", "-o", "c.js", "empty.js", "b.js", "c.js")
	add("bundle-css-onto-last", []treeFile{{Path: "a.css", Data: css}, {Path: "b.css", Data: "p { top : 0px }"}, {Path: "c.css", Data: "q{}"}}, nil, "-b", "-o", "c.css", "a.css", "b.css", "c.css")
	add("sync", []treeFile{{Path: "src/a.js", Data: js}, {Path: "src/readme.txt", Data: strings.Repeat("text line\n", 9000)}, {Path: "src/sub/b.css", Data: css}, {Path: "src/sub/data.bin", Data: "\x00\x01\x02"}}, nil,
		"-s", "-r", "-o", "out/", "src/")
	add("sync-onto-itself", []treeFile{{Path: "src/a.js", Data: js}, {Path: "src/readme.txt", Data: "plain text"}, {Path: "src/sub/b.css", Data: css}}, nil,
		"-s", "-r", "-o", "src/", "src/")
	add("sync-links", []treeFile{{Path: "src/a.js", Data: js}, {Path: "src/l.js", Symlink: "a.js"}, {Path: "src/t.txt", Data: "t"}}, []string{"src/l.js"},
		"-s", "-r", "-p", "all", "-o", "out/", "src/")
	add("match-filter", []treeFile{{Path: "src/a.js", Data: js}, {Path: "src/b.css", Data: css}, {Path: "src/c.html", Data: html}}, nil,
		"-r", "--match", "*.js", "-o", "src/", "src/")
	add("existing-bak-sibling", []treeFile{{Path: "a.js", Data: js}, {Path: "b.css", Data: css}, {Path: "b.css.bak", Data: "users own backup"}}, []string{"b.css.bak"},
		"-o", ".", "a.js", "b.css")
	for _, sz := range []int{4096, 70000} {
		add(fmt.Sprintf("inplace-size-%d", sz), []treeFile{{Path: "big.js", Data: sampleSized("js", sz)}, {Path: "big.css", Data: sampleSized("css", sz)}}, nil, "-o", ".", "big.js", "big.css")
	}
	if run.Thorough() {
		for _, ext := range cliExts {
			for _, sz := range []int{1, 4095, 4096, 4097, 65536, 65537, 300000, 1 << 20} {
				f := "f." + ext
				add(fmt.Sprintf("inplace-%s-size-%d", ext, sz), []treeFile{{Path: f, Data: sampleSized(ext, sz)}}, nil, "-o", f, f)
			}
		}
		add("sync-large", []treeFile{{Path: "src/a.js", Data: sampleSized("js", 200000)}, {Path: "src/blob.dat", Data: strings.Repeat("0123456789abcdef", 200000)}}, nil, "-s", "-r", "-o", "out/", "src/")
		add("sync-onto-itself-large", []treeFile{{Path: "src/a.js", Data: sampleSized("js", 200000)}, {Path: "src/blob.dat", Data: strings.Repeat("0123456789abcdef", 100000)}}, nil, "-s", "-r", "-o", "src/", "src/")
		add("bundle-large-onto-first", []treeFile{{Path: "a.js", Data: sampleSized("js", 300000)}, {Path: "b.js", Data: sampleSized("js", 100000)}}, nil, "-b", "-o", "a.js", "a.js", "b.js")
		var many []treeFile
		args := []string{"-o", "."}
		for i := 0; i < 24; i++ {
			ext := cliExts[i%len(cliExts)]
			p := fmt.Sprintf("m%02d.%s", i, ext)
			many = append(many, treeFile{Path: p, Data: sampleSized(ext, 200+i*997)})
			args = append(args, p)
		}
		add("inplace-24-files", many, nil, args...)
		var deep []treeFile
		for i := 0; i < 18; i++ {
			ext := cliExts[i%len(cliExts)]
			deep = append(deep, treeFile{Path: fmt.Sprintf("tree/d%d/e%d/f%02d.%s", i%3, i%2, i, ext), Data: sampleSized(ext, 100+i*313)})
		}
		add("inplace-tree", deep, nil, "-r", "-o", "tree/", "tree/")
		add("inplace-tree-verbose", deep, nil, "-v", "-r", "-o", "tree/", "tree/")
		// seed-driven random invocations over random trees
		n := 40
		for i := 0; i < n; i++ {
			r := run.CaseRand("c20tree", i, n/2)
			cs = append(cs, randomInplaceCase(r, i))
		}
	}
	return cs
}

func randomInplaceCase(r *core.Rand, i int) cliCase {
	nf := r.Range(1, 6)
	var files []treeFile
	var names []string
	for j := 0; j < nf; j++ {
		ext := cliExts[r.Intn(len(cliExts))]
		dir := r.Pick([]string{"", "", "d/", "d/e/"})
		p := fmt.Sprintf("%sr%d.%s", dir, j, ext)
		size := []int{0, 1, 50, 500, 5000, 50000, 140000}[r.Intn(7)]
		data := sampleSized(ext, size)
		if r.Chance(1, 8) {
			data = "<<< not valid {{{ " + data[:len(data)/2]
		}
		files = append(files, treeFile{Path: p, Data: data})
		names = append(names, p)
	}
	var args []string
	switch r.Intn(4) {
	case 0:
		args = append([]string{"-o", "."}, names...)
		for _, n := range names {
			if strings.Contains(n, "/") { // -o . flattens; restrict to a recursive run instead
				args = []string{"-r", "-o", ".", "."}
				break
			}
		}
	case 1:
		args = []string{"-r", "-o", ".", "."}
	case 2:
		args = []string{"-r", "-o", "./", "./"}
	default:
		args = []string{"-o", names[0], names[0]}
	}
	if r.Chance(1, 3) {
		args = append([]string{"-q"}, args...)
	}
	if r.Chance(1, 4) {
		args = append([]string{"-p", r.Pick([]string{"all", "mode", "timestamps", "ownership"})}, args...)
	}
	return cliCase{Name: fmt.Sprintf("random-%d", i), Files: files, Args: args}
}

// ---------------------------------------------------------------------------

type straceResult struct {
	rc      int
	killed  bool
	log     string
	stdout  []byte
	stderr  []byte
	elapsed time.Duration
	err     error
}

func runStrace(root, logPath string, inject []string, stdin string, args []string) straceResult {
	bin := os.Getenv("MINIFY_BIN")
	sargs := []string{"-f", "-y", "-xx", "-s", "33554432", "-o", logPath, "-e", "trace=" + straceSet}
	for _, in := range inject {
		sargs = append(sargs, "-e", "inject="+in)
	}
	sargs = append(sargs, bin)
	sargs = append(sargs, cliArgsAt(root, args)...)
	cmd := exec.Command("strace", sargs...)
	cmd.Dir = root
	cmd.Env = append(os.Environ(), "GOMAXPROCS=4")
	var so, se bytes.Buffer
	cmd.Stdout, cmd.Stderr = &so, &se
	if stdin != "" {
		cmd.Stdin = strings.NewReader(stdin)
	}
	t0 := time.Now()
	done := make(chan error, 1)
	if err := cmd.Start(); err != nil {
		return straceResult{err: err}
	}
	go func() { done <- cmd.Wait() }()
	var err error
	select {
	case err = <-done:
	case <-time.After(120 * time.Second):
		cmd.Process.Kill()
		<-done
		return straceResult{err: fmt.Errorf("watchdog: strace run exceeded 120s")}
	}
	res := straceResult{log: logPath, stdout: so.Bytes(), stderr: se.Bytes(), elapsed: time.Since(t0)}
	if ee, ok := err.(*exec.ExitError); ok {
		if ws, ok := ee.Sys().(syscall.WaitStatus); ok {
			if ws.Signaled() {
				res.killed = true
				res.rc = 128 + int(ws.Signal())
			} else {
				res.rc = ws.ExitStatus()
			}
		}
	} else if err != nil {
		res.err = err
	}
	// strace re-raises the tracee's fatal signal on itself; it may also report it as 128+9
	if res.rc == 137 {
		res.killed = true
	}
	return res
}

type c20Violation struct {
	Case     string   `json:"case"`
	Args     []string `json:"args"`
	Input    string   `json:"input_file"`
	Mode     string   `json:"mode"` // model-boundary | model-torn | real-kill
	Boundary string   `json:"boundary"`
	State    string   `json:"state"`
	Trace    []string `json:"trace_tail,omitempty"`
}

func describeState(get func(string) ([]byte, bool), f string, orig, final []byte) string {
	d := func(p string) string {
		b, ok := get(p)
		if !ok {
			return p + ": absent"
		}
		tag := "other"
		switch {
		case bytes.Equal(b, orig):
			tag = "== original"
		case final != nil && bytes.Equal(b, final):
			tag = "== new output"
		case len(b) == 0:
			tag = "empty"
		case final != nil && bytes.HasPrefix(final, b):
			tag = "proper prefix of new output"
		}
		return fmt.Sprintf("%s: %d bytes (%s)", p, len(b), tag)
	}
	return d(f) + "; " + d(f+".bak") + fmt.Sprintf("; original is %d bytes", len(orig))
}

// c20Invariant returns the input files that currently have their content nowhere.
func c20Invariant(get func(string) ([]byte, bool), inputs []string, orig map[string][]byte, final map[string][]byte) []string {
	var bad []string
	for _, f := range inputs {
		o := orig[f]
		if b, ok := get(f); ok && bytes.Equal(b, o) {
			continue
		}
		if b, ok := get(f + ".bak"); ok && bytes.Equal(b, o) {
			continue
		}
		if fin, has := final[f]; has {
			if b, ok := get(f); ok && bytes.Equal(b, fin) {
				continue
			}
		}
		bad = append(bad, f)
	}
	return bad
}

func readThrough(root, rel string) ([]byte, bool) {
	b, err := os.ReadFile(filepath.Join(root, rel))
	if err != nil {
		return nil, false
	}
	return b, true
}

func caseInputs(c cliCase) []string {
	non := map[string]bool{}
	for _, n := range c.NonInputs {
		non[n] = true
	}
	var in []string
	for _, f := range c.Files {
		if strings.HasSuffix(f.Path, "/") || non[f.Path] {
			continue
		}
		in = append(in, f.Path)
	}
	sort.Strings(in)
	return in
}

func C20(run *core.Run) {
	if _, err := exec.LookPath("strace"); err != nil || os.Getenv("MINIFY_BIN") == "" {
		run.Inconclusive()
		run.Set("setup_problem", "strace or MINIFY_BIN missing")
		run.Finish("n/a", nil, 1, false)
		return
	}
	scratch := core.Scratch("c20")
	defer os.RemoveAll(scratch)

	cases := c20Cases(run)
	var mu sync.Mutex
	states := map[string]bool{}
	killBySyscall := map[string]int{}
	core.ParallelFor(len(cases), 8, func(ci int) {
		c := cases[ci]
		base := filepath.Join(scratch, fmt.Sprintf("case%03d", ci))
		os.MkdirAll(base, 0755)
		defer os.RemoveAll(base)
		inputs := caseInputs(c)
		fresh := func(tag string) string {
			root := filepath.Join(base, tag)
			os.RemoveAll(root)
			if err := materialize(root, c.Files); err != nil {
				panic(err)
			}
			return root
		}
		report := func(v c20Violation) {
			sig := "c20|" + c.Name + "|" + v.Input + "|" + v.Mode
			key := core.Key("c20", []byte(sig))
			run.Violation(key, fmt.Sprintf("%s: input %s has its content nowhere on disk (%s at %s): %s", c, v.Input, v.Mode, core.Trunc(v.Boundary, 160), v.State), v)
		}

		// ---- reference run, traced
		root := fresh("ref")
		origSnap, _ := diskSnapshot(root)
		orig := map[string][]byte{}
		for _, f := range inputs {
			b, ok := readThrough(root, f)
			if !ok {
				panic("input missing after materialize: " + f)
			}
			orig[f] = b
		}
		model := newFSModel(root)
		if err := model.loadDisk(); err != nil {
			panic(err)
		}
		logPath := filepath.Join(base, "ref.strace")
		res := runStrace(root, logPath, nil, c.Stdin, c.Args)
		if res.err != nil {
			run.Inconclusive()
			run.Count("strace_failed")
			run.Set("strace_error", res.err.Error())
			return
		}
		finalSnap, _ := diskSnapshot(root)
		// "the complete new output" comes from the reference model (library calls), not from what the run
		// under test left behind; only where the model declines is the observed final content used
		final := map[string][]byte{}
		exp := cliExpect(c.Files, parseCLIArgs(c.Args))
		if exp.Unmodelled == "" {
			run.Count("new_output_from_model")
			for _, f := range inputs {
				if b, ok := exp.FS.readFile(f); ok {
					final[f] = b
				}
			}
		} else {
			run.Count("new_output_from_observed_final")
			for _, f := range inputs {
				if b, ok := readThrough(root, f); ok {
					final[f] = b
				}
			}
		}
		_ = origSnap
		events, err := parseStrace(logPath)
		if err != nil {
			run.Inconclusive()
			run.Count("strace_parse_failed")
			run.Set("strace_parse_error", err.Error()+" | "+string(res.stderr))
			return
		}
		run.CountN("trace_events", int64(len(events)))
		run.Count("traces_reference")
		if res.rc != 0 {
			run.Count("reference_runs_exit_nonzero")
		}

		// ---- replay with the invariant at every boundary
		// replay returns what the model saw; the caller reports it only when the model reproduces the real final
		// state of that run (a model that lost track of a descriptor says nothing about the program)
		replay := func(model *fsModel, events []sysEvent, final map[string][]byte, tag string) (boundaries int, pending []c20Violation) {
			get := func(rel string) ([]byte, bool) { return model.content(filepath.Join(model.root, rel)) }
			check := func(mode, boundary string, idx int) {
				run.Eval()
				bad := c20Invariant(get, inputs, orig, final)
				for _, f := range bad {
					var tail []string
					for j := idx - 6; j <= idx; j++ {
						if j >= 0 && j < len(events) {
							tail = append(tail, core.Trunc(decodeForHumans(events[j]), 200))
						}
					}
					pending = append(pending, c20Violation{Case: c.Name, Args: c.Args, Input: f, Mode: tag + mode, Boundary: boundary, State: describeState(get, f, orig[f], final[f]), Trace: tail})
				}
			}
			for i, e := range events {
				mut, torn := model.apply(e)
				if !mut {
					continue
				}
				boundaries++
				if torn != nil && len(torn.data) > 1 {
					full := torn.ino.data
					cuts := []int{1, len(torn.data) / 2, len(torn.data) - 1}
					if len(torn.data) > 8192 {
						cuts = append(cuts, 4096, len(torn.data)-4096)
					}
					for _, k := range cuts {
						if k <= 0 || k >= len(torn.data) {
							continue
						}
						// state if only the first k bytes of this write had reached the file
						part := append([]byte{}, full[:torn.off+int64(k)]...)
						torn.ino.data = part
						run.Count("torn_states")
						check("model-torn", fmt.Sprintf("%d of %d bytes of %s", k, len(torn.data), core.Trunc(decodeForHumans(e), 120)), i)
					}
					torn.ino.data = full
				}
				run.Count("boundary:" + e.Name)
				check("model-boundary", decodeForHumans(e), i)
				mu.Lock()
				states[snapshotDigest(model.snapshot())] = true
				mu.Unlock()
			}
			return boundaries, pending
		}
		nb, pend := replay(model, events, final, "")
		run.CountN("crash_boundaries", int64(nb))
		if len(model.gaps) == 0 && snapshotEqual(model.snapshot(), finalSnap) {
			for _, v := range pend {
				report(v)
			}
		}
		if len(model.gaps) > 0 || !snapshotEqual(model.snapshot(), finalSnap) {
			// the model does not reproduce the real final state: whatever it said is not trusted
			run.Inconclusive()
			run.Count("model_fidelity_mismatch")
			run.Sample(map[string]interface{}{"case": c.String(), "gaps": model.gaps, "diff": snapshotDiff(model.snapshot(), finalSnap)})
		} else {
			run.Count("model_final_state_equals_disk")
		}
		run.NonTrivial([]byte(c.Name), []byte(strings.Join(c.Args, " ")))

		// ---- real kills
		killSyscalls := []string{"renameat", "openat", "write", "unlinkat", "fchmodat", "utimensat", "close", "mkdirat", "copy_file_range", "fchownat"}
		maxN := 3
		if run.Thorough() {
			maxN = 40
		}
		for _, sc := range killSyscalls {
			for n := 1; n <= maxN; n++ {
				kroot := fresh("kill")
				kres := runStrace(kroot, "/dev/null", []string{fmt.Sprintf("%s:signal=SIGKILL:when=%d", sc, n)}, c.Stdin, c.Args)
				if kres.err != nil {
					run.Inconclusive()
					run.Count("kill_run_failed")
					break
				}
				run.Count("real_kill_runs")
				get := func(rel string) ([]byte, bool) { return readThrough(kroot, rel) }
				run.Eval()
				for _, f := range c20Invariant(get, inputs, orig, final) {
					report(c20Violation{Case: c.Name, Args: c.Args, Input: f, Mode: "real-kill", Boundary: fmt.Sprintf("SIGKILL at %s #%d", sc, n), State: describeState(get, f, orig[f], final[f])})
				}
				if kres.killed {
					mu.Lock()
					killBySyscall[sc]++
					snap, _ := diskSnapshot(kroot)
					states[snapshotDigest(rebase(snap))] = true
					mu.Unlock()
					run.Count("real_kills_landed")
				} else {
					break // fewer than n such calls in any thread: larger n cannot land either
				}
			}
		}

		// ---- write-error runs (restore path), traced and replayed like the reference run
		maxW := 2
		if run.Thorough() {
			maxW = 6
		}
		for _, fault := range [][2]string{{"write", "ENOSPC"}, {"write", "EIO"}, {"read", "EIO"}, {"renameat", "EXDEV"}, {"renameat", "EACCES"}, {"fchmodat", "EPERM"}, {"fchownat", "EPERM"}, {"utimensat", "EPERM"}} {
			sc, errno := fault[0], fault[1]
			for n := 1; n <= maxW; n++ {
				eroot := fresh("err")
				emodel := newFSModel(eroot)
				emodel.loadDisk()
				elog := filepath.Join(base, "err.strace")
				var pArgs []string
				eres := runStraceP(eroot, elog, []string{fmt.Sprintf("%s:error=%s:when=%d", sc, errno, n)}, c, &pArgs)
				if eres.err != nil {
					run.Inconclusive()
					run.Count("error_run_failed")
					break
				}
				evs, err := parseStrace(elog)
				if err != nil {
					run.Inconclusive()
					break
				}
				hit := false
				for _, e := range evs {
					if strings.Contains(e.Ret, "(INJECTED)") {
						hit = true
					}
				}
				if !hit {
					break
				}
				run.Count(sc + "_error_runs:" + errno)
				efinalSnap, _ := diskSnapshot(eroot)
				_, epend := replay(emodel, evs, final, sc+"-error-")
				if len(emodel.gaps) == 0 && snapshotEqual(emodel.snapshot(), efinalSnap) {
					for _, v := range epend {
						report(v)
					}
				}
				if len(emodel.gaps) > 0 || !snapshotEqual(emodel.snapshot(), efinalSnap) {
					run.Inconclusive()
					run.Count("model_fidelity_mismatch")
					run.Sample(map[string]interface{}{"case": c.String() + " [" + errno + "]", "gaps": emodel.gaps, "diff": snapshotDiff(emodel.snapshot(), efinalSnap)})
				} else {
					run.Count("model_final_state_equals_disk")
				}
				// after the failed run ends the inputs must still be somewhere as well
				get := func(rel string) ([]byte, bool) { return readThrough(eroot, rel) }
				run.Eval()
				for _, f := range c20Invariant(get, inputs, orig, final) {
					report(c20Violation{Case: c.Name, Args: c.Args, Input: f, Mode: sc + "-error-final", Boundary: fmt.Sprintf("%s at %s #%d", errno, sc, n), State: describeState(get, f, orig[f], final[f])})
				}
			}
		}
	})
	run.Set("distinct_fs_states_observed", len(states))
	run.Set("real_kills_by_syscall", killBySyscall)
	run.Set("cases", len(cases))
	c20Watch(run)
	run.Finish("for every input file f, at every syscall boundary and inside every write of the traced run (and of runs with injected write errors), and after every real SIGKILL: f == orig(f) or f.bak == orig(f) or f == complete new output",
		[]string{
			"a kill is modelled as process death (SIGKILL): data handed to write(2) survives; power loss / page-cache loss is out of scope",
			"crash points are syscall boundaries plus torn writes; CPU-only steps between syscalls do not change the disk",
			"model verdicts are only trusted when the replayed model reproduces the real final directory byte for byte",
		}, 20, false)
}

// rebase makes snapshots of different scratch roots comparable (they are already relative).
func rebase(s map[string]string) map[string]string { return s }

// runStraceP is runStrace restricted with -P to the sandbox paths so that injected write errors only hit
// files of the tree (never stdout, pipes or the runtime's eventfd).
func runStraceP(root, logPath string, inject []string, c cliCase, _ *[]string) straceResult {
	bin := os.Getenv("MINIFY_BIN")
	sargs := []string{"-f", "-y", "-xx", "-s", "33554432", "-o", logPath, "-e", "trace=" + straceSet}
	for _, in := range inject {
		sargs = append(sargs, "-e", "inject="+in)
	}
	seen := map[string]bool{}
	addP := func(p string) {
		// strace matches path arguments textually: give the absolute and the relative spelling
		forms := []string{p}
		if rel, err := filepath.Rel(root, p); err == nil && rel != "." {
			forms = append(forms, rel, "./"+rel, rel+"/", p+"/")
		}
		for _, f := range forms {
			if !seen[f] {
				seen[f] = true
				sargs = append(sargs, "-P", f)
			}
		}
	}
	for _, f := range c.Files {
		p := filepath.Join(root, f.Path)
		addP(p)
		addP(p + ".bak")
		for d := filepath.Dir(p); len(d) >= len(root); d = filepath.Dir(d) {
			addP(d)
		}
	}
	// plausible outputs
	for i, a := range c.Args {
		if a == "-o" && i+1 < len(c.Args) {
			out := filepath.Join(root, c.Args[i+1])
			addP(out)
			for _, f := range c.Files {
				rel := f.Path
				if j := strings.IndexByte(rel, '/'); j >= 0 && strings.HasSuffix(c.Args[len(c.Args)-1], "/") {
					rel = rel[j+1:]
				}
				addP(filepath.Join(out, rel))
				addP(filepath.Join(out, filepath.Dir(rel)))
				// inputs named with their directory land under the output without (some of) it
				for t := f.Path; ; {
					j := strings.IndexByte(t, '/')
					if j < 0 {
						break
					}
					t = t[j+1:]
					addP(filepath.Join(out, t))
					addP(filepath.Join(out, filepath.Dir(t)))
				}
			}
		}
	}
	sargs = append(sargs, bin)
	sargs = append(sargs, cliArgsAt(root, c.Args)...)
	cmd := exec.Command("strace", sargs...)
	cmd.Dir = root
	cmd.Env = append(os.Environ(), "GOMAXPROCS=4")
	var so, se bytes.Buffer
	cmd.Stdout, cmd.Stderr = &so, &se
	if c.Stdin != "" {
		cmd.Stdin = strings.NewReader(c.Stdin)
	}
	done := make(chan error, 1)
	if err := cmd.Start(); err != nil {
		return straceResult{err: err}
	}
	go func() { done <- cmd.Wait() }()
	var err error
	select {
	case err = <-done:
	case <-time.After(120 * time.Second):
		cmd.Process.Kill()
		<-done
		return straceResult{err: fmt.Errorf("watchdog: strace run exceeded 120s")}
	}
	res := straceResult{log: logPath, stdout: so.Bytes(), stderr: se.Bytes()}
	if ee, ok := err.(*exec.ExitError); ok {
		res.rc = ee.ExitCode()
	} else if err != nil {
		res.err = err
	}
	return res
}

// decodeForHumans renders an event with hex strings decoded (data arguments shortened).
func decodeForHumans(e sysEvent) string {
	var parts []string
	for _, a := range e.Args {
		switch {
		case strings.HasPrefix(a, "\""):
			b, _ := straceStr(a)
			s := string(b)
			if len(s) > 40 {
				s = fmt.Sprintf("%q...(%d bytes)", s[:40], len(b))
			} else {
				s = fmt.Sprintf("%q", s)
			}
			parts = append(parts, s)
		case strings.Contains(a, "<"):
			fd, p := fdArg(a)
			if fd == -100 {
				parts = append(parts, "AT_FDCWD")
			} else {
				parts = append(parts, fmt.Sprintf("%d<%s>", fd, filepath.Base(p)))
			}
		default:
			parts = append(parts, core.Trunc(a, 60))
		}
	}
	ret := e.Ret
	if i := strings.IndexByte(ret, '<'); i >= 0 {
		ret = ret[:i]
	}
	return e.Name + "(" + strings.Join(parts, ", ") + ") = " + ret
}
