package checks

// C20, watch mode: the command keeps running and minifies a file again whenever the user saves it.  The monitor
// plays the user (saves new, longer content with one write call), lets strace kill the command at the n-th
// rename/open/write/unlink of the run, and inspects the disk after the command is dead: the content the user
// saved last must be at the path, in the .bak sibling, or the path holds its complete minified form.

import (
	"bytes"
	"fmt"
	"os"
	"os/exec"
	"path/filepath"
	"sync"
	"syscall"
	"time"

	"verif/harness/core"
)

type c20WatchCase struct {
	name   string
	files  []treeFile
	args   []string
	edits  []string // paths saved by the user, in order (one round each)
	inputs []string // css files whose content is tracked
	ro     bool     // inputs are only read (separate output)
}

func c20WatchCases() []c20WatchCase {
	css := "a { color : red }\n"
	b, c, d := "b { margin : 0px }\n", "c { top : 0px }\n", "d { left : 0px }\n"
	// every file is saved once: the command sometimes runs a cycle of its own on a file it has just written, and a
	// second save of that file could collide with it
	return []c20WatchCase{
		{name: "watch-inplace-file", files: []treeFile{{Path: "style.css", Data: css}}, args: []string{"--type", "css", "-w", "-o", "style.css", "style.css"},
			edits: []string{"style.css"}, inputs: []string{"style.css"}},
		{name: "watch-inplace-file-bare", files: []treeFile{{Path: "style.css", Data: css}}, args: []string{"-w", "-o", "style.css", "style.css"},
			edits: []string{"style.css"}, inputs: []string{"style.css"}},
		{name: "watch-inplace-dir", files: []treeFile{{Path: "src/a.css", Data: css}, {Path: "src/sub/b.css", Data: b}, {Path: "src/c.css", Data: c}, {Path: "src/sub/d.css", Data: d}}, args: []string{"-w", "-r", "-o", "src/", "src/"},
			edits: []string{"src/sub/b.css", "src/a.css", "src/sub/d.css", "src/c.css"}, inputs: []string{"src/a.css", "src/sub/b.css", "src/c.css", "src/sub/d.css"}},
		{name: "watch-inplace-files", files: []treeFile{{Path: "a.css", Data: css}, {Path: "b.css", Data: b}}, args: []string{"-w", "-o", ".", "a.css", "b.css"},
			edits: []string{"b.css", "a.css"}, inputs: []string{"a.css", "b.css"}},
		{name: "watch-separate-dir", files: []treeFile{{Path: "src/a.css", Data: css}, {Path: "src/sub/b.css", Data: b}}, args: []string{"-w", "-r", "-o", "out/", "src/"},
			edits: []string{"src/a.css", "src/sub/b.css"}, inputs: []string{"src/a.css", "src/sub/b.css"}, ro: true},
	}
}

// saveLonger overwrites the file with content that is longer than what it holds, in one write call: there is no
// instant at which the file holds part of the user's text.  raced: the file that was written is no longer the one
// at the path (the command had renamed it away for a cycle of its own while the user was saving: two writers on
// one file, which is not what the property is about).
func saveLonger(path string, data []byte) (raced bool, err error) {
	f, err := os.OpenFile(path, os.O_WRONLY, 0)
	if err != nil {
		if os.IsNotExist(err) {
			return true, nil
		}
		return false, err
	}
	defer f.Close()
	n, err := f.Write(data)
	if err == nil && n != len(data) {
		err = fmt.Errorf("short write")
	}
	if err != nil {
		return false, err
	}
	mine, err1 := f.Stat()
	there, err2 := os.Stat(path)
	if err1 != nil || err2 != nil || !os.SameFile(mine, there) {
		return true, nil
	}
	return false, nil
}

type c20WatchResult struct {
	landed    bool // the command died by itself (the injected kill landed)
	rounds    int  // user saves made
	reacted   int  // saves the command answered with a complete new output
	raced     bool // a save collided with a cycle the command ran on its own output: no verdict from this run
	setupFail string
}

// c20WatchRun drives one watched run; current maps every tracked input to the bytes the user saved last.
func c20WatchRun(root string, c c20WatchCase, inject string, min func([]byte) []byte) (res c20WatchResult, current map[string][]byte) {
	current = map[string][]byte{}
	for _, f := range c.inputs {
		b, _ := readThrough(root, f)
		current[f] = b
	}
	sargs := []string{"-f", "-o", "/dev/null", "-e", "trace=" + straceSet}
	if inject != "" {
		sargs = append(sargs, "-e", "inject="+inject)
	}
	sargs = append(sargs, os.Getenv("MINIFY_BIN"))
	sargs = append(sargs, cliArgsAt(root, c.args)...)
	cmd := exec.Command("strace", sargs...)
	cmd.Dir = root
	cmd.Env = append(os.Environ(), "GOMAXPROCS=4")
	cmd.SysProcAttr = &syscall.SysProcAttr{Setpgid: true}
	var se bytes.Buffer
	cmd.Stdout, cmd.Stderr = &se, &se
	if err := cmd.Start(); err != nil {
		res.setupFail = err.Error()
		return
	}
	done := make(chan struct{})
	go func() { cmd.Wait(); close(done) }()
	dead := func() bool {
		select {
		case <-done:
			return true
		default:
			return false
		}
	}
	defer func() {
		if !dead() {
			syscall.Kill(-cmd.Process.Pid, syscall.SIGKILL)
			<-done
		}
	}()
	// the first pass: every input minified once (or the command is dead)
	outOf := func(f string) string {
		if c.ro {
			return filepath.Join("out", f[len("src/"):])
		}
		return f
	}
	await := func(f string, want []byte, limit time.Duration) bool {
		for t0 := time.Now(); time.Since(t0) < limit; time.Sleep(3 * time.Millisecond) {
			if b, ok := readThrough(root, outOf(f)); ok && bytes.Equal(b, want) {
				return true
			}
			if dead() {
				return false
			}
		}
		return false
	}
	for _, f := range c.inputs {
		if !await(f, min(current[f]), 20*time.Second) {
			if dead() {
				res.landed = true
			} else {
				res.setupFail = "the first pass never finished: " + core.Trunc(se.String(), 300)
			}
			return
		}
	}
	time.Sleep(150 * time.Millisecond) // the watcher ignores changes within 100 ms of its own writes
	for j, f := range c.edits {
		// a save the command does not answer (it skips the first change it sees on a file it has written) is
		// followed by a second, longer one
		for attempt := 0; attempt < 2; attempt++ {
			if dead() {
				res.landed = true
				return
			}
			text := []byte(fmt.Sprintf("r%d { color : blue }\nc%d { margin : 0px ; padding : %s0px }\n", j, j, bytes.Repeat([]byte("0px "), 3+attempt)))
			raced, err := saveLonger(filepath.Join(root, f), text)
			if err != nil {
				res.setupFail = "saving failed: " + err.Error()
				return
			}
			if raced {
				res.raced = true
				return
			}
			current[f] = text
			res.rounds++
			if await(f, min(text), 2*time.Second) {
				res.reacted++
				break
			} else if dead() {
				res.landed = true
				return
			}
		}
	}
	return
}

func c20Watch(run *core.Run) {
	m := newM(nil)
	min := func(b []byte) []byte {
		out, err := m.Bytes("text/css", append([]byte{}, b...))
		if err != nil {
			return b
		}
		return out
	}
	scratch := core.Scratch("c20watch")
	defer os.RemoveAll(scratch)
	type job struct {
		c      c20WatchCase
		inject string
	}
	var jobs []job
	maxN := run.N(4, 14)
	for _, c := range c20WatchCases() {
		jobs = append(jobs, job{c, ""})
		for _, sc := range []string{"renameat", "openat", "write", "unlinkat", "close"} {
			for n := 1; n <= maxN; n++ {
				jobs = append(jobs, job{c, fmt.Sprintf("%s:signal=SIGKILL:when=%d", sc, n)})
			}
		}
	}
	var mu sync.Mutex
	core.ParallelFor(len(jobs), 12, func(i int) {
		j := jobs[i]
		root := filepath.Join(scratch, fmt.Sprintf("w%04d", i))
		if err := materialize(root, j.c.files); err != nil {
			panic(err)
		}
		defer os.RemoveAll(root)
		res, current := c20WatchRun(root, j.c, j.inject, min)
		if res.setupFail != "" {
			run.Inconclusive()
			run.Count("watch_run_failed")
			mu.Lock()
			run.Set("watch_run_problem", j.c.name+": "+res.setupFail)
			mu.Unlock()
			return
		}
		run.Count("watch_runs")
		run.CountN("watch_user_saves", int64(res.rounds))
		run.CountN("watch_saves_answered", int64(res.reacted))
		if res.landed {
			run.Count("watch_kills_landed")
		}
		if j.inject == "" && res.reacted < len(j.c.edits) {
			run.Count(fmt.Sprintf("watch_unanswered_saves_in_unfaulted_run:%s:%d_of_%d", j.c.name, res.reacted, len(j.c.edits)))
		}
		run.Eval()
		get := func(rel string) ([]byte, bool) { return readThrough(root, rel) }
		bad := false
		if res.raced {
			run.Count("watch_save_collided_with_own_cycle")
			return
		}
		for _, f := range j.c.inputs {
			want := current[f]
			if b, ok := get(f); ok && bytes.Equal(b, want) {
				continue
			}
			if !j.c.ro {
				// the command may have completed the cycle for what the user saved and begun another one on its own
				// output: then that output is the original of the cycle that was killed
				w1 := min(want)
				if b, ok := get(f + ".bak"); ok && (bytes.Equal(b, want) || bytes.Equal(b, w1)) {
					continue
				}
				if b, ok := get(f); ok && (bytes.Equal(b, w1) || bytes.Equal(b, min(w1))) {
					continue
				}
			}
			bad = true
			mode := "watch-end"
			if res.landed {
				mode = "watch-real-kill"
			}
			v := c20Violation{Case: j.c.name, Args: j.c.args, Input: f, Mode: mode, Boundary: "inject=" + j.inject + fmt.Sprintf(" after %d saves (%d answered)", res.rounds, res.reacted), State: describeState(get, f, want, min(want))}
			run.Violation(core.Key("c20", []byte("c20|"+j.c.name+"|"+f+"|"+mode)), fmt.Sprintf("%s: minify %v: what the user saved last in %s is nowhere on disk (%s, %s): %s", j.c.name, j.c.args, f, mode, v.Boundary, v.State), v)
		}
		if !bad {
			run.NonTrivial([]byte(j.c.name), []byte(j.inject), []byte(fmt.Sprint(res.landed, res.rounds)))
		}
	})
}
