package checks

// Frozen inputs extracted once from the repository's *_test.go tables (inputs only;
// the expected outputs are NOT used). `vcheck extract-corpus` regenerates /verif/corpus.

import (
	"encoding/json"
	"fmt"
	"go/ast"
	"go/parser"
	"go/token"
	"os"
	"path/filepath"
	"sort"
	"strconv"
)

func verifHome() string {
	if d := os.Getenv("VERIF_HOME"); d != "" {
		return d
	}
	return "/verif"
}

func extractFirstStrings(file string) []string {
	fset := token.NewFileSet()
	f, err := parser.ParseFile(fset, file, nil, 0)
	if err != nil {
		fmt.Fprintln(os.Stderr, err)
		return nil
	}
	seen := map[string]bool{}
	var out []string
	ast.Inspect(f, func(n ast.Node) bool {
		cl, ok := n.(*ast.CompositeLit)
		if !ok || len(cl.Elts) < 2 || cl.Type != nil {
			return true
		}
		first, ok1 := cl.Elts[0].(*ast.BasicLit)
		second, ok2 := cl.Elts[1].(*ast.BasicLit)
		if !ok1 || first.Kind != token.STRING {
			return true
		}
		if ok2 && second.Kind != token.STRING && second.Kind != token.INT {
			return true
		}
		s, err := strconv.Unquote(first.Value)
		if err == nil && !seen[s] {
			seen[s] = true
			out = append(out, s)
		}
		return true
	})
	return out
}

func init() {
	Children["extract-corpus"] = func(args []string) {
		dst := filepath.Join(verifHome(), "corpus")
		os.MkdirAll(dst, 0o755)
		for name, files := range map[string][]string{
			"js":   {"js/js_test.go", "js/util_test.go"},
			"html": {"html/html_test.go"},
			"css":  {"css/css_test.go"},
			"svg":  {"svg/svg_test.go"},
			"path": {"svg/pathdata_test.go"},
			"xml":  {"xml/xml_test.go"},
			"json": {"json/json_test.go"},
		} {
			var all []string
			for _, f := range files {
				all = append(all, extractFirstStrings(filepath.Join(repoDir(), f))...)
			}
			sort.Strings(all)
			b, _ := json.MarshalIndent(all, "", " ")
			os.WriteFile(filepath.Join(dst, name+"_test_inputs.json"), b, 0o644)
			fmt.Println(name, len(all))
		}
	}
}

// frozenCorpus loads /verif/corpus/<name>_test_inputs.json.
func frozenCorpus(name string) []string {
	b, err := os.ReadFile(filepath.Join(verifHome(), "corpus", name+"_test_inputs.json"))
	if err != nil {
		fmt.Fprintln(os.Stderr, "corpus missing:", err)
		os.Exit(2)
	}
	var s []string
	if err := json.Unmarshal(b, &s); err != nil {
		fmt.Fprintln(os.Stderr, "corpus unreadable:", err)
		os.Exit(2)
	}
	return s
}
