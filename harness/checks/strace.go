package checks

// strace log reader and file-system model shared by C19/C20.
//
// The command is run under `strace -f -y -xx -s <big>`: every string is hex escaped, descriptors are annotated
// with their paths.  The log is the event trace; fsModel replays the *successful* mutating calls on an
// in-memory file system with inodes, a descriptor table and a path table, so that the state "as if the
// process had been killed right after this call" (and in the middle of a write) can be inspected.

import (
	"bufio"
	"bytes"
	"fmt"
	"os"
	"path/filepath"
	"regexp"
	"sort"
	"strconv"
	"strings"

	"verif/harness/core"
)

const straceSet = "openat,open,creat,rename,renameat,renameat2,unlink,unlinkat,rmdir,write,pwrite64,writev,ftruncate,truncate,mkdir,mkdirat,symlink,symlinkat,link,linkat,chmod,fchmod,fchmodat,chown,fchown,lchown,fchownat,utimensat,utimes,futimesat,close,dup,dup2,dup3,copy_file_range,sendfile,lseek,read,pread64,fsync,fdatasync"

type sysEvent struct {
	Pid  string
	Name string
	Args []string // top-level arguments, raw text
	Ret  string   // text after " = "
	Raw  string
}

func (e sysEvent) ok() bool { return !strings.HasPrefix(e.Ret, "-1") && e.Ret != "?" && e.Ret != "" }
func (e sysEvent) retInt() int64 {
	f := e.Ret
	if i := strings.IndexAny(f, " <("); i >= 0 {
		f = f[:i]
	}
	n, _ := strconv.ParseInt(f, 0, 64)
	return n
}

var reResumed = regexp.MustCompile(`^<\.\.\. (\w+) resumed>`)

// parseStrace joins unfinished/resumed pairs and orders events by completion.
func parseStrace(path string) ([]sysEvent, error) {
	f, err := os.Open(path)
	if err != nil {
		return nil, err
	}
	defer f.Close()
	sc := bufio.NewScanner(f)
	sc.Buffer(make([]byte, 1<<20), 1<<30)
	pending := map[string]string{}
	var out []sysEvent
	for sc.Scan() {
		line := sc.Text()
		sp := strings.IndexByte(line, ' ')
		if sp < 0 {
			continue
		}
		pid, rest := line[:sp], strings.TrimLeft(line[sp:], " ")
		if strings.HasPrefix(rest, "+++") || strings.HasPrefix(rest, "---") {
			continue
		}
		if strings.HasSuffix(rest, "<unfinished ...>") {
			pending[pid] = strings.TrimSuffix(rest, "<unfinished ...>")
			continue
		}
		if m := reResumed.FindStringSubmatch(rest); m != nil {
			rest = pending[pid] + rest[len(m[0]):]
			delete(pending, pid)
		}
		ev, ok := splitSyscall(rest)
		if !ok {
			continue
		}
		ev.Pid = pid
		out = append(out, ev)
	}
	return out, sc.Err()
}

// splitSyscall parses `name(arg, arg, ...) = ret`.
func splitSyscall(s string) (sysEvent, bool) {
	op := strings.IndexByte(s, '(')
	if op <= 0 {
		return sysEvent{}, false
	}
	ev := sysEvent{Name: s[:op], Raw: s}
	depth, inStr, start := 0, false, op+1
	i := op + 1
	for ; i < len(s); i++ {
		c := s[i]
		if inStr {
			if c == '\\' {
				i++
			} else if c == '"' {
				inStr = false
			}
			continue
		}
		switch c {
		case '"':
			inStr = true
		case '(', '[', '{', '<':
			depth++
		case ']', '}', '>':
			depth--
		case ')':
			if depth == 0 {
				if strings.TrimSpace(s[start:i]) != "" || len(ev.Args) > 0 {
					ev.Args = append(ev.Args, strings.TrimSpace(s[start:i]))
				}
				goto done
			}
			depth--
		case ',':
			if depth == 0 {
				ev.Args = append(ev.Args, strings.TrimSpace(s[start:i]))
				start = i + 1
			}
		}
	}
	return sysEvent{}, false
done:
	rest := s[i+1:]
	eq := strings.Index(rest, "= ")
	if eq < 0 {
		return sysEvent{}, false
	}
	ev.Ret = strings.TrimSpace(rest[eq+2:])
	return ev, true
}

// straceStr decodes a strace -xx string literal ("\x61\x62"...) ; complete=false if strace truncated it.
func straceStr(arg string) (data []byte, complete bool) {
	complete = !strings.HasSuffix(arg, "...")
	a := strings.TrimSuffix(arg, "...")
	if len(a) < 2 || a[0] != '"' {
		return nil, false
	}
	a = a[1 : len(a)-1]
	data = make([]byte, 0, len(a)/4)
	for i := 0; i+3 < len(a); i += 4 {
		v, err := strconv.ParseUint(a[i+2:i+4], 16, 8)
		if err != nil {
			return data, false
		}
		data = append(data, byte(v))
	}
	return data, complete
}

// fdArg splits `7</path/in/hex>` into number and path.
func fdArg(a string) (int, string) {
	lt := strings.IndexByte(a, '<')
	num := a
	p := ""
	if lt >= 0 {
		num = a[:lt]
		raw := strings.TrimSuffix(a[lt+1:], ">")
		p = unhexPath(raw)
	}
	if num == "AT_FDCWD" {
		return -100, p
	}
	n, err := strconv.Atoi(num)
	if err != nil {
		return -1, p
	}
	return n, p
}

func unhexPath(raw string) string {
	if !strings.Contains(raw, `\x`) {
		return raw
	}
	var b []byte
	for i := 0; i < len(raw); {
		if i+3 < len(raw) && raw[i] == '\\' && raw[i+1] == 'x' {
			v, _ := strconv.ParseUint(raw[i+2:i+4], 16, 8)
			b = append(b, byte(v))
			i += 4
		} else {
			b = append(b, raw[i])
			i++
		}
	}
	return string(b)
}

// ---------------------------------------------------------------- model

type inode struct {
	data    []byte
	symlink string
	isLink  bool
	mode    string
	id      int
}

type openFile struct {
	ino    *inode
	off    int64
	append bool
}

type fsModel struct {
	root    string            // absolute sandbox root, no trailing slash
	paths   map[string]*inode // absolute path -> inode (files and symlinks)
	dirs    map[string]bool
	fds     map[int]*openFile
	nextID  int
	gaps    []string // things the model could not represent (=> inconclusive, never a violation)
	Touched map[string]bool
}

func newFSModel(root string) *fsModel {
	return &fsModel{root: root, paths: map[string]*inode{}, dirs: map[string]bool{root: true}, fds: map[int]*openFile{}, Touched: map[string]bool{}}
}

func (m *fsModel) inside(p string) bool { return p == m.root || strings.HasPrefix(p, m.root+"/") }

func (m *fsModel) newInode() *inode { m.nextID++; return &inode{id: m.nextID} }

// loadDisk initialises the model from the real directory.
func (m *fsModel) loadDisk() error {
	return filepath.Walk(m.root, func(p string, info os.FileInfo, err error) error {
		if err != nil {
			return err
		}
		switch {
		case info.IsDir():
			m.dirs[p] = true
		case info.Mode()&os.ModeSymlink != 0:
			t, _ := os.Readlink(p)
			n := m.newInode()
			n.isLink, n.symlink = true, t
			m.paths[p] = n
		default:
			b, err := os.ReadFile(p)
			if err != nil {
				return err
			}
			n := m.newInode()
			n.data = b
			m.paths[p] = n
		}
		return nil
	})
}

// resolve follows symlinks on the final component (and on directories, textually) up to 8 levels.
func (m *fsModel) resolve(p string, follow bool) string {
	for i := 0; i < 8; i++ {
		p = m.resolveDirs(p)
		n := m.paths[p]
		if n == nil || !n.isLink || !follow {
			return p
		}
		t := n.symlink
		if !filepath.IsAbs(t) {
			t = filepath.Join(filepath.Dir(p), t)
		}
		p = filepath.Clean(t)
	}
	return p
}

func (m *fsModel) resolveDirs(p string) string {
	if !m.inside(p) {
		return p
	}
	rel := strings.TrimPrefix(p, m.root)
	cur := m.root
	parts := strings.Split(strings.Trim(rel, "/"), "/")
	for i, part := range parts {
		if part == "" {
			continue
		}
		cur = cur + "/" + part
		if i == len(parts)-1 {
			break
		}
		if n := m.paths[cur]; n != nil && n.isLink {
			t := n.symlink
			if !filepath.IsAbs(t) {
				t = filepath.Join(filepath.Dir(cur), t)
			}
			cur = filepath.Clean(t)
		}
	}
	return cur
}

func (m *fsModel) abs(dirArg, pathArg string) string {
	_, dir := fdArg(dirArg)
	b, _ := straceStr(pathArg)
	p := string(b)
	if !filepath.IsAbs(p) {
		p = filepath.Join(dir, p)
	}
	return filepath.Clean(p)
}

func (m *fsModel) gap(format string, a ...interface{}) {
	if len(m.gaps) < 20 {
		m.gaps = append(m.gaps, fmt.Sprintf(format, a...))
	}
}

// tornWrite describes a write whose intermediate states should be examined.
type tornWrite struct {
	ino  *inode
	off  int64
	data []byte
}

// apply replays one event.  It returns whether the file system changed (a crash boundary), and for writes
// the description needed to materialise torn states.
func (m *fsModel) apply(e sysEvent) (mutating bool, torn *tornWrite) {
	if !e.ok() {
		return false, nil
	}
	arg := func(i int) string {
		if i < len(e.Args) {
			return e.Args[i]
		}
		return ""
	}
	switch e.Name {
	case "openat", "open", "creat":
		var p, flags string
		switch e.Name {
		case "openat":
			p, flags = m.abs(arg(0), arg(1)), arg(2)
		case "open":
			b, _ := straceStr(arg(0))
			p, flags = filepath.Clean(string(b)), arg(1)
		default:
			b, _ := straceStr(arg(0))
			p, flags = filepath.Clean(string(b)), "O_WRONLY|O_CREAT|O_TRUNC"
		}
		fd, retPath := fdArg(e.Ret)
		if fd < 0 {
			return false, nil
		}
		delete(m.fds, fd)
		if !m.inside(p) && !m.inside(retPath) {
			return false, nil
		}
		if strings.Contains(flags, "O_DIRECTORY") || m.dirs[m.resolve(p, true)] {
			return false, nil
		}
		rp := m.resolve(p, !strings.Contains(flags, "O_NOFOLLOW"))
		if !m.inside(rp) {
			return false, nil
		}
		n := m.paths[rp]
		changed := false
		if n == nil {
			if !strings.Contains(flags, "O_CREAT") {
				m.gap("open of %s succeeded but the model has no such file", rp)
				return false, nil
			}
			n = m.newInode()
			m.paths[rp] = n
			changed = true
			m.Touched[rp] = true
		}
		if strings.Contains(flags, "O_TRUNC") && !strings.Contains(flags, "O_RDONLY") {
			if len(n.data) > 0 {
				changed = true
			}
			n.data = nil
			m.Touched[rp] = true
		}
		m.fds[fd] = &openFile{ino: n, append: strings.Contains(flags, "O_APPEND")}
		return changed, nil
	case "close":
		// strace -f prints a call when it returns: another thread's openat that reuses the number can be printed
		// first.  The -y annotation says which file this close was about; a descriptor that meanwhile belongs to
		// another file stays.
		fd, cp := fdArg(arg(0))
		if of := m.fds[fd]; of != nil && cp != "" && m.inside(cp) {
			if cur := m.paths[cp]; cur != nil && cur != of.ino && !strings.HasSuffix(cp, "(deleted)") {
				break
			}
		}
		delete(m.fds, fd)
	case "dup", "dup2", "dup3":
		fd, _ := fdArg(arg(0))
		nfd, _ := fdArg(e.Ret)
		if of := m.fds[fd]; of != nil {
			m.fds[nfd] = of
		} else {
			delete(m.fds, nfd)
		}
	case "lseek":
		fd, _ := fdArg(arg(0))
		if of := m.fds[fd]; of != nil {
			of.off = e.retInt()
		}
	case "read":
		fd, _ := fdArg(arg(0))
		if of := m.fds[fd]; of != nil {
			of.off += e.retInt()
		}
	case "write", "pwrite64":
		fd, wp := fdArg(arg(0))
		of := m.fds[fd]
		if of == nil {
			if wp != "" && m.inside(wp) {
				m.gap("write to %s through a descriptor the model does not know", wp)
			}
			return false, nil
		}
		if wp != "" && m.inside(wp) {
			if cur := m.paths[wp]; cur != nil && cur != of.ino {
				m.gap("write annotated %s goes to another file in the model (descriptor reuse across threads)", wp)
				return false, nil
			}
		}
		n := e.retInt()
		data, complete := straceStr(arg(1))
		if int64(len(data)) < n {
			m.gap("write of %d bytes logged with only %d (complete=%v)", n, len(data), complete)
			return false, nil
		}
		data = data[:n]
		off := of.off
		if e.Name == "pwrite64" {
			off, _ = strconv.ParseInt(arg(3), 0, 64)
		} else if of.append {
			off = int64(len(of.ino.data))
		}
		tw := &tornWrite{ino: of.ino, off: off, data: data}
		writeAt(of.ino, off, data)
		if e.Name == "write" {
			of.off = off + n
		}
		return n > 0, tw
	case "writev":
		fd, _ := fdArg(arg(0))
		if m.fds[fd] != nil {
			m.gap("writev on a tracked file")
		}
	case "copy_file_range", "sendfile":
		var inFd, outFd int
		if e.Name == "copy_file_range" {
			inFd, _ = fdArg(arg(0))
			outFd, _ = fdArg(arg(2))
			if arg(1) != "NULL" || arg(3) != "NULL" {
				if m.fds[outFd] != nil {
					m.gap("copy_file_range with explicit offsets")
				}
				return false, nil
			}
		} else {
			outFd, _ = fdArg(arg(0))
			inFd, _ = fdArg(arg(1))
			if arg(2) != "NULL" {
				if m.fds[outFd] != nil {
					m.gap("sendfile with explicit offset")
				}
				return false, nil
			}
		}
		out := m.fds[outFd]
		if out == nil {
			return false, nil
		}
		in := m.fds[inFd]
		n := e.retInt()
		if in == nil {
			m.gap("%s from an untracked descriptor into a tracked file", e.Name)
			return false, nil
		}
		if in.off+n > int64(len(in.ino.data)) {
			m.gap("%s reads past the modelled end of file", e.Name)
			return false, nil
		}
		data := append([]byte{}, in.ino.data[in.off:in.off+n]...)
		off := out.off
		if out.append {
			off = int64(len(out.ino.data))
		}
		tw := &tornWrite{ino: out.ino, off: off, data: data}
		writeAt(out.ino, off, data)
		in.off += n
		out.off = off + n
		return n > 0, tw
	case "ftruncate":
		fd, _ := fdArg(arg(0))
		if of := m.fds[fd]; of != nil {
			l, _ := strconv.ParseInt(arg(1), 0, 64)
			truncTo(of.ino, l)
			return true, nil
		}
	case "truncate":
		b, _ := straceStr(arg(0))
		p := m.resolve(filepath.Clean(string(b)), true)
		if n := m.paths[p]; n != nil {
			l, _ := strconv.ParseInt(arg(1), 0, 64)
			truncTo(n, l)
			m.Touched[p] = true
			return true, nil
		}
	case "rename", "renameat", "renameat2":
		var a, b string
		if e.Name == "rename" {
			x, _ := straceStr(arg(0))
			y, _ := straceStr(arg(1))
			a, b = filepath.Clean(string(x)), filepath.Clean(string(y))
		} else {
			a, b = m.abs(arg(0), arg(1)), m.abs(arg(2), arg(3))
		}
		a, b = m.resolveDirs(a), m.resolveDirs(b)
		if !m.inside(a) && !m.inside(b) {
			return false, nil
		}
		if e.Name == "renameat2" && arg(4) != "0" {
			m.gap("renameat2 with flags %s", arg(4))
			return false, nil
		}
		if m.dirs[a] {
			delete(m.dirs, a)
			m.dirs[b] = true
			for p, n := range m.paths {
				if strings.HasPrefix(p, a+"/") {
					delete(m.paths, p)
					m.paths[b+p[len(a):]] = n
				}
			}
			for d := range m.dirs {
				if strings.HasPrefix(d, a+"/") {
					delete(m.dirs, d)
					m.dirs[b+d[len(a):]] = true
				}
			}
			return true, nil
		}
		n := m.paths[a]
		if n == nil {
			m.gap("rename of unmodelled %s", a)
			return false, nil
		}
		if m.paths[b] == n {
			return false, nil // POSIX: renaming hard links of the same file does nothing
		}
		delete(m.paths, a)
		m.paths[b] = n
		m.Touched[a], m.Touched[b] = true, true
		return true, nil
	case "unlink", "unlinkat", "rmdir":
		var p string
		if e.Name == "unlinkat" {
			p = m.abs(arg(0), arg(1))
		} else {
			x, _ := straceStr(arg(0))
			p = filepath.Clean(string(x))
		}
		p = m.resolveDirs(p)
		if !m.inside(p) {
			return false, nil
		}
		if m.dirs[p] {
			delete(m.dirs, p)
			return true, nil
		}
		if m.paths[p] == nil {
			m.gap("unlink of unmodelled %s", p)
			return false, nil
		}
		delete(m.paths, p)
		m.Touched[p] = true
		return true, nil
	case "mkdir", "mkdirat":
		var p string
		if e.Name == "mkdirat" {
			p = m.abs(arg(0), arg(1))
		} else {
			x, _ := straceStr(arg(0))
			p = filepath.Clean(string(x))
		}
		p = m.resolveDirs(p)
		if m.inside(p) {
			m.dirs[p] = true
			return true, nil
		}
	case "symlink", "symlinkat":
		var target, p string
		x, _ := straceStr(arg(0))
		target = string(x)
		if e.Name == "symlinkat" {
			p = m.abs(arg(1), arg(2))
		} else {
			y, _ := straceStr(arg(1))
			p = filepath.Clean(string(y))
		}
		p = m.resolveDirs(p)
		if m.inside(p) {
			n := m.newInode()
			n.isLink, n.symlink = true, target
			m.paths[p] = n
			m.Touched[p] = true
			return true, nil
		}
	case "link", "linkat":
		var a, b string
		if e.Name == "linkat" {
			a, b = m.abs(arg(0), arg(1)), m.abs(arg(2), arg(3))
		} else {
			x, _ := straceStr(arg(0))
			y, _ := straceStr(arg(1))
			a, b = filepath.Clean(string(x)), filepath.Clean(string(y))
		}
		a, b = m.resolveDirs(a), m.resolveDirs(b)
		if m.inside(b) {
			if n := m.paths[a]; n != nil {
				m.paths[b] = n
				m.Touched[b] = true
				return true, nil
			}
			m.gap("link from unmodelled %s", a)
		}
	case "chmod", "fchmod", "fchmodat", "fchmodat2", "chown", "fchown", "lchown", "fchownat", "utimensat", "utimes", "futimesat", "fsync", "fdatasync":
		// metadata only: a crash boundary with unchanged content
		return true, nil
	}
	return false, nil
}

func writeAt(n *inode, off int64, data []byte) {
	end := off + int64(len(data))
	if int64(len(n.data)) < end {
		nd := make([]byte, end)
		copy(nd, n.data)
		n.data = nd
	} else {
		n.data = append([]byte{}, n.data...)
	}
	copy(n.data[off:], data)
}

func truncTo(n *inode, l int64) {
	if int64(len(n.data)) >= l {
		n.data = append([]byte{}, n.data[:l]...)
	} else {
		nd := make([]byte, l)
		copy(nd, n.data)
		n.data = nd
	}
}

// content returns the bytes reachable at path p (following symlinks), and whether there is a file.
func (m *fsModel) content(p string) ([]byte, bool) {
	n := m.paths[m.resolve(p, true)]
	if n == nil || n.isLink {
		return nil, false
	}
	return n.data, true
}

// snapshot renders the model relative to the root: path -> "F:<bytes>" | "L:<target>" | "D".
func (m *fsModel) snapshot() map[string]string {
	out := map[string]string{}
	for d := range m.dirs {
		if d != m.root {
			out[strings.TrimPrefix(d, m.root+"/")] = "D"
		}
	}
	for p, n := range m.paths {
		rel := strings.TrimPrefix(p, m.root+"/")
		if n.isLink {
			out[rel] = "L:" + n.symlink
		} else {
			out[rel] = "F:" + string(n.data)
		}
	}
	return out
}

// diskSnapshot renders a real directory in the same form.
func diskSnapshot(root string) (map[string]string, error) {
	out := map[string]string{}
	err := filepath.Walk(root, func(p string, info os.FileInfo, err error) error {
		if err != nil {
			return err
		}
		if p == root {
			return nil
		}
		rel := strings.TrimPrefix(p, root+"/")
		switch {
		case info.IsDir():
			out[rel] = "D"
		case info.Mode()&os.ModeSymlink != 0:
			t, _ := os.Readlink(p)
			out[rel] = "L:" + t
		default:
			b, err := os.ReadFile(p)
			if err != nil {
				return err
			}
			out[rel] = "F:" + string(b)
		}
		return nil
	})
	return out, err
}

func snapshotDiff(a, b map[string]string) []string {
	var d []string
	for k, v := range a {
		if w, ok := b[k]; !ok {
			d = append(d, "-"+k)
		} else if w != v {
			d = append(d, "~"+k)
		}
	}
	for k := range b {
		if _, ok := a[k]; !ok {
			d = append(d, "+"+k)
		}
	}
	sort.Strings(d)
	return d
}

func snapshotEqual(a, b map[string]string) bool { return len(snapshotDiff(a, b)) == 0 }

func snapshotDigest(s map[string]string) string {
	keys := make([]string, 0, len(s))
	for k := range s {
		keys = append(keys, k)
	}
	sort.Strings(keys)
	var b bytes.Buffer
	for _, k := range keys {
		fmt.Fprintf(&b, "%s\x00%d\x00%s\x00", k, len(s[k]), s[k])
	}
	return core.Key("snapshot", b.Bytes())
}
