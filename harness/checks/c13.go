package checks

// C13 — a shared minifier registry is safe and deterministic under concurrency.
// Monitors: race detector (child built with -race), result == sequential reference
// for every concurrent operation, %#v shadow snapshots of the shared option structs,
// re-run of the sequential reference afterwards (corrupted package state would show),
// no-blocking probe decided from goroutine dumps, cross-process digest.

import (
	"bytes"
	"context"
	"crypto/sha256"
	"encoding/hex"
	"errors"
	"fmt"
	"io"
	"os"
	"os/exec"
	"regexp"
	"runtime"
	"strings"
	"sync"
	"sync/atomic"
	"time"

	"github.com/tdewolff/minify/v2"
	mcss "github.com/tdewolff/minify/v2/css"
	mhtml "github.com/tdewolff/minify/v2/html"
	mjs "github.com/tdewolff/minify/v2/js"
	mjson "github.com/tdewolff/minify/v2/json"
	msvg "github.com/tdewolff/minify/v2/svg"
	mxml "github.com/tdewolff/minify/v2/xml"
	"verif/harness/core"
)

func c13Opts() *Opts {
	return &Opts{
		CSS:  mcss.Minifier{Precision: 4},
		HTML: mhtml.Minifier{KeepDefaultAttrVals: true, KeepQuotes: true, KeepConditionalComments: true}, // the deprecated option used to be rewritten in the shared struct
		JS:   mjs.Minifier{Version: 2019},
		JSON: mjson.Minifier{Precision: 5},
		SVG:  msvg.Minifier{Precision: 3},
		XML:  mxml.Minifier{KeepWhitespace: true},
	}
}

type c13Input struct {
	mt   string
	data []byte
}

// c13M: the registry of the workload - the stock minifiers with shared option structs plus two command minifiers
// (external tools fed through temporary files and through pipes).
func c13M(o *Opts) *minify.M {
	m := newM(o)
	m.AddCmd("text/x-cmd-files", exec.Command("cp", "$in.txt", "$out.txt"))
	m.AddCmd("text/x-cmd-pipe", exec.Command("tr", "a-z", "A-Z"))
	return m
}

func c13Pool(r *core.Rand) []c13Input {
	var pool []c13Input
	add := func(mt, s string) { pool = append(pool, c13Input{mt, []byte(s)}) }
	for _, mt := range sixTypes {
		for _, s := range smallInputs[mt] {
			add(mt, s)
		}
	}
	// content that re-enters the registry: HTML -> CSS/JS/SVG -> CSS, CSS -> data URI -> SVG
	add("text/html", `<!doctype html><title>t</title><style>a{background:url("data:image/svg+xml,%3Csvg xmlns='http://www.w3.org/2000/svg' width='10px'%3E%3Cpath d='M 0 0 L 10 10'/%3E%3C/svg%3E")}</style><svg xmlns="http://www.w3.org/2000/svg" width="10px"><style>rect{fill:#ff0000}</style><rect style="stroke: blue" x="0"/></svg><p onclick="javascript:f( 1 )" style="margin: 0px">x</p><script>var a = [1, 2];</script>`)
	add("text/html", `<!doctype html><title>frames</title><p>before <iframe src="a.html"> fallback  <b>text</b> </iframe> after</p><!--[if IE]> <p>old  browser</p> <![endif]--><iframe><p>second</p></iframe>`)
	add("text/css", `a{background:url("data:text/css,b%7Bcolor:%23ff0000;margin:0px%200px%7D")}c{color:#ff0000}@import url("data:text/css;base64,ZHtjb2xvcjojZmYwMDAwfQ==");`)
	// legacy property rewrites with quote handling, the same construct in two quote styles (shared scratch data would mix them up)
	add("text/css", `a{-ms-filter:"progid:DXImageTransform.Microsoft.Alpha(Opacity=50)";filter:progid:DXImageTransform.Microsoft.Alpha(Opacity=50);color:#ff0000}`)
	add("text/css", `b{-ms-filter:'progid:DXImageTransform.Microsoft.Alpha(Opacity=25)';filter:alpha(opacity=25);margin:0px 0px}`)
	add("image/svg+xml", `<?xml version="1.0"?><svg xmlns="http://www.w3.org/2000/svg" xmlns:xlink="http://www.w3.org/1999/xlink" width="100px" height="100px"><style>path{stroke:#000000}</style><path d="M 10,10 L 20,20 z" fill="#ff0000"/></svg>`)
	add("text/xml", `<root a="x &quot;q&quot; y" b="it's"><![CDATA[ <keep> & ]]><item k="v">text  here</item><![CDATA[plain]]></root>`)
	add("text/xml", `<r><a x="&quot;&quot;'">t</a><b y='"'>u</b><![CDATA[a<b]]></r>`)
	add("text/css", `a{background:url("data:image/svg+xml;base64,PHN2ZyB4bWxucz0iaHR0cDovL3d3dy53My5vcmcvMjAwMC9zdmciPjxwYXRoIGQ9Ik0gMCAwIEwgMSAxIi8+PC9zdmc+")}b{margin:0px 0px;color:#ff0000}`)
	for i := 0; i < 40; i++ {
		add("application/json", string(genJSONText(r.Fork("j"))))
		add("text/xml", genXMLDoc(r.Fork("x"), map[string]int{}))
		src, _ := genJSProgram(r.Fork("js"))
		add("application/javascript", src)
		add("text/html", genHTMLDoc(r.Fork("h"), true))
	}
	// generated style sheets and SVG documents come last (the indices of the hand-written documents are used below)
	var extra []c13Input
	for i := 0; i < 40; i++ {
		extra = append(extra, c13Input{"text/css", []byte(genStylesheet(r.Fork("css")))}, c13Input{"image/svg+xml", []byte(genSVGDoc(r.Fork("svg")))})
	}
	for i := 0; i < 6; i++ {
		extra = append(extra, c13Input{"text/x-cmd-files", []byte(fmt.Sprintf("payload %d for the command minifier: %s", i, strings.Repeat(string(rune('a'+i)), 50+i*37)))},
			c13Input{"text/x-cmd-pipe", []byte(fmt.Sprintf("pipe payload %d %s", i, strings.Repeat("xyz", 10+i)))})
	}
	// documents that name their own default style language (short and long names): what one document declares is
	// its own business, the generated documents before it and the hand-written ones after it must not notice
	extra = append(extra, c13Input{"image/svg+xml", []byte(`<svg xmlns="http://www.w3.org/2000/svg" contentStyleType="text/xsl"><style>rect { fill : #ff0000 }</style><rect width="10px"/></svg>`)},
		c13Input{"image/svg+xml", []byte(`<svg xmlns="http://www.w3.org/2000/svg" contentStyleType="text/x"><style>rect { fill : #ff0000 }</style><style type="text/css">path { fill : #00ff00 }</style></svg>`)},
		c13Input{"image/svg+xml", []byte(`<svg xmlns="http://www.w3.org/2000/svg" contentStyleType="application/x-stylesheet-language"><style>circle { fill : #0000ff }</style></svg>`)})
	// empty inputs: a stream that is closed without a single Write must still wait for its minifier
	for _, mt := range sixTypes {
		extra = append(extra, c13Input{mt, []byte{}})
	}
	extra = append(extra, c13Input{"text/x-not-registered", []byte{}}, c13Input{"text/x-not-registered", []byte("x")})
	pool = append(extra, pool...)
	return pool
}

type c13Ref struct {
	out []byte
	err string
}

func errStr(e error) string {
	if e == nil {
		return ""
	}
	return e.Error()
}

func c13Reference(m *minify.M, pool []c13Input) []c13Ref {
	var p int64
	return c13ReferenceP(m, pool, &p)
}

func c13ReferenceP(m *minify.M, pool []c13Input, progress *int64) []c13Ref {
	refs := make([]c13Ref, len(pool))
	for i, in := range pool {
		atomic.StoreInt64(progress, int64(i))
		out, err, pan := minifyBytes(m, in.mt, in.data)
		if pan != "" {
			refs[i] = c13Ref{nil, "panic " + pan}
			continue
		}
		refs[i] = c13Ref{append([]byte{}, out...), errStr(err)}
	}
	return refs
}

type c13FailWriter struct{}

func (c13FailWriter) Write(p []byte) (int, error) { return 0, errors.New("c13: destination failed") }

// c13Op runs one operation through an entry point; returns output and error string.
func c13Op(m *minify.M, op int, in c13Input, shared []byte) (out []byte, es string) {
	defer func() {
		if r := recover(); r != nil {
			es = fmt.Sprintf("panic %v", r)
		}
	}()
	switch op % 8 {
	case 7:
		// a destination that fails from its first write: the call must fail, and must leave nothing behind that a later
		// or concurrent call could trip over (pooled per-call state, half-written buffers)
		err := m.Minify(in.mt, c13FailWriter{}, bytes.NewReader(in.data))
		return nil, "FAILW:" + errStr(err)
	case 0:
		var b bytes.Buffer
		err := m.Minify(in.mt, &b, bytes.NewReader(in.data))
		return b.Bytes(), errStr(err)
	case 1:
		b, err := m.Bytes(in.mt, shared) // the same read-only backing array from many goroutines
		if err != nil {
			return nil, errStr(err)
		}
		return b, ""
	case 2:
		s, err := m.String(in.mt, string(in.data))
		if err != nil {
			return nil, errStr(err)
		}
		return []byte(s), ""
	case 3:
		b, err := io.ReadAll(m.Reader(in.mt, bytes.NewReader(in.data)))
		if err != nil {
			return nil, errStr(err)
		}
		return b, ""
	case 4:
		var b bytes.Buffer
		w := m.Writer(in.mt, &b)
		if len(in.data) > 0 { // (nothing to write: the stream is closed straight away)
			w.Write(in.data)
		}
		err := w.Close()
		if err != nil {
			return nil, errStr(err)
		}
		return b.Bytes(), ""
	case 5:
		_, params, fn := m.Match(in.mt)
		if fn == nil {
			return nil, "no match"
		}
		var b bytes.Buffer
		err := fn(m, &b, bytes.NewReader(append([]byte{}, in.data...)), params)
		return b.Bytes(), errStr(err)
	default:
		var b bytes.Buffer
		err := m.MinifyMimetype([]byte(in.mt), &b, bytes.NewReader(append([]byte{}, in.data...)), nil)
		return b.Bytes(), errStr(err)
	}
}

// c13Marked is the frame by which the deadlock monitor recognises workload goroutines.
func c13Marked(f func()) { f() }

// c13Await waits for done.  While the progress counter does not move it looks at the goroutines: a deadlock is
// reported only on structural evidence - three polls without progress, then every workload goroutine parked in a
// blocking primitive with an unchanged stack in two dumps AND no other goroutine of the process running or runnable
// (nothing is left that could ever wake them).  Slow progress is never a deadlock.
func c13Await(done <-chan struct{}, progress *int64) string {
	return awaitMarked(done, progress, "checks.c13Marked")
}

// awaitMarked: the same monitor for goroutines that run below the given marker frame.
func awaitMarked(done <-chan struct{}, progress *int64, marker string) string {
	last, still := int64(-1), 0
	for {
		select {
		case <-done:
			return ""
		case <-time.After(2 * time.Second):
		}
		cur := atomic.LoadInt64(progress)
		if cur != last {
			last, still = cur, 0
			continue
		}
		still++
		if still < 3 {
			continue
		}
		if ok, detail := blockedForever(marker); ok && processQuiescent() {
			return detail
		}
	}
}

// processQuiescent: no goroutine other than the caller is running or runnable.
func processQuiescent() bool {
	buf := make([]byte, 32<<20)
	n := runtime.Stack(buf, true)
	for i, mm := range goroutineHdr.FindAllStringSubmatch(string(buf[:n]), -1) {
		if i == 0 {
			continue // the caller
		}
		st := mm[2]
		if k := strings.Index(st, ","); k >= 0 {
			st = st[:k]
		}
		switch st {
		case "running", "runnable", "syscall":
			return false
		}
	}
	return true
}

// c13Workload returns a list of problems (empty = held).
func c13Workload(seed uint64, goroutines, opsPer int) (problems []string, ops int64, digest string) {
	// the command minifiers leave their temporary files behind (the library never removes them): keep them in a
	// scratch directory that goes away with the workload
	tmp := core.Scratch("c13tmp")
	oldTmp, hadTmp := os.LookupEnv("TMPDIR")
	os.Setenv("TMPDIR", tmp)
	defer func() {
		if hadTmp {
			os.Setenv("TMPDIR", oldTmp)
		} else {
			os.Unsetenv("TMPDIR")
		}
		os.RemoveAll(tmp)
	}()
	r := core.Stream(0xc13, "pool") // the pool is the same in every process (cross-process digest)
	pool := c13Pool(r)
	// media type spellings that are resolved by the registered patterns (many distinct strings, first use happens concurrently)
	alt := map[string][]string{
		"application/javascript": {"application/javascript", "text/javascript", "application/x-javascript", "text/ecmascript", "module"},
		"application/json":       {"application/json", "text/json", "application/ld+json", "application/vnd.api+json"},
		"text/xml":               {"text/xml", "application/xml", "application/rss+xml", "application/atom+xml"},
	}
	for i := range pool {
		if a, ok := alt[pool[i].mt]; ok {
			pool[i].mt = a[i%len(a)]
		}
	}
	opts := c13Opts()
	m := c13M(opts) // cold registry for the concurrent phase
	before := fmt.Sprintf("%#v", *opts)
	var refs []c13Ref
	{
		// the sequential reference comes from a separate registry with equal options (monitored: a call that
		// deadlocks with itself, e.g. on re-entry, must not hang the check)
		var prog int64
		done := make(chan struct{})
		go c13Marked(func() {
			refs = c13ReferenceP(c13M(c13Opts()), pool, &prog)
			close(done)
		})
		if d := c13Await(done, &prog); d != "" {
			return []string{fmt.Sprintf("a sequential call never returns (input %d, %s): all goroutines are parked:\n%s", atomic.LoadInt64(&prog), pool[atomic.LoadInt64(&prog)%int64(len(pool))].mt, core.Trunc(d, 3000))}, 0, ""
		}
	}
	shared := make([][]byte, len(pool))
	for i := range pool {
		shared[i] = append([]byte{}, pool[i].data...)
	}
	var mu sync.Mutex
	addProblem := func(s string) {
		mu.Lock()
		if len(problems) < 20 {
			problems = append(problems, s)
		}
		mu.Unlock()
	}
	var empties []int
	for i := range pool {
		if len(pool[i].data) == 0 {
			empties = append(empties, i)
		}
	}
	var wg sync.WaitGroup
	var n int64
	for g := 0; g < goroutines; g++ {
		wg.Add(1)
		g := g
		go c13Marked(func() {
			defer wg.Done()
			rr := core.Stream(seed, "g", fmt.Sprint(g))
			for k := 0; k < opsPer; k++ {
				// few inputs, many goroutines: bias towards a handful of inputs
				i := rr.Intn(len(pool))
				if rr.Chance(1, 2) && len(pool) > 169 {
					i = len(pool) - 169 + rr.Intn(9) // the nine hand-written re-entrant documents sit right before the 160 generated ones
				}
				op := rr.Intn(8)
				if len(empties) > 0 && rr.Chance(1, 10) {
					i, op = empties[rr.Intn(len(empties))], 4 // a stream closed without a Write
				}
				out, es := c13Op(m, op, pool[i], shared[i])
				atomic.AddInt64(&n, 1)
				if strings.HasPrefix(es, "FAILW:") {
					continue // what a failing destination must produce is C14's subject; here it only perturbs the others
				}
				if es != refs[i].err && !(es != "" && refs[i].err != "" && op%8 != 0) {
					addProblem(fmt.Sprintf("op %d on input %d (%s): error %q, sequential reference %q", op%8, i, pool[i].mt, es, refs[i].err))
				} else if es == "" && !bytes.Equal(out, refs[i].out) {
					addProblem(fmt.Sprintf("op %d on input %d (%s): bytes differ from the sequential reference: got %q want %q", op%8, i, pool[i].mt, core.Trunc(string(out), 120), core.Trunc(string(refs[i].out), 120)))
				}
				if rr.Chance(1, 4) {
					runtime.Gosched()
				}
			}
		})
	}
	{
		done := make(chan struct{})
		go func() { wg.Wait(); close(done) }()
		if d := c13Await(done, &n); d != "" {
			addProblem("concurrent calls block each other for ever (no goroutine of the process can run):\n" + core.Trunc(d, 3000))
			return problems, n, ""
		}
	}
	if after := fmt.Sprintf("%#v", *opts); after != before {
		addProblem("a shared option struct was mutated: before " + before + " after " + after)
	}
	for i := range pool {
		if !bytes.Equal(shared[i], pool[i].data) {
			addProblem(fmt.Sprintf("the caller's read-only input %d (%s) was modified", i, pool[i].mt))
			break
		}
	}
	// the sequential reference must still come out the same (package-level state intact)
	refs2 := c13Reference(m, pool)
	h := sha256.New()
	for i := range refs {
		if !bytes.Equal(refs[i].out, refs2[i].out) || refs[i].err != refs2[i].err {
			addProblem(fmt.Sprintf("repeating the sequential call for input %d (%s) after the concurrent phase gives different bytes: %q vs %q", i, pool[i].mt, core.Trunc(string(refs[i].out), 100), core.Trunc(string(refs2[i].out), 100)))
			break
		}
		h.Write(refs[i].out)
		h.Write([]byte(refs[i].err))
		h.Write([]byte{0})
	}
	return problems, n, hex.EncodeToString(h.Sum(nil))[:32]
}

// ---- no-blocking probe

//go:noinline
func c13ProbeMarker(f func()) { f() }

func c13Probe() string {
	m := minify.New()
	inside := make(chan struct{})
	release := make(chan struct{})
	var nested int32
	m.AddFunc("probe/a", func(mm *minify.M, w io.Writer, r io.Reader, _ map[string]string) error {
		close(inside)
		// a nested call re-enters the registry while the outer call is inside it
		var b bytes.Buffer
		if err := mm.MinifyMimetype([]byte("probe/c"), &b, strings.NewReader("n"), nil); err == nil {
			atomic.StoreInt32(&nested, 1)
		}
		<-release // only a second, concurrent call can release this one
		w.Write([]byte("A"))
		return nil
	})
	m.AddFunc("probe/b", func(_ *minify.M, w io.Writer, r io.Reader, _ map[string]string) error {
		close(release)
		w.Write([]byte("B"))
		return nil
	})
	m.AddFunc("probe/c", func(_ *minify.M, w io.Writer, r io.Reader, _ map[string]string) error {
		w.Write([]byte("C"))
		return nil
	})
	done := make(chan string, 2)
	go c13ProbeMarker(func() {
		var b bytes.Buffer
		err := m.Minify("probe/a", &b, strings.NewReader("x"))
		done <- fmt.Sprintf("a:%s:%v", b.String(), err)
	})
	<-inside
	go c13ProbeMarker(func() {
		var b bytes.Buffer
		_, _, fn := m.Match("probe/b") // Match while another call is inside the registry
		if fn == nil {
			done <- "b:nomatch"
			return
		}
		err := m.Minify("probe/b", &b, strings.NewReader("y"))
		done <- fmt.Sprintf("b:%s:%v", b.String(), err)
	})
	got := 0
	deadline := time.After(8 * time.Second)
	for got < 2 {
		select {
		case s := <-done:
			if !strings.HasSuffix(s, ":<nil>") {
				return "probe call failed: " + s
			}
			got++
		case <-deadline:
			if ok, detail := blockedForever("checks.c13ProbeMarker"); ok {
				return "a call blocks while another call is inside the registry (all probe goroutines blocked with unchanging stacks):\n" + detail
			}
			return "INCONCLUSIVE"
		}
	}
	if atomic.LoadInt32(&nested) != 1 {
		return "the nested call from inside a minifier failed"
	}
	return ""
}

// c13ReRegisterProbe: a registry that has served calls - among them documents whose embedded content asks for
// types nothing is registered for - is quiescent; one more registration (not concurrent with any call) and the
// calls after it must go through: a call that left something locked behind would block them for ever.
func c13ReRegisterProbe() string {
	m := newM(c13Opts())
	docs := []c13Input{
		{"text/html", []byte(`<!doctype html><title>t</title><p>a <math><mi>x</mi></math> b</p><script type="text/x-unknown">keep  this</script><style type="text/x-unknown">keep  this</style>`)},
		{"image/svg+xml", []byte(`<svg xmlns="http://www.w3.org/2000/svg"><style type="text/x-unknown">a { b : c }</style><rect width="1"/></svg>`)},
		{"text/css", []byte(`a{background:url("data:text/x-unknown,payload%20here")}`)},
		{"text/x-not-registered", []byte("whatever")},
	}
	var prog int64
	done := make(chan struct{})
	var problem string
	go c13ProbeMarker(func() {
		defer close(done)
		first := make([][]byte, len(docs))
		for i, d := range docs {
			first[i], _ = m.Bytes(d.mt, append([]byte{}, d.data...))
			m.Match(d.mt)
			atomic.AddInt64(&prog, 1)
		}
		m.AddFunc("text/x-later", func(_ *minify.M, w io.Writer, r io.Reader, _ map[string]string) error {
			_, err := io.Copy(w, r)
			return err
		})
		atomic.AddInt64(&prog, 1)
		m.AddFuncRegexp(regexp.MustCompile("^text/x-later2$"), func(_ *minify.M, w io.Writer, r io.Reader, _ map[string]string) error {
			_, err := io.Copy(w, r)
			return err
		})
		atomic.AddInt64(&prog, 1)
		for i, d := range docs {
			again, _ := m.Bytes(d.mt, append([]byte{}, d.data...))
			if !bytes.Equal(again, first[i]) {
				problem = fmt.Sprintf("%s: bytes after a later registration differ from the bytes before it", d.mt)
			}
			atomic.AddInt64(&prog, 1)
		}
		if out, err := m.String("text/x-later", "x  y"); err != nil || out != "x  y" {
			problem = fmt.Sprintf("the minifier registered later is not used: %q %v", out, err)
		}
	})
	if d := awaitMarked(done, &prog, "checks.c13ProbeMarker"); d != "" {
		return "a registration made after the registry had served calls (none of them still running) blocks for ever - an earlier call left the registry locked:\n" + core.Trunc(d, 3000)
	}
	return problem
}

// c13StreamProbe: while a streaming call (M.Writer) of the real minifiers is open and waiting for more input, calls
// for every media type must complete; the stream then finishes with the sequential bytes.
func c13StreamProbe() string {
	m := newM(c13Opts())
	ref := newM(c13Opts())
	for _, mt := range sixTypes {
		in := []byte(smallInputs[mt][0])
		want, werr := ref.Bytes(mt, append([]byte{}, in...))
		var buf bytes.Buffer
		w := m.Writer(mt, &buf)
		if _, err := w.Write(in[:len(in)/2]); err != nil {
			return "stream write failed: " + err.Error()
		}
		time.Sleep(20 * time.Millisecond) // let the minifier goroutine start and block on its reader
		done := make(chan string, len(sixTypes))
		for _, other := range sixTypes {
			other := other
			go c13ProbeMarker(func() {
				oin := []byte(smallInputs[other][0])
				got, err := m.Bytes(other, append([]byte{}, oin...))
				exp, eerr := ref.Bytes(other, append([]byte{}, oin...))
				if errStr(err) != errStr(eerr) || !bytes.Equal(got, exp) {
					done <- fmt.Sprintf("call for %s while a %s stream is open gives different bytes", other, mt)
					return
				}
				done <- ""
			})
		}
		deadline := time.After(8 * time.Second)
		for got := 0; got < len(sixTypes); {
			select {
			case s := <-done:
				if s != "" {
					return s
				}
				got++
			case <-deadline:
				if ok, detail := blockedForever("checks.c13ProbeMarker"); ok {
					return "calls block while a " + mt + " stream (M.Writer) is open:\n" + detail
				}
				return "INCONCLUSIVE"
			}
		}
		w.Write(in[len(in)/2:])
		if err := w.Close(); errStr(err) != errStr(werr) {
			return fmt.Sprintf("stream for %s: error %v, sequential reference %v", mt, err, werr)
		}
		if werr == nil && !bytes.Equal(buf.Bytes(), want) {
			return fmt.Sprintf("stream for %s: bytes differ from the sequential reference", mt)
		}
	}
	return ""
}

func C13(run *core.Run) {
	// 1. in-process workload at several GOMAXPROCS / goroutine counts
	reps := run.N(2, 12)
	var digests []string
	for rep := 0; rep < reps; rep++ {
		for _, cfg := range [][2]int{{1, 2}, {2, 8}, {16, 64}} {
			seed := uint64(run.Seed)*1000 + uint64(rep)
			if rep == 0 {
				seed = 0xba5e
			}
			// the workload runs in a child process: a fatal runtime error (concurrent map writes, ...) cannot be recovered in-process
			problems, ops, dg, crash := c13Child(seed, cfg[0], cfg[1], run.N(120, 300))
			if crash == "INCONCLUSIVE" {
				run.Inconclusive()
				continue
			}
			if crash != "" {
				run.Violation(core.Key("crash", []byte(core.Trunc(crash, 300))), fmt.Sprintf("GOMAXPROCS=%d goroutines=%d: the process died: %s", cfg[0], cfg[1], core.Trunc(crash, 1500)), map[string]string{"crash": core.Trunc(crash, 20000)})
				continue
			}
			run.EvalN(int(ops))
			digests = append(digests, dg)
			run.NonTrivial([]byte(fmt.Sprintf("rep %d procs %d goroutines %d", rep, cfg[0], cfg[1])))
			for _, p := range problems {
				run.Violation(core.Key("c13", []byte(p)), fmt.Sprintf("GOMAXPROCS=%d goroutines=%d: %s", cfg[0], cfg[1], p), map[string]string{"problem": p})
			}
		}
	}
	runtime.GOMAXPROCS(runtime.NumCPU())
	// 2. no-blocking probe
	for i := 0; i < 3; i++ {
		run.Eval()
		switch s := c13ProbeInChild(run, "block"); s {
		case "":
			run.NonTrivial([]byte(fmt.Sprintf("probe %d", i)))
		case "INCONCLUSIVE":
			run.Inconclusive()
		default:
			run.Violation(core.Key("probe", []byte(s)), s, map[string]string{"problem": s})
		}
	}
	run.Eval()
	if s := c13ProbeInChild(run, "rereg"); s == "INCONCLUSIVE" {
		run.Inconclusive()
	} else if s != "" {
		run.Violation(core.Key("probe", []byte(core.Trunc(s, 200))), s, map[string]string{"problem": s})
	} else {
		run.NonTrivial([]byte("re-registration probe"))
	}
	for i := 0; i < 2; i++ {
		run.Eval()
		switch s := c13ProbeInChild(run, "stream"); s {
		case "":
			run.NonTrivial([]byte(fmt.Sprintf("stream probe %d", i)))
		case "INCONCLUSIVE":
			run.Inconclusive()
		default:
			run.Violation(core.Key("probe", []byte(core.Trunc(s, 200))), s, map[string]string{"problem": s})
			i = 2 // the stream that blocks the others stays open: no further in-process calls
		}
	}
	// 3. race detector children (fresh processes: race reports vary from run to run) + cross-process digest
	children := run.N(3, 20)
	totalRaces := 0
	for i := 0; i < children; i++ {
		races, raceLog, err := runRaceChild("c13race", fmt.Sprint(uint64(run.Seed)*100+uint64(i)))
		if err != nil {
			fmt.Println("race child problem:", err)
			run.Set("race_child_error", err.Error())
			run.Inconclusive()
		}
		totalRaces += races
		if races > 0 {
			run.Violation(core.Key("race", []byte(core.Trunc(dedupeRace(raceLog), 1500))), "race detector reports in minify code:\n"+core.Trunc(raceLog, 3000), map[string]string{"log": core.Trunc(raceLog, 20000)})
		}
		run.NonTrivial([]byte(fmt.Sprintf("race child %d", i)))
	}
	run.Set("race_children", children)
	run.Set("race_reports", totalRaces)
	// digest from fresh processes (different map-iteration seeds) must agree with the in-process one
	for i := 0; i < run.N(3, 6); i++ {
		ctx, cancel := context.WithTimeout(context.Background(), 15*time.Minute)
		out, err := exec.CommandContext(ctx, os.Args[0], "c13digest").Output()
		cancel()
		if err != nil {
			run.Inconclusive()
			continue
		}
		lines := strings.Split(strings.TrimSpace(string(out)), "\n")
		digests = append(digests, strings.TrimSpace(lines[len(lines)-1])) // (the library prints a deprecation notice on stdout)
	}
	for _, d := range digests {
		if d != digests[0] {
			run.Violation(core.Key("digest", []byte(d)), fmt.Sprintf("output digest differs between runs/processes: %s vs %s", d, digests[0]), map[string]interface{}{"digests": digests})
			break
		}
	}
	run.Set("digests_compared", len(digests))
	run.Sample(map[string]interface{}{"operation_mix": "Minify / Bytes (shared read-only input) / String / Reader / Writer / Match+call / MinifyMimetype", "registry": "css/html/svg literal + js/json/xml regexps, shared option structs with non-default values", "goroutines x GOMAXPROCS": "2x1, 8x2, 64x16"})
	run.Finish("one fully registered registry with shared non-default option structs, a pool of hand-written, generated and re-entrant inputs (HTML->CSS/JS/SVG->CSS, CSS->data URI->SVG) with sequential reference outputs; N goroutines x M operations from the seven-entry operation mix, repeated at three (GOMAXPROCS, goroutine count) settings and in fresh -race processes; a case is one (repetition, setting) / probe / child process; evaluations counts the individual concurrent operations",
		[]string{"the race detector only reports races that the produced schedules exhibit", "blocking is decided from two identical goroutine dumps of the probe goroutines", "registration concurrent with use is outside the property and not exercised"}, 8, false)
}

// c13ProbeInChild runs one of the probes in a fresh process (a fatal runtime error such as concurrent map writes
// cannot be recovered in-process and must not take the check down with it); a child that dies is a violation.
func c13ProbeInChild(run *core.Run, name string) string {
	ctx, cancel := context.WithTimeout(context.Background(), 10*time.Minute) // generous watchdog; firing = inconclusive
	defer cancel()
	out, _ := exec.CommandContext(ctx, os.Args[0], "c13probe", name).CombinedOutput()
	text := string(out)
	if i := strings.Index(text, "PROBE-RESULT:"); i >= 0 {
		res := text[i+len("PROBE-RESULT:"):]
		if j := strings.Index(res, "\nPROBE-END"); j >= 0 {
			res = res[:j]
		}
		return strings.TrimSpace(res)
	}
	if i := strings.Index(text, "fatal error:"); i >= 0 {
		return "the process died during the " + name + " probe: " + core.Trunc(text[i:], 1500)
	}
	if i := strings.Index(text, "panic:"); i >= 0 {
		return "the process died during the " + name + " probe: " + core.Trunc(text[i:], 1500)
	}
	return "INCONCLUSIVE"
}

// c13Child runs the workload in a fresh process.
func c13Child(seed uint64, procs, goroutines, ops int) (problems []string, n int64, digest string, crash string) {
	ctx, cancel := context.WithTimeout(context.Background(), 15*time.Minute) // generous watchdog; firing = inconclusive
	defer cancel()
	cmd := exec.CommandContext(ctx, os.Args[0], "c13work", fmt.Sprint(seed), fmt.Sprint(procs), fmt.Sprint(goroutines), fmt.Sprint(ops))
	out, err := cmd.CombinedOutput()
	text := string(out)
	ok := false
	for _, l := range strings.Split(text, "\n") {
		if strings.HasPrefix(l, "PROBLEM:") {
			problems = append(problems, strings.TrimPrefix(l, "PROBLEM: "))
		}
		if strings.HasPrefix(l, "CHILD-OK") {
			fmt.Sscanf(l, "CHILD-OK ops=%d digest=%s", &n, &digest)
			ok = true
		}
	}
	if ok {
		return problems, n, digest, ""
	}
	if i := strings.Index(text, "fatal error:"); i >= 0 {
		return nil, 0, "", text[i:]
	}
	if i := strings.Index(text, "panic:"); i >= 0 {
		return nil, 0, "", text[i:]
	}
	_ = err
	return nil, 0, "", "INCONCLUSIVE"
}

func dedupeRace(log string) string {
	// keep function names only (line numbers stripped) so that the same race found twice gets the same key
	var sb strings.Builder
	for _, l := range strings.Split(log, "\n") {
		l = strings.TrimSpace(l)
		if strings.HasPrefix(l, "github.com/tdewolff/minify") {
			sb.WriteString(l + ";")
		}
	}
	return sb.String()
}

func init() {
	Children["c13race"] = func(args []string) {
		seed := uint64(1)
		if len(args) > 0 {
			fmt.Sscan(args[0], &seed)
		}
		bad := 0
		for _, cfg := range [][2]int{{2, 8}, {16, 32}} {
			runtime.GOMAXPROCS(cfg[0])
			problems, _, _ := c13Workload(seed, cfg[1], 60)
			bad += len(problems)
			for _, p := range problems {
				fmt.Println("PROBLEM:", p)
			}
		}
		fmt.Printf("CHILD-OK problems=%d\n", bad)
	}
	Children["c13probe"] = func(args []string) {
		res := ""
		switch args[0] {
		case "block":
			res = c13Probe()
		case "rereg":
			res = c13ReRegisterProbe()
		case "stream":
			res = c13StreamProbe()
		}
		fmt.Printf("PROBE-RESULT:%s\nPROBE-END\n", res)
	}
	Children["c13work"] = func(args []string) {
		var seed uint64
		var procs, goroutines, ops int
		fmt.Sscan(args[0], &seed)
		fmt.Sscan(args[1], &procs)
		fmt.Sscan(args[2], &goroutines)
		fmt.Sscan(args[3], &ops)
		runtime.GOMAXPROCS(procs)
		problems, n, dg := c13Workload(seed, goroutines, ops)
		for _, p := range problems {
			fmt.Println("PROBLEM:", strings.ReplaceAll(p, "\n", " "))
		}
		fmt.Printf("CHILD-OK ops=%d digest=%s\n", n, dg)
	}
	Children["c13digest"] = func(args []string) {
		_, _, dg := c13Workload(7, 4, 20)
		fmt.Println(dg)
	}
}
