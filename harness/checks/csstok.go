package checks

// Independent CSS reader for C04: a tokenizer after CSS Syntax Level 3 (simplified: no unicode-range token,
// no bad-string recovery) and a rule parser (at-rules, qualified rules, declaration lists).

import (
	"fmt"
	"strings"
)

type cTok struct {
	K    byte   // i ident, f function, @ at-keyword, # hash, s string, u url, n number, % percentage, d dimension, w whitespace, c delim, other: the punctuation itself ( ) [ ] { } : ; ,
	S    string // ident/function/at name (unescaped), string/url content (unescaped), delim char, hash name
	Num  string // number lexeme for n % d
	Unit string // dimension unit (as written)
	Raw  string
	Args []cTok // function arguments (between the parentheses), for K == 'f'
}

func isCSSWS(c byte) bool { return c == ' ' || c == '\t' || c == '\n' || c == '\r' || c == '\f' }
func isNameStart(c byte) bool {
	return c >= 'a' && c <= 'z' || c >= 'A' && c <= 'Z' || c == '_' || c >= 0x80
}
func isNameChar(c byte) bool { return isNameStart(c) || c >= '0' && c <= '9' || c == '-' }
func isHexDigitC(c byte) bool {
	return c >= '0' && c <= '9' || c >= 'a' && c <= 'f' || c >= 'A' && c <= 'F'
}

type cssLexer struct {
	s   string
	i   int
	err string
}

func (l *cssLexer) escape() string {
	// at a backslash that starts a valid escape
	l.i++
	if l.i >= len(l.s) {
		return "�"
	}
	if isHexDigitC(l.s[l.i]) {
		j := l.i
		for j < len(l.s) && j-l.i < 6 && isHexDigitC(l.s[j]) {
			j++
		}
		var v rune
		fmt.Sscanf(l.s[l.i:j], "%x", &v)
		l.i = j
		if l.i < len(l.s) && isCSSWS(l.s[l.i]) {
			if l.s[l.i] == '\r' && l.i+1 < len(l.s) && l.s[l.i+1] == '\n' {
				l.i++
			}
			l.i++
		}
		if v == 0 || v > 0x10FFFF || v >= 0xD800 && v <= 0xDFFF {
			v = 0xFFFD
		}
		return string(v)
	}
	c := l.s[l.i]
	// copy one (possibly multi-byte) character
	n := 1
	for l.i+n < len(l.s) && l.s[l.i+n]&0xC0 == 0x80 {
		n++
	}
	r := l.s[l.i : l.i+n]
	_ = c
	l.i += n
	return r
}

func (l *cssLexer) validEscape(i int) bool {
	return i+1 < len(l.s) && l.s[i] == '\\' && l.s[i+1] != '\n' && l.s[i+1] != '\r' && l.s[i+1] != '\f'
}

func (l *cssLexer) startsIdent(i int) bool {
	if i >= len(l.s) {
		return false
	}
	c := l.s[i]
	if c == '-' {
		if i+1 < len(l.s) && (isNameStart(l.s[i+1]) || l.s[i+1] == '-' || l.validEscape(i+1)) {
			return true
		}
		return false
	}
	return isNameStart(c) || l.validEscape(i)
}

func (l *cssLexer) name() string {
	var b strings.Builder
	for l.i < len(l.s) {
		c := l.s[l.i]
		if isNameChar(c) {
			b.WriteByte(c)
			l.i++
		} else if l.validEscape(l.i) {
			b.WriteString(l.escape())
		} else {
			break
		}
	}
	return b.String()
}

func (l *cssLexer) startsNumber(i int) bool {
	if i >= len(l.s) {
		return false
	}
	c := l.s[i]
	if c == '+' || c == '-' {
		i++
		if i >= len(l.s) {
			return false
		}
		c = l.s[i]
	}
	if c >= '0' && c <= '9' {
		return true
	}
	return c == '.' && i+1 < len(l.s) && l.s[i+1] >= '0' && l.s[i+1] <= '9'
}

func (l *cssLexer) number() string {
	st := l.i
	if l.s[l.i] == '+' || l.s[l.i] == '-' {
		l.i++
	}
	for l.i < len(l.s) && l.s[l.i] >= '0' && l.s[l.i] <= '9' {
		l.i++
	}
	if l.i+1 < len(l.s) && l.s[l.i] == '.' && l.s[l.i+1] >= '0' && l.s[l.i+1] <= '9' {
		l.i++
		for l.i < len(l.s) && l.s[l.i] >= '0' && l.s[l.i] <= '9' {
			l.i++
		}
	}
	if l.i < len(l.s) && (l.s[l.i] == 'e' || l.s[l.i] == 'E') {
		j := l.i + 1
		if j < len(l.s) && (l.s[j] == '+' || l.s[j] == '-') {
			j++
		}
		if j < len(l.s) && l.s[j] >= '0' && l.s[j] <= '9' {
			for j < len(l.s) && l.s[j] >= '0' && l.s[j] <= '9' {
				j++
			}
			l.i = j
		}
	}
	return l.s[st:l.i]
}

func (l *cssLexer) str(q byte) (string, bool) {
	l.i++
	var b strings.Builder
	for l.i < len(l.s) {
		c := l.s[l.i]
		switch {
		case c == q:
			l.i++
			return b.String(), true
		case c == '\n' || c == '\r' || c == '\f':
			return b.String(), false // bad string
		case c == '\\':
			if l.i+1 >= len(l.s) {
				l.i++
				continue
			}
			if n := l.s[l.i+1]; n == '\n' || n == '\f' {
				l.i += 2
				continue
			} else if n == '\r' {
				l.i += 2
				if l.i < len(l.s) && l.s[l.i] == '\n' {
					l.i++
				}
				continue
			}
			b.WriteString(l.escape())
		default:
			b.WriteByte(c)
			l.i++
		}
	}
	l.err = "unterminated string" // EOF closes the string: a parse error, outside the accepted inputs
	return b.String(), true
}

// next returns one token (flat; functions are opened only).
func (l *cssLexer) next() (cTok, bool) {
	if l.i >= len(l.s) {
		return cTok{}, false
	}
	st := l.i
	c := l.s[l.i]
	mk := func(t cTok) (cTok, bool) { t.Raw = l.s[st:l.i]; return t, true }
	switch {
	case c == '/' && l.i+1 < len(l.s) && l.s[l.i+1] == '*':
		e := strings.Index(l.s[l.i+2:], "*/")
		if e < 0 {
			l.i = len(l.s)
		} else {
			l.i += e + 4
		}
		return mk(cTok{K: '/', S: "comment"})
	case isCSSWS(c):
		for l.i < len(l.s) && isCSSWS(l.s[l.i]) {
			l.i++
		}
		return mk(cTok{K: 'w'})
	case c == '"' || c == '\'':
		s, ok := l.str(c)
		if !ok {
			l.err = "bad string"
		}
		return mk(cTok{K: 's', S: s})
	case c == '#':
		if l.i+1 < len(l.s) && (isNameChar(l.s[l.i+1]) || l.validEscape(l.i+1)) {
			l.i++
			return mk(cTok{K: '#', S: l.name()})
		}
		l.i++
		return mk(cTok{K: 'c', S: "#"})
	case c == '@':
		if l.startsIdent(l.i + 1) {
			l.i++
			return mk(cTok{K: '@', S: l.name()})
		}
		l.i++
		return mk(cTok{K: 'c', S: "@"})
	case l.startsNumber(l.i) && !(c == '-' && l.startsIdent(l.i) && !l.startsNumber(l.i)):
		num := l.number()
		if l.startsIdent(l.i) {
			return mk(cTok{K: 'd', Num: num, Unit: l.name()})
		}
		if l.i < len(l.s) && l.s[l.i] == '%' {
			l.i++
			return mk(cTok{K: '%', Num: num})
		}
		return mk(cTok{K: 'n', Num: num})
	case l.startsIdent(l.i):
		name := l.name()
		if l.i < len(l.s) && l.s[l.i] == '(' {
			l.i++
			if strings.EqualFold(name, "url") {
				j := l.i
				for j < len(l.s) && isCSSWS(l.s[j]) {
					j++
				}
				if j < len(l.s) && (l.s[j] == '"' || l.s[j] == '\'') {
					return mk(cTok{K: 'f', S: name})
				}
				// unquoted url
				l.i = j
				var b strings.Builder
				for l.i < len(l.s) {
					ch := l.s[l.i]
					if ch == ')' {
						l.i++
						return mk(cTok{K: 'u', S: b.String()})
					}
					if isCSSWS(ch) {
						for l.i < len(l.s) && isCSSWS(l.s[l.i]) {
							l.i++
						}
						if l.i < len(l.s) && l.s[l.i] == ')' {
							l.i++
							return mk(cTok{K: 'u', S: b.String()})
						}
						l.err = "bad url"
						return mk(cTok{K: 'u', S: b.String()})
					}
					if ch == '"' || ch == '\'' || ch == '(' {
						l.err = "bad url"
					}
					if ch == '\\' {
						if l.validEscape(l.i) {
							b.WriteString(l.escape())
							continue
						}
						l.err = "bad url"
					}
					b.WriteByte(ch)
					l.i++
				}
				l.err = "unterminated url"
				return mk(cTok{K: 'u', S: b.String()})
			}
			return mk(cTok{K: 'f', S: name})
		}
		return mk(cTok{K: 'i', S: name})
	case strings.HasPrefix(l.s[l.i:], "<!--"):
		l.i += 4
		return mk(cTok{K: 'C', S: "<!--"})
	case strings.HasPrefix(l.s[l.i:], "-->"):
		l.i += 3
		return mk(cTok{K: 'C', S: "-->"})
	}
	l.i++
	switch c {
	case '(', ')', '[', ']', '{', '}', ':', ';', ',':
		return mk(cTok{K: c})
	}
	return mk(cTok{K: 'c', S: string(c)})
}

// cssTokens tokenizes and nests function arguments and simple blocks ( ), [ ]; comments are dropped.
func cssTokens(s string) ([]cTok, string) {
	l := &cssLexer{s: s}
	var flat []cTok
	for {
		t, ok := l.next()
		if !ok {
			break
		}
		if t.K == '/' {
			continue
		}
		flat = append(flat, t)
	}
	return flat, l.err
}

// nestFunctions folds `f ... )` into function tokens with Args (recursively); ( ) and [ ] stay as tokens.
func nestFunctions(ts []cTok) []cTok {
	var out []cTok
	i := 0
	var parse func(stopParen bool) []cTok
	parse = func(stopParen bool) []cTok {
		var acc []cTok
		for i < len(ts) {
			t := ts[i]
			switch {
			case t.K == 'f':
				i++
				t.Args = parse(true)
				if t.Args == nil {
					t.Args = []cTok{}
				}
				acc = append(acc, t)
			case t.K == '(':
				i++
				inner := parse(true)
				if inner == nil {
					inner = []cTok{}
				}
				acc = append(acc, cTok{K: 'f', S: "", Raw: "(", Args: inner})
			case t.K == ')' && stopParen:
				i++
				return acc
			default:
				acc = append(acc, t)
				i++
			}
		}
		return acc
	}
	out = parse(false)
	return out
}

// ---------------------------------------------------------------- rules

type cDecl struct {
	Name      string
	Value     []cTok // nested, whitespace kept as 'w' tokens (trimmed at both ends)
	Important bool
	Custom    bool
	RawValue  string
}

type cRule struct {
	At      string // at-keyword name (lowercase) or "" for a qualified rule
	Prelude []cTok
	HasBlk  bool
	Decls   []cDecl // declarations directly in the block
	Rules   []cRule // nested rules in the block
	Order   []byte  // 'd' / 'r' sequence inside the block
}

type cssParser struct {
	ts  []cTok
	i   int
	err string
}

func trimWS(ts []cTok) []cTok {
	for len(ts) > 0 && ts[0].K == 'w' {
		ts = ts[1:]
	}
	for len(ts) > 0 && ts[len(ts)-1].K == 'w' {
		ts = ts[:len(ts)-1]
	}
	return ts
}

// consume a component value sequence until one of the stop kinds at depth 0; returns tokens (flat).
func (p *cssParser) until(stops string) []cTok {
	var acc []cTok
	depth := 0
	for p.i < len(p.ts) {
		t := p.ts[p.i]
		if depth == 0 && strings.IndexByte(stops, t.K) >= 0 {
			return acc
		}
		switch t.K {
		case 'f', '(', '[', '{':
			depth++
		case ')', ']', '}':
			if depth > 0 {
				depth--
			}
		}
		acc = append(acc, t)
		p.i++
	}
	return acc
}

// blockContents parses the inside of { } as a mix of declarations and rules (css-nesting style, which also
// covers @media { rules } and @font-face { declarations }).
func (p *cssParser) blockContents(r *cRule) {
	for p.i < len(p.ts) {
		t := p.ts[p.i]
		switch {
		case t.K == 'w' || t.K == ';':
			p.i++
		case t.K == '}':
			p.i++
			return
		case t.K == '@':
			r.Rules = append(r.Rules, p.atRule())
			r.Order = append(r.Order, 'r')
		default:
			// declaration or nested qualified rule? look ahead: ident [ws] ':' ... ';' | '}' without a '{' at depth 0 => declaration
			save := p.i
			seq := p.until(";{}")
			if p.i < len(p.ts) && p.ts[p.i].K == '{' && len(seq) > 0 && seq[0].K == 'i' && strings.HasPrefix(seq[0].S, "--") {
				// a custom property whose value contains a { } block: the block belongs to the value
				depth := 0
				for p.i < len(p.ts) {
					t := p.ts[p.i]
					if depth == 0 && (t.K == ';' || t.K == '}') {
						break
					}
					if t.K == '{' {
						depth++
					} else if t.K == '}' {
						depth--
					}
					seq = append(seq, t)
					p.i++
				}
			}
			if p.i < len(p.ts) && p.ts[p.i].K == '{' {
				// qualified rule
				p.i++
				nr := cRule{Prelude: trimWS(seq), HasBlk: true}
				p.blockContents(&nr)
				r.Rules = append(r.Rules, nr)
				r.Order = append(r.Order, 'r')
				continue
			}
			_ = save
			d, ok := parseDecl(seq)
			if !ok {
				p.err = "declaration not understood: " + tokString(seq)
			}
			r.Decls = append(r.Decls, d)
			r.Order = append(r.Order, 'd')
		}
	}
}

func parseDecl(seq []cTok) (cDecl, bool) {
	seq = trimWS(seq)
	if len(seq) < 2 || seq[0].K != 'i' {
		return cDecl{}, false
	}
	j := 1
	for j < len(seq) && seq[j].K == 'w' {
		j++
	}
	if j >= len(seq) || seq[j].K != ':' {
		return cDecl{}, false
	}
	d := cDecl{Name: seq[0].S}
	val := trimWS(seq[j+1:])
	depth := 0
	for _, t := range val {
		switch t.K {
		case 'f', '(', '[', '{':
			depth++
		case ')', ']', '}':
			depth--
			if depth < 0 {
				return cDecl{}, false // unbalanced value
			}
		}
	}
	d.Custom = strings.HasPrefix(d.Name, "--")
	if !d.Custom {
		d.Name = strings.ToLower(d.Name)
	}
	// !important
	if n := len(val); n >= 2 {
		k := n - 1
		if val[k].K == 'i' && strings.EqualFold(val[k].S, "important") {
			k--
			for k >= 0 && val[k].K == 'w' {
				k--
			}
			if k >= 0 && val[k].K == 'c' && val[k].S == "!" {
				d.Important = true
				val = trimWS(val[:k])
			}
		}
	}
	var raw strings.Builder
	for _, t := range val {
		raw.WriteString(t.Raw)
	}
	d.RawValue = raw.String()
	d.Value = nestFunctions(val)
	return d, true
}

func (p *cssParser) atRule() cRule {
	r := cRule{At: strings.ToLower(p.ts[p.i].S)}
	p.i++
	r.Prelude = trimWS(p.until(";{}"))
	if p.i < len(p.ts) && p.ts[p.i].K == '{' {
		p.i++
		r.HasBlk = true
		p.blockContents(&r)
	} else if p.i < len(p.ts) && p.ts[p.i].K == ';' {
		p.i++
	}
	return r
}

func parseStylesheet(s string) ([]cRule, string) {
	ts, lerr := cssTokens(s)
	p := &cssParser{ts: ts}
	var rules []cRule
	for p.i < len(p.ts) {
		t := p.ts[p.i]
		switch {
		case t.K == 'w' || t.K == 'C' || t.K == ';':
			p.i++
		case t.K == '@':
			rules = append(rules, p.atRule())
		case t.K == '}':
			p.err = "unexpected }"
			p.i++
		default:
			seq := p.until("{")
			if p.i >= len(p.ts) {
				p.err = "selector without block"
				break
			}
			p.i++
			r := cRule{Prelude: trimWS(seq), HasBlk: true}
			p.blockContents(&r)
			rules = append(rules, r)
		}
	}
	if lerr != "" && p.err == "" {
		p.err = lerr
	}
	return rules, p.err
}

func parseDeclList(s string) ([]cDecl, string) {
	ts, lerr := cssTokens(s)
	p := &cssParser{ts: ts}
	var r cRule
	p.blockContents(&r)
	if len(r.Rules) > 0 && p.err == "" {
		p.err = "rule inside a declaration list"
	}
	if lerr != "" && p.err == "" {
		p.err = lerr
	}
	return r.Decls, p.err
}

func tokString(ts []cTok) string {
	var b strings.Builder
	for _, t := range ts {
		b.WriteString(t.Raw)
		if t.K == 'f' && t.Args != nil {
			b.WriteString(tokString(t.Args) + ")")
		}
	}
	return b.String()
}
