// Package core: run bookkeeping shared by all checks — seed streams, evidence,
// known findings, replay files, verdict and exit code discipline.
package core

import (
	"crypto/sha256"
	"encoding/hex"
	"encoding/json"
	"fmt"
	"os"
	"path/filepath"
	"runtime"
	"sort"
	"strconv"
	"strings"
	"sync"
	"sync/atomic"
	"time"
)

// VerifDir is where evidence/replay/known findings live.
func VerifDir() string {
	if d := os.Getenv("VERIF_DIR"); d != "" {
		return d
	}
	return "/verif"
}

// ---------------------------------------------------------------- PRNG

// Rand is SplitMix64: tiny, seedable, reproducible across Go versions.
type Rand struct {
	s     uint64
	Small bool // generator hint (used by the path generator): draw numbers from a tiny alphabet
}

func (r *Rand) Uint64() uint64 {
	r.s += 0x9e3779b97f4a7c15
	z := r.s
	z = (z ^ (z >> 30)) * 0xbf58476d1ce4e5b9
	z = (z ^ (z >> 27)) * 0x94d049bb133111eb
	return z ^ (z >> 31)
}
func (r *Rand) Intn(n int) int {
	if n <= 0 {
		return 0
	}
	return int(r.Uint64() % uint64(n))
}
func (r *Rand) Range(lo, hi int) int { return lo + r.Intn(hi-lo+1) } // inclusive
func (r *Rand) Bool() bool           { return r.Uint64()&1 == 1 }
func (r *Rand) Chance(num, den int) bool {
	return r.Intn(den) < num
}
func (r *Rand) Float() float64 { return float64(r.Uint64()>>11) / float64(1<<53) }
func (r *Rand) Pick(xs []string) string {
	return xs[r.Intn(len(xs))]
}
func (r *Rand) Fork(label string) *Rand {
	return Stream(r.Uint64(), label)
}

// Stream derives an independent stream from a seed and labels.
func Stream(seed uint64, parts ...string) *Rand {
	h := sha256.New()
	fmt.Fprintf(h, "%d", seed)
	for _, p := range parts {
		h.Write([]byte{0})
		h.Write([]byte(p))
	}
	sum := h.Sum(nil)
	var s uint64
	for i := 0; i < 8; i++ {
		s = s<<8 | uint64(sum[i])
	}
	return &Rand{s: s}
}

// ---------------------------------------------------------------- findings

type Witness struct {
	Key    string            `json:"key"`              // Key(config,input)
	Config string            `json:"config,omitempty"` // free-form configuration label
	Input  string            `json:"input,omitempty"`  // literal input (or base64 when B64)
	B64    bool              `json:"b64,omitempty"`
	Extra  map[string]string `json:"extra,omitempty"`
}

type Finding struct {
	Property  string    `json:"property"`
	ID        string    `json:"id"`
	Status    string    `json:"status"` // "open" | "fixed"
	What      string    `json:"what"`
	Guard     string    `json:"guard,omitempty"`
	Commit    string    `json:"commit,omitempty"`
	Witnesses []Witness `json:"witnesses"`
}

type findingsFile struct {
	Note     string    `json:"note"`
	Findings []Finding `json:"findings"`
	Fixed    []string  `json:"fixed"`
}

func loadFindings(prop string) []Finding {
	b, err := os.ReadFile(filepath.Join(VerifDir(), "known_findings.json"))
	if err != nil {
		return nil
	}
	var ff findingsFile
	if err := json.Unmarshal(b, &ff); err != nil {
		fmt.Fprintf(os.Stderr, "known_findings.json unreadable: %v\n", err)
		os.Exit(2)
	}
	var out []Finding
	for _, f := range ff.Findings {
		if f.Property == prop {
			out = append(out, f)
		}
	}
	return out
}

// Key identifies a case by configuration and input.
func Key(config string, input []byte) string {
	h := sha256.New()
	h.Write([]byte(config))
	h.Write([]byte{0})
	h.Write(input)
	return hex.EncodeToString(h.Sum(nil))[:32]
}

// ---------------------------------------------------------------- run

type Violation struct {
	Key     string      `json:"key"`
	What    string      `json:"what"`
	Witness interface{} `json:"witness"`
	Replay  string      `json:"replay"`
}

type Run struct {
	Prop  string
	Tier  string
	Seed  int64
	Level string

	start        time.Time
	evals        int64
	inconclusive int64
	mu           sync.Mutex
	distinct     map[[12]byte]struct{}
	samples      []interface{}
	sampleSeen   int
	Extra        map[string]interface{}
	counters     map[string]int64
	violations   []Violation
	findings     []Finding
	openKeys     map[string]*Finding
	knownPrinted map[string]bool
	knownHits    int64
	maxViol      int
}

func Start(prop, level string) *Run {
	tier := os.Getenv("VERIF_TIER")
	if tier != "thorough" {
		tier = "quick"
	}
	seed := int64(1)
	if s := os.Getenv("VERIF_SEED"); s != "" {
		if v, err := strconv.ParseInt(s, 10, 64); err == nil {
			seed = v
		}
	}
	r := &Run{Prop: prop, Tier: tier, Seed: seed, Level: level, start: time.Now(),
		distinct: map[[12]byte]struct{}{}, Extra: map[string]interface{}{}, counters: map[string]int64{},
		openKeys: map[string]*Finding{}, knownPrinted: map[string]bool{}, maxViol: 5}
	r.findings = loadFindings(prop)
	for i := range r.findings {
		f := &r.findings[i]
		if f.Status == "open" {
			for _, w := range f.Witnesses {
				r.openKeys[w.Key] = f
			}
		}
	}
	return r
}

func (r *Run) Thorough() bool { return r.Tier == "thorough" }

// N picks the case count for the tier.
func (r *Run) N(quick, thorough int) int {
	if r.Thorough() {
		return thorough
	}
	return quick
}

// CaseRand gives the stream for case i of generator gen: the first nBase cases
// are independent of VERIF_SEED (regression slice), the rest depend on it.
func (r *Run) CaseRand(gen string, i, nBase int) *Rand {
	if i < nBase {
		return Stream(0xba5e, r.Prop, gen, strconv.Itoa(i))
	}
	return Stream(uint64(r.Seed), r.Prop, gen, strconv.Itoa(i))
}

func (r *Run) Eval()             { atomic.AddInt64(&r.evals, 1) }
func (r *Run) EvalN(n int)       { atomic.AddInt64(&r.evals, int64(n)) }
func (r *Run) Inconclusive()     { atomic.AddInt64(&r.inconclusive, 1) }
func (r *Run) Count(name string) { r.CountN(name, 1) }
func (r *Run) Evals() int64      { return atomic.LoadInt64(&r.evals) }
func (r *Run) CountN(name string, n int64) {
	r.mu.Lock()
	r.counters[name] += n
	r.mu.Unlock()
}

// NonTrivial records a distinct non-trivial case (deduplicated by content).
func (r *Run) NonTrivial(parts ...[]byte) {
	h := sha256.New()
	for _, p := range parts {
		h.Write(p)
		h.Write([]byte{0})
	}
	var k [12]byte
	copy(k[:], h.Sum(nil))
	r.mu.Lock()
	r.distinct[k] = struct{}{}
	r.mu.Unlock()
}

// Sample keeps a few cases for the evidence (first 3 + reservoir of 5).
func (r *Run) Sample(v interface{}) {
	r.mu.Lock()
	defer r.mu.Unlock()
	r.sampleSeen++
	if len(r.samples) < 8 {
		r.samples = append(r.samples, v)
		return
	}
	// deterministic thinning: replace slot by seen count hash
	n := r.sampleSeen
	if n&(n-1) == 0 { // powers of two
		r.samples[3+(n>>3)%5] = v
	}
}

// Set stores an extra coverage key.
func (r *Run) Set(k string, v interface{}) {
	r.mu.Lock()
	r.Extra[k] = v
	r.mu.Unlock()
}

// ReplayWitnesses re-runs every listed witness through the check's own oracle.
// fails(w) must return true when the witness still violates the property.
func (r *Run) ReplayWitnesses(fails func(f Finding, w Witness) (bool, string)) {
	for _, f := range r.findings {
		for _, w := range f.Witnesses {
			bad, detail := fails(f, w)
			if f.Status == "open" {
				if bad && !r.knownPrinted[f.ID] {
					r.knownPrinted[f.ID] = true
					fmt.Printf("KNOWN-FINDING: property=%s id=%s %s\n", r.Prop, f.ID, f.What)
				}
				if !bad {
					r.Count("known_finding_witness_no_longer_fails")
				}
			} else if bad {
				// a fixed entry suppresses nothing
				r.Violation(w.Key, "regression of fixed finding "+f.ID+": "+detail, map[string]interface{}{"config": w.Config, "input": w.Input, "b64": w.B64})
			}
		}
	}
}

// KnownSignature reports a hit of a listed open finding that is identified by its failure signature
// (call site + error) rather than by one input. Returns false if no such open finding is listed.
func (r *Run) KnownSignature(id string) bool {
	r.mu.Lock()
	defer r.mu.Unlock()
	for i := range r.findings {
		f := &r.findings[i]
		if f.ID == id && f.Status == "open" {
			r.knownHits++
			r.counters["known_finding_signature:"+id]++
			if !r.knownPrinted[f.ID] {
				r.knownPrinted[f.ID] = true
				fmt.Printf("KNOWN-FINDING: property=%s id=%s %s\n", r.Prop, f.ID, f.What)
			}
			return true
		}
	}
	return false
}

// IsKnown reports whether key is a listed open witness.
func (r *Run) IsKnown(key string) bool {
	_, ok := r.openKeys[key]
	return ok
}

// Violation records a violation unless its key is a listed open witness.
func (r *Run) Violation(key, what string, witness interface{}) {
	r.mu.Lock()
	defer r.mu.Unlock()
	if f, ok := r.openKeys[key]; ok {
		r.knownHits++
		if !r.knownPrinted[f.ID] {
			r.knownPrinted[f.ID] = true
			fmt.Printf("KNOWN-FINDING: property=%s id=%s %s\n", r.Prop, f.ID, f.What)
		}
		return
	}
	for _, v := range r.violations {
		if v.Key == key {
			return
		}
	}
	if len(r.violations) >= 200 {
		return
	}
	v := Violation{Key: key, What: what, Witness: witness}
	dir := filepath.Join(VerifDir(), "replay", r.Prop)
	os.MkdirAll(dir, 0o755)
	v.Replay = filepath.Join(dir, key+".json")
	b, _ := json.MarshalIndent(map[string]interface{}{"property": r.Prop, "key": key, "what": what, "witness": witness, "seed": r.Seed, "tier": r.Tier}, "", " ")
	os.WriteFile(v.Replay, b, 0o644)
	r.violations = append(r.violations, v)
}

func (r *Run) Violations() int {
	r.mu.Lock()
	defer r.mu.Unlock()
	return len(r.violations)
}

// Finish writes evidence and exits: 0 held, 1 violation, 2 observed too little.
func (r *Run) Finish(rule string, assumptions []string, floor int, exhaustive bool) {
	cov := map[string]interface{}{}
	for k, v := range r.Extra {
		cov[k] = v
	}
	if len(r.counters) > 0 {
		cov["counters"] = r.counters
	}
	cov["evaluations"] = r.evals
	cov["distinct_nontrivial"] = len(r.distinct)
	cov["rule"] = rule
	cov["inconclusive"] = r.inconclusive
	cov["known_finding_hits"] = r.knownHits
	if exhaustive {
		cov["exhaustive"] = true
	}
	if len(r.samples) == 0 {
		r.samples = []interface{}{"(no sample recorded)"}
	}
	cov["samples"] = r.samples
	ev := map[string]interface{}{
		"property_id": r.Prop, "tier": r.Tier, "seed": r.Seed, "level": r.Level,
		"coverage": cov, "assumptions": assumptions,
		"wall_s":     time.Since(r.start).Seconds(),
		"violations": len(r.violations),
		"go":         runtime.Version(),
	}
	if len(r.violations) > 0 {
		vs := []map[string]string{}
		for i, v := range r.violations {
			if i >= 10 {
				break
			}
			vs = append(vs, map[string]string{"key": v.Key, "what": trunc(v.What, 600), "replay": v.Replay})
		}
		ev["violation_list"] = vs
	}
	b, _ := json.MarshalIndent(ev, "", " ")
	os.MkdirAll(filepath.Join(VerifDir(), "evidence"), 0o755)
	if err := os.WriteFile(filepath.Join(VerifDir(), "evidence", r.Prop+".json"), b, 0o644); err != nil {
		fmt.Fprintln(os.Stderr, "cannot write evidence:", err)
		os.Exit(2)
	}
	fmt.Printf("%s %s seed=%d: evaluations=%d distinct_nontrivial=%d inconclusive=%d known_hits=%d violations=%d wall=%.1fs\n",
		r.Prop, r.Tier, r.Seed, r.evals, len(r.distinct), r.inconclusive, r.knownHits, len(r.violations), time.Since(r.start).Seconds())
	if len(r.counters) > 0 {
		keys := make([]string, 0, len(r.counters))
		for k := range r.counters {
			keys = append(keys, k)
		}
		sort.Strings(keys)
		var sb strings.Builder
		for _, k := range keys {
			fmt.Fprintf(&sb, " %s=%d", k, r.counters[k])
		}
		fmt.Println("counters:" + sb.String())
	}
	RemoveScratch()
	if len(r.violations) > 0 {
		for i, v := range r.violations {
			if i < r.maxViol {
				fmt.Printf("  what: %s\n", trunc(v.What, 400))
			}
			fmt.Printf("VIOLATION property=%s replay=%s\n", r.Prop, v.Replay)
			if i >= 20 {
				break
			}
		}
		os.Exit(1)
	}
	if len(r.distinct) < floor {
		fmt.Printf("INCONCLUSIVE property=%s observed only %d distinct non-trivial cases (< %d)\n", r.Prop, len(r.distinct), floor)
		os.Exit(2)
	}
	os.Exit(0)
}

func trunc(s string, n int) string {
	if len(s) > n {
		return s[:n] + "…"
	}
	return s
}

// Trunc is exported for checks.
func Trunc(s string, n int) string { return trunc(s, n) }

// ParallelFor runs f(i) for i in [0,n) on w workers (0 = NumCPU).
func ParallelFor(n, w int, f func(i int)) {
	if w <= 0 {
		w = runtime.NumCPU()
	}
	if w > n {
		w = n
	}
	if w <= 1 {
		for i := 0; i < n; i++ {
			f(i)
		}
		return
	}
	var next int64 = -1
	var wg sync.WaitGroup
	for k := 0; k < w; k++ {
		wg.Add(1)
		go func() {
			defer wg.Done()
			for {
				i := int(atomic.AddInt64(&next, 1))
				if i >= n {
					return
				}
				f(i)
			}
		}()
	}
	wg.Wait()
}

// Scratch makes a scratch directory under /var/tmp (never /tmp, /repo, /verif).
func Scratch(label string) string {
	base := os.Getenv("VERIF_SCRATCH")
	if base == "" {
		base = "/var/tmp"
	}
	d, err := os.MkdirTemp(base, "verif-"+label+"-")
	if err != nil {
		fmt.Fprintln(os.Stderr, "scratch:", err)
		os.Exit(2)
	}
	scratchMu.Lock()
	scratchDirs = append(scratchDirs, d)
	scratchMu.Unlock()
	return d
}

var (
	scratchMu   sync.Mutex
	scratchDirs []string
)

// RemoveScratch removes every scratch directory this process made (Finish ends the process with os.Exit, which
// skips deferred calls).
func RemoveScratch() {
	scratchMu.Lock()
	defer scratchMu.Unlock()
	for _, d := range scratchDirs {
		os.RemoveAll(d)
	}
	scratchDirs = nil
}

// Char picks one byte of s.
func (r *Rand) Char(s string) byte { return s[r.Intn(len(s))] }

// Pick2 returns one of the given ints.
func (r *Rand) Pick2(xs ...int) int { return xs[r.Intn(len(xs))] }
