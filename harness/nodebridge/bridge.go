// Package nodebridge runs a pool of long-lived node workers (js/worker.cjs) speaking JSON lines.
package nodebridge

import (
	"bufio"
	"encoding/json"
	"errors"
	"fmt"
	"io"
	"os"
	"os/exec"
	"path/filepath"
	"runtime"
	"sync"
	"time"
)

type worker struct {
	cmd *exec.Cmd
	in  io.WriteCloser
	out *bufio.Reader
}

type Pool struct {
	script string
	free   chan *worker
	mu     sync.Mutex
	all    []*worker
	nextID int64
}

// ErrTooling is returned when node/acorn are not usable: the check must fail loudly (exit 2), never pass silently.
var ErrTooling = errors.New("node tooling missing")

func verifDir() string {
	if d := os.Getenv("VERIF_DIR_SRC"); d != "" {
		return d
	}
	// the harness source tree is next to js/: resolve from the executable's VERIF_DIR or default
	if d := os.Getenv("VERIF_HOME"); d != "" {
		return d
	}
	return "/verif"
}

func New(n int) (*Pool, error) {
	if n <= 0 {
		n = runtime.NumCPU()
	}
	p := &Pool{script: filepath.Join(verifDir(), "js", "worker.cjs"), free: make(chan *worker, n)}
	for i := 0; i < n; i++ {
		w, err := p.spawn()
		if err != nil {
			p.Close()
			return nil, err
		}
		p.free <- w
	}
	return p, nil
}

func (p *Pool) spawn() (*worker, error) {
	cmd := exec.Command("node", "--expose-internals", "--experimental-vm-modules", "--no-warnings", "--stack-size=2000", p.script)
	in, err := cmd.StdinPipe()
	if err != nil {
		return nil, err
	}
	out, err := cmd.StdoutPipe()
	if err != nil {
		return nil, err
	}
	cmd.Stderr = nil
	if err := cmd.Start(); err != nil {
		return nil, fmt.Errorf("%w: %v", ErrTooling, err)
	}
	w := &worker{cmd: cmd, in: in, out: bufio.NewReaderSize(out, 1<<20)}
	rep, err := p.roundTrip(w, map[string]interface{}{"op": "ping"}, 20*time.Second)
	if err != nil || rep["pong"] != true {
		cmd.Process.Kill()
		cmd.Wait()
		return nil, fmt.Errorf("%w: worker did not answer ping: %v %v", ErrTooling, err, rep)
	}
	p.mu.Lock()
	p.all = append(p.all, w)
	p.mu.Unlock()
	return w, nil
}

func (p *Pool) roundTrip(w *worker, req map[string]interface{}, timeout time.Duration) (map[string]interface{}, error) {
	b, err := json.Marshal(req)
	if err != nil {
		return nil, err
	}
	b = append(b, '\n')
	type res struct {
		line []byte
		err  error
	}
	ch := make(chan res, 1)
	go func() {
		if _, err := w.in.Write(b); err != nil {
			ch <- res{nil, err}
			return
		}
		line, err := w.out.ReadBytes('\n')
		ch <- res{line, err}
	}()
	select {
	case r := <-ch:
		if r.err != nil {
			return nil, r.err
		}
		var rep map[string]interface{}
		if err := json.Unmarshal(r.line, &rep); err != nil {
			return nil, err
		}
		if f, ok := rep["fatal"]; ok {
			return nil, fmt.Errorf("%w: %v", ErrTooling, f)
		}
		return rep, nil
	case <-time.After(timeout):
		return nil, errors.New("worker watchdog")
	}
}

// Call sends one request to a free worker. On worker failure the worker is replaced and an error returned (=> inconclusive).
func (p *Pool) Call(req map[string]interface{}) (map[string]interface{}, error) {
	w := <-p.free
	rep, err := p.roundTrip(w, req, 30*time.Second)
	if err != nil {
		w.cmd.Process.Kill()
		w.cmd.Wait()
		nw, serr := p.spawn()
		if serr != nil {
			// keep pool size stable with a dead marker: retry spawn once more
			nw, serr = p.spawn()
			if serr != nil {
				fmt.Fprintln(os.Stderr, "cannot respawn node worker:", serr)
				os.Exit(2)
			}
		}
		p.free <- nw
		return nil, err
	}
	p.free <- w
	if e, ok := rep["error"]; ok {
		return rep, fmt.Errorf("%v", e)
	}
	return rep, nil
}

func (p *Pool) Close() {
	p.mu.Lock()
	defer p.mu.Unlock()
	for _, w := range p.all {
		w.in.Close()
		w.cmd.Process.Kill()
		w.cmd.Wait()
	}
	p.all = nil
}
